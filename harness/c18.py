"""C18 — randomised steps are deterministic in their inputs and the given generator/seed.

Two parts (DESIGN.md, C18):
  (A) trace conformance to the proved-explicit model Model/RandProg.v for the mirrored operations
      (random scorer, the two hold-out splits, DBAL triple sub-sampling, FixedSize / OptimalSize smoothers, the PlatePermutation and
      SampleSegregating generators): the requests the real
      operation makes on its generator, and its output, equal what the model program produces when it
      is replayed on the recorded answers (wire cases, aspect "repeatable").
  (B) the dynamic check, which is what detects defects: every randomised operation is run TWICE with an
      identically seeded generator on identical inputs, the process-global numpy (and python) generator
      being reseeded differently and drawn from before each run; required:
        aspect "repeatable"       (a) identical outputs, (b) identical request sequences on every seeded generator
        aspect "global-state"     (c) np.random.get_state() / random.getstate() unchanged by the operation,
                                  (d1) no call of a module-level numpy.random.<function> from batchie code
        aspect "given-generator"  (d2) no argument-less numpy.random.default_rng() from batchie code
      One execution (two observed runs) is shared by the three aspect cases of an operation instance.
"""
import hashlib
import json
import logging
import math
import os
import random as pyrandom
import shutil
import sys
import tempfile
import types
from unittest import mock

import numpy as np

import c18_args
import common
from common import float_key

ID = "C18"
LEVEL = "other"
RULE = ("one case = (operation instance, aspect); operation instances: 4 plate generators, 6 smoothers, 2 hold-out splits, "
        "RandomScorer, DBAL kernel and GaussianDBALScorer with a triple budget below C(n,3), KPerSample policy, select_next_plate, "
        "score_chunk with / without rng, sampling.sample on the two legacy Gibbs models and on the variational ComboGridFactorModel (pyro / torch; one epoch, "
        "1-3 optimiser steps, n_grid 4-6), and the 6 CLI main()s that declare --seed in-process (prepare, calculate_scores, train_model, select_next_plate, "
        "evaluate_model, analyze_model_evaluation: its published PDFs compared without /CreationDate, judged like every other operation since the repair of its unread --seed); "
        "inputs are random small screens built from a per-case seed; each instance is executed twice with the same seed under "
        "different global-generator states (numpy, python random and - when torch is importable - torch's, all three reseeded, advanced and compared before / "
        "after) with all numpy.random module functions, default_rng, seedless RandomState() / SeedSequence() / bit-generator constructions and torch's "
        "module-level drawing / seeding functions trapped; operations with a recorded known leak (training) get a further "
        "observation, aspect repeatable-modulo-known-leak: two runs under IDENTICAL global states and with every unseeded construction given the same fixed "
        "seed must agree (so a known finding cannot absorb a new cause); sampling.sample is also called twice on ONE model object under those conditions; "
        "aspect hash-seed: one instance in HASH_KINDS[kind] of every kind is run in two fresh interpreters that differ in PYTHONHASHSEED, process id and "
        "wall-clock second; the operations that are "
        "methods of a constructible object (generators, smoothers, scorers, the policy) are in addition asked twice on ONE object "
        "(key same_object).  Trivial: the operation "
        "refused its input (raised) in both runs; operations that legitimately make no draw (feature 'no-draws', e.g. MergeMin) are "
        "kept, since absence of hidden draws is what is checked; distinct by canonical description (operation, parameters, aspect).")
THEOREMS = {
    "C18_explicit_stream": "run p answers = Ok (o, reqs) => any answer list agreeing on the first |reqs| answers gives the same output and request trace",
    "C18_exec_is_replay": "executing p against ANY generator state machine (any state type) = replaying p on the answers that run produced; |answers| = |requests|",
    "C18_answers_determine_run": "two executions against arbitrary worlds that produced the same answers have the same output and the same request trace",
    "C18_replay_deterministic": "same generator function, equal initial states => equal output, requests, answers and final state",
    "C18_frame": "a world (own, global) whose draws are served by the own generator only: global component returned unchanged, result independent of its initial value and equal to the run on the own generator alone",
    "C18_two_runs_interleaved": "two runs from the same own state with an arbitrary perturbation of the global state in between: identical outputs, traces, final own states; the global state is exactly the perturbed one",
    "C18_bind_sequential": "sequential composition with one generator (pipelines such as the ensemble smoother / prepare CLI) consumes the answer stream left to right: run (bind p f) (a1 ++ a2) from the parts",
    "C18_for_each_trace": "a for-each loop with one draw per element requests exactly map req_of items, in item order",
    "C18_random_scorer_trace": "model of RandomScorer.score: one uniform request per plate, in plate order; output pairs plates with the answers in order",
    "C18_balanced_holdout_trace": "model of the plate-balanced hold-out: one choice request per unobserved plate, in plate order, pool = the plate's rows, k = ceil(size*fraction)",
    "C18_global_draws_refuted": "a program whose draws are served from the GLOBAL component (what the legacy Gibbs sampler does) depends on and perturbs it: concrete witness",
    "C18_prog_eq_replay": "program equality (prog_eq_on: same requests in the same order, same outputs) for all answers => equal replay on EVERY answer list, failures included",
    "C18_prog_eq_replay_valid": "program equality on the answers a contract admits => a successful replay whose consumed answers satisfy the contract is a replay of the other program with the same output and request trace",
    "C18_prog_eq_exec": "program equality on a contract => equal outcome (output, requests, answers, final state) against every generator state machine whose answers satisfy the contract",
    "C18_model_is_source_random_scorer": "the translation of the WHOLE method RandomScorer.score (a resumption program whose only request-making primitive is rng.random()) equals the hand-written random_scorer_prog (output wrapped in Ok) for all plate-key lists without duplicates (dict keys) and all answers",
    "C18_model_is_source_random_holdout": "the translation of the WHOLE function create_random_holdout equals: ValueError (5) if fraction outside [0,1], else random_holdout_prog followed by the two Screen(...) constructions on the vector of the held rows - for ANY screen type, size and meaning of the constructions, and all answers satisfying numpy's choice contract",
    "C18_model_is_source_balanced_holdout": "the same for the WHOLE function create_plate_balanced_holdout_set_among_masked_plates and balanced_holdout_prog, for every screen whose plates' row lists have screen.size entries in all, each a row number (true of every Screen: a row lies on exactly one plate)",
    "C18_model_is_source_dbal_subsample": "the translation of the statement run of dbal_fast_gauss_scoring_vectorized from `n_theta_combinations = comb(...)` to `unpacked_indices = rng.choice(...)` IS dbal_subsample_prog (Leibniz equality) for all n_thetas, max_combos",
    "C18_model_is_source_fixed_size_smoother": "the translation of the WHOLE method FixedSizeSmoother._smooth_plates equals the hand-written size_smoother_prog (per plate: dropped / kept / one choice of plate_size of its rows, replaced by np.isin of the answer; then the OR of the kept vectors) followed by screen.subset(v).to_screen() - for ANY screen type, size / plates functions and meaning of that last call, all answers",
    "C18_model_is_source_optimal_size_smoother": "the same for the WHOLE method OptimalSizeSmoother._smooth_plates, the size being ANY request-free (possibly raising) function of the list of plate sizes (its three numpy statements, one trusted statement run)",
    "C18_model_is_source_plate_permutation": "the translation of the WHOLE method PlatePermutationPlateGenerator._generate_plates equals: the request-free split of the screen (force-included plates aside), then plate_permutation_prog = ONE rng.permutation of the plate names of the rows to permute, then the request-free Screen(...) construction with the answer (+ combine) - for ANY screen type and meaning of subset().to_screen(), Screen(...), combine; all answers",
    "C18_model_is_source_sample_segregating": "the translation of the WHOLE method SampleSegregatingPermutationPlateGenerator._generate_plates equals sample_seg_prog (per sample in unique_sample_ids order: one plate, or ONE rng.permutation of its rows split by np.array_split into ceil(len/max) plates; then every row labelled with its plate number) followed by the Screen(...) construction - for ANY screen type, sample-row function and meaning of that construction; all answers; ZeroDivisionError / ValueError / IndexError paths included",
    "C18_source_fixed_size_smoother_trace": "the translated FixedSizeSmoother._smooth_plates requests exactly one choice per plate larger than plate_size, in plate order, pool = the plate's rows, k = plate_size",
    "C18_source_random_scorer_trace": "the trace theorem about the translated source: RandomScorer.score requests exactly one uniform per plate key, in key order, and pairs the keys with the answers in order",
    "C18_source_balanced_holdout_trace": "the trace theorem about the translated source: the plate-balanced hold-out requests exactly one choice per unobserved plate, in plate order, pool = the plate's rows, k = ceil(size*fraction)",
}
ASSUMPTIONS = [
    "runtime part: numpy.random module-level functions and default_rng are looked up on the module at call time by batchie code (checked: no 'from numpy.random import <function>' in /repo/src/batchie), so patching the module attributes traps them",
    "hidden randomness that bypasses numpy.random.<fn> / default_rng() / the seedless constructors RandomState() SeedSequence() PCG64() PCG64DXSM() MT19937() Philox() SFC64() (looked up on the numpy.random module at call time) and the global numpy / python / torch generator states (e.g. os.urandom, numpy.random.mtrand.RandomState imported by another path, a torch.Generator seeded from the clock) is visible only through differing outputs of the two runs or of the two fresh interpreters",
    "torch: only the CPU default generator (torch.get_rng_state()) is compared; Tensor methods that draw in place (x.normal_()) are not trapped by name - they show as a changed state; torch is observed only if some batchie module imported it (batchie.models.grid_combo does)",
    "a declared --seed that a command never reads is a violation only if the command's output is not a function of its input files: evaluate_model is (theorem C18_model_is_source_cli_evaluate_model_seedless + runtime); analyze_model_evaluation was not (seaborn's bootstrap; repaired: main() hands --seed to both regplot-drawing plots, theorems C18_source_cli_analyze_*, and the runtime observation judges it without any neutralisation)",
    "analyze_model_evaluation link (configuration CLI_ANALYZE, shared with C20): trusted are the translator and one event per call - plotting.predicted_vs_observed_scatterplot[_per_sample](e, f, seed=s) = the event carrying Some s, the same call without the keyword = the event carrying None; that seaborn.regplot(seed=s) bootstraps from numpy.random.default_rng(s) and from nothing else is seaborn's contract (CliAnalyze.regplot_rng), checked at run time by the default_rng traps and the comparison of the published files",
    "two calls of sampling.sample on ONE model object are read as 'repeated with identical inputs' (sample() itself calls reset_model() first), as for generator / smoother / scorer / policy objects; the pipeline builds a fresh model per process, so the recorded finding does not affect it",
    "hold-out model: ceil(size * fraction) is computed over exact rationals; the harness uses dyadic fractions for which the float product is exact",
    "float scores cross the wire as order keys; DBAL scores themselves are not modelled here (C05), only the sub-sampling request",
    "source links: the hold-out theorems quantify over answers satisfying numpy's contract for rng.choice(array, k, replace=False) (k distinct elements of the array); the balanced one assumes the plates' row lists partition range(screen.size) (stated as two hypotheses; C14 proves it of Screen.plates); the random-scorer one assumes the dict's keys are distinct",
    "source links: math.ceil(n * fraction) is the exact ceiling of n*num/den (primitive), as in the hand-written model; the DBAL link translates the sub-sampling statements only - the statements around them (shape checks, float arithmetic on the drawn indices) are not translated, but the translator refuses any identifier in them that is not on the configuration's list outside_names (their own variables, numpy array functions, logsumexp, C15's unranking kernel; not rng, nothing of numpy.random), and they stay under the runtime traps",
]
EXPLANATION = (
    "Level 'other': trace conformance to a proved-explicit model plus runtime trapping.  Proved (Coq, closed under the global context): "
    "in the resumption-tree model of a randomised step (Model/RandProg.v) the output and the sequence of draw requests are a function "
    "of the program and the answers it consumes only; execution against any generator state machine is replay of its answers; a "
    "program drawing only through its own generator neither reads nor changes an unrelated global generator state, also across two "
    "runs with arbitrary global perturbation in between; the property fails for a program served from the global state (refuted "
    "witness).  Tied to the code for eight mirrored operations (RandomScorer.score, create_random_holdout, "
    "create_plate_balanced_holdout_set_among_masked_plates, DBAL triple sub-sampling, FixedSizeSmoother / OptimalSizeSmoother."
    "_smooth_plates, PlatePermutationPlateGenerator / SampleSegregatingPermutationPlateGenerator._generate_plates) by TRACE CONFORMANCE: recorded requests and "
    "output of the real operation = extracted model replayed on the recorded answers; answers are checked against the numpy contract. "
    "NOT proved about the implementation: that it has no hidden state.  That part is a RUNTIME check on generated inputs: every "
    "operation listed in the property is run twice with identically seeded generators under differently seeded global generators, "
    "outputs and request traces are compared, the global numpy / python generator states are compared before/after, and every call "
    "of numpy.random.<module function> or argument-less default_rng() is trapped with its batchie call site.  Since the gap review g5: torch's "
    "process-global generator is part of the global state (reseeded, compared, its module-level drawing functions trapped); seedless RandomState() / "
    "SeedSequence() / bit generators are trapped like default_rng(); the variational ComboGridFactorModel is trained (known finding: it never reads its "
    "generator - theorems C18_global_only_frame / C18_given_generator_unread say what follows: the seed is no input of such a step); every "
    "operation with a recorded leak is observed once more with the leak neutralised (theorem C18_global_only_repeatable_from_equal_global: then it "
    "must be repeatable) so that the known signature cannot absorb a new cause, sampling.sample also twice on ONE model object (known finding: "
    "reset_model() is incomplete); the two remaining commands that declare --seed are run (evaluate_model: deterministic without it; "
    "analyze_model_evaluation: randomised by seaborn's bootstrap of two regression bands; its --seed was unread - finding analyze-model-evaluation-cli-ignores-seed, "
    "REPAIRED: both plotting functions take seed= and main() passes args.seed; the whole main() is translated and proved to hand --seed to both calls, "
    "C18_cli_analyze_unseeded_refuted is the witness about the pre-repair wrapper, corpus/C18/analyze_ignores_seed.json the replayed input).  Not covered: ComboGridFactorModel through train_model's command line "
    "(its constructor arguments are not expressible as --model-param), the nextflow pipelines, multi-process runs, CUDA generators.  "
    "COVERED BY PROOF since the source-translation links (theorems C18_model_is_source_*): RandomScorer.score, "
    "create_random_holdout, create_plate_balanced_holdout_set_among_masked_plates, FixedSizeSmoother._smooth_plates, "
    "OptimalSizeSmoother._smooth_plates, PlatePermutationPlateGenerator._generate_plates and "
    "SampleSegregatingPermutationPlateGenerator._generate_plates (whole functions) and the triple "
    "sub-sampling statements of dbal_fast_gauss_scoring_vectorized (the rest of that function may only mention the identifiers "
    "listed in the configuration's outside_names - a new name such as rng, .random or default_rng there is refused) are "
    "re-translated from the tree under test on every run by "
    "harness/py2gal.py into programs of the model's own resumption type (Generated/SrcRand.v; cfg monad = rprog), and the "
    "hand-written programs are proved equal to the translations (same requests in the same order, same outputs) for all "
    "inputs.  Meaning for C18: in a translated function a draw request can only come from a primitive that is a call on "
    "the function's OWN generator argument; the translator is fail-closed, so a module-level numpy.random function, an "
    "argument-less default_rng(), handing rng to another callee, or any other undeclared call inside such a function is "
    "refused and the check reports a broken obligation.  Hence for these functions 'the request trace and the output are "
    "a function of the inputs and the answers of the given generator only' is a theorem about the translated source (it is "
    "a `prog`, so C18_explicit_stream / exec_is_replay / frame / two_runs_interleaved apply to it as they stand), not a "
    "runtime observation; trace conformance and the runtime traps still run for them and remain the only tie for every "
    "other operation (SparseCover - whose C13 link is re-read for C18 by C18_source_sparse_cover_explicit_stream - and Pairwise generators, the other four smoothers, DBAL scorer arithmetic, policy, "
    "select_next_plate, score_chunk, sampling, CLIs).  The links trust: the translator and Lib/PyRt.v + the rprog vocabulary at the end of "
    "Model/RandProg.v as the meaning of the Python constructs, and exactly these primitives - requests: rng.random() "
    "(RRandom, the double as its order key), rng.choice(a, n, replace=False) (RChoice a n false), rng.choice(n, size=k, "
    "replace=False) (RChoiceN n k false), rng.permutation(a) (RPermutation a); request-free: plates.keys() (the key list), fraction < 0 / fraction > 1 (num < 0 / "
    "den < num), np.zeros(s.size, dtype=bool) (all-false vector), math.ceil(n * fraction) (exact ceiling of n*num/den), "
    "np.arange(s.size) (range), s.size, s.plates, np.arange(s.size)[p.selection_vector] / p.is_observed / p.size (a plate as "
    "(row list, observed flag); size = number of rows), selection_vector[idx] = True (numpy index-array store: IndexError "
    "outside -n..n-1, negative indices wrap), the two Screen(...) constructions (ANY request-free function of the screen and "
    "the selection vector, possibly raising: universally quantified in the theorems), comb(n, 3, exact=True) (binom3), "
    "min(a, b); for the two smoothers a plate is its selection vector: p.size (count of true), p.selection_vector, "
    "np.arange(s.size)[p.selection_vector] (positions of true), np.isin(np.arange(s.size), idx) (membership vector), "
    "Plate(screen, v) (v), a | b (element-wise or of equal-length vectors), self.plate_size, screen.subset(v).to_screen() and "
    "OptimalSizeSmoother's three size-picking numpy statements (ANY request-free functions, universally quantified), "
    "logger.info ignored; for the two generators plate names / sample ids are integers: self.force_include_plate_names (an "
    "optional list, truthiness = non-empty), ~np.isin(s.plate_names, f), np.ones(s.size, dtype=bool), np.any(~v), "
    "s.subset(v).to_screen() / s.subset(~v).to_screen(), the Screen(...) constructions, a.combine(b) (ANY request-free "
    "functions, universally quantified), self.max_plate_size, s.unique_sample_ids, np.arange(s.size)[s.sample_ids == i] (ANY "
    "functions of the screen), len, math.ceil(len(a) / float(b)) (exact ceiling; ZeroDivisionError for 0), np.array_split(a, n) "
    "(numpy's split points; ValueError unless n > 0), np.array([''] * s.size, dtype=object) (blank labels), plate_names[idx] = "
    "f'generated_plate_{k}' (index-array store of the plate number k, IndexError outside -n..n-1).  A request whose arguments numpy rejects (k < 0, k > len(pool) without replacement) raises in "
    "Python where the model continues with an answer; no answer satisfies the contract valid_answer for such a request.")
# ---- source-translation links of the command-line wrappers (Model/Cli.v, Generated/SrcCli.v) ----
THEOREMS.update({
    'C18_model_is_source_cli_get_prng_from_seed_argument': 'the translation of the whole function argument_parsing.get_prng_from_seed_argument regenerated on this run equals Cli.prng_of_seed: default_rng(SeedSequence(args.seed).generate_state(1)[0]), a function of args.seed alone (ValueError for a negative seed); it reads no other attribute of args',
    'C18_model_is_source_cli_calculate_scores': 'the translation of the whole function calculate_scores.main regenerated on this run equals, for every record L of library functions and all parsed arguments, Cli.cli_calculate_scores: score_chunk is handed the loaded screen, the concatenated thetas / distance-matrix files (argument order), rng = Some (the generator derived from --seed), --n-chunks, --chunk-index, the --batch-plate-ids list, and its result is saved to --output (the repaired defect 9b38441 was the missing rng=)',
})
EXPLANATION += ("Source-translation links of the CLI wrapper (round 2b): calculate_scores.main and get_prng_from_seed_argument are re-translated as WHOLE functions on every run (Generated/SrcCli.v) and proved equal to Model/Cli.v.  They trust the translator harness/py2gal.py (for these links extended by cfg typed_effects, kwcalls keys `module.function`, state_calls assigned to a tuple), the representation of Model/Cli.v (parsed arguments = a record of the plain argparse results, get_args() not translated = the primitive `get_args()` yielding that record; a main() denotes the list of (path, content) files it writes; `L` = ANY record of library functions over abstract types) and EXACTLY these primitives of harness/src_functions.py, each one field read / one library or constructor call standing for the function of that name (whose own link, where it exists, is the one of its property): CLI_PRNG (get_prng_from_seed_argument, reads args.seed only): numpy.random.SeedSequence(s).generate_state(1)[0] = seedseq_word mix s (ValueError for s < 0, `mix` an arbitrary function of the seed), numpy.random.default_rng(w) = Gen w. CLI_CALCULATE_SCORES: the fields of `args` read as the record's projections (a store to one is refused); ignored: log_config.configure_logging(args), logger.info/warning; Screen.load_h5(p), args.scorer_cls(**args.scorer_params), ThetaHolder(n_thetas=1) (a handle), h.load_h5(p), h.concat(l), ChunkedDistanceMatrix.load(p) / .concat(l), sum(l), s.plates, p.is_observed, p.plate_id (the three only feed a log line), get_prng_from_seed_argument(args) = the TRANSLATED function on the record's seed, the keyword call score_chunk(...) with the defaults of its signature (rng=None, progress_bar=False, n_chunks=1, chunk_index=0, batch_plate_ids=None; WHICH keywords are passed is read from the source), typed effect r.save_h5(p) = append (p, r) to the written files. ")
# ---- the argument-handling glue (cli/argument_parsing.py, introspection.py, calculate_scores.get_args, main as a whole command)
THEOREMS.update({
    'C18_model_is_source_cli_args_str_to_bool': 'the translation of the WHOLE function argument_parsing.str_to_bool regenerated on this run equals Cli.str_to_bool, for every lower() and all strings',
    'C18_model_is_source_cli_args_cast_dict_to_type': 'the translation of the WHOLE function argument_parsing.cast_dict_to_type equals Cli.cast_dict (items in dict order; per item the annotation lookup, KeyError 25, then the converter of the table or the annotation itself; first exception aborts), for every record of string primitives',
    'C18_model_is_source_cli_args_kv_append_action': 'the translation of the WHOLE method KVAppendAction.__call__ equals Cli.kv_append on the namespace seen at the destination attribute: nargs assertion, split("=", 2) unpacked into two names, ArgumentError otherwise, stored into the dict so far (or a new one)',
    'C18_model_is_source_cli_args_get_args': 'the translation of the WHOLE function calculate_scores.get_args (parse_args() = the raw namespace) equals Cli.cs_get_args: class lookup by --scorer among Scorer subclasses, its required-argument annotations, --scorer-param cast by them ({} when none)',
    'C18_model_is_source_cli_args_calculate_scores': 'calculate_scores.main translated as a whole command (get_args() = the translated get_args; args.scorer_cls(**args.scorer_params) = construct on the two attributes) equals: resolve --scorer / --scorer-param, then Cli.cli_calculate_scores whose cs_mk_scorer IS the resolved class instantiated with the cast parameters',
    'C18_model_is_source_cli_args_get_class': 'the translation of the WHOLE function introspection.get_class equals Cli.get_class: modules of the package in walk order, the first truthy attribute of that name decides (ValueError when not a subclass), None when there is none',
    'C18_model_is_source_cli_args_create_instance': 'the translation of the WHOLE function introspection.create_instance equals Cli.create_instance (NameError when get_class found nothing)',
    'C18_model_is_source_cli_args_get_required_init_args_with_annotations': 'the translation of the WHOLE function equals Cli.required_args: TypeError for a non-class, else the parameters other than self without default, in signature order, annotation or None',
    'C18_model_is_source_cli_args_calculate_scores_world': 'the whole command with the introspection record made of the TRANSLATED get_class / get_required_init_args_with_annotations equals the model over the importlib / pkgutil / inspect primitives',
    'C18_cli_args_unknown_bool_raises': 'a string whose lower() is none of the ten spellings makes str_to_bool raise ValueError',
    'C18_cli_args_bool_spellings': 'the five true / five false spellings give True / False, and an answer b implies a spelling of b (so `no` can never read as True)',
    'C18_cli_args_converter_table': 'per annotation: bool -> str_to_bool (not bool(s)), int -> int(s), float -> float(s), str -> s, no annotation -> TypeError, any other annotation is called on the string',
    'C18_cli_args_cast_exact': 'for a dict (distinct keys) cast_dict = map of the per-item conversion in dict order: exactly the typed values, or the first failing item\'s exception',
    'C18_cli_args_kv_word': 'one word: KEY=VALUE without further = is stored (later VALUE of a repeated KEY wins in place); no = is an ArgumentError; a VALUE containing = is an ArgumentError too (maxsplit is 2)',
    'C18_cli_args_words_cast_exactly': 'end to end: words KEY=VALUE... (distinct keys, no = inside) accumulated in command-line order and cast are exactly the per-item conversions in command-line order',
    'C18_cli_args_get_class_subclass': 'what get_class returns is truthy and a subclass of the requested base class',
    'C18_cli_args_unknown_class_is_type_error': 'a class name no module defines ends the class resolution with TypeError "The given object is not a class."',
    'C18_cli_args_required_args_table': 'the required-argument table never holds the empty marker nor self',
})
_PARSER_PLAN = {
    "calculate_scores": ["fields", "dests_derived", "dests_distinct", "seed", "coordinates", "params"],
    "select_next_plate": ["fields", "dests_derived", "dests_distinct", "seed", "params"],
    "train_model": ["fields", "dests_derived", "dests_distinct", "seed", "coordinates", "params"],
    "prepare_retrospective_simulation": ["fields", "dests_derived", "dests_distinct", "seed", "params", "fraction"],
    "reveal_plate": ["fields", "dests_derived", "dests_distinct"],
    "extract_screen_metadata": ["fields", "dests_derived", "dests_distinct"],
    "calculate_distance_matrix": ["fields", "dests_derived", "dests_distinct", "coordinates", "params"],
    "evaluate_model": ["fields", "dests_derived", "dests_distinct", "seed"],
    "analyze_model_evaluation": ["fields", "dests_derived", "dests_distinct", "seed"],
}
THEOREMS.update(c18_args.parser_theorems("C18", _PARSER_PLAN))
THEOREMS.update({
    "C18_global_only_frame": "mirror image of C18_frame: a world (own, global) whose draws are ALL served by the global component (the variational model's training: set_rng stores the seeded generator, nothing reads it): own component returned unchanged, result independent of it and equal to the run on the global generator alone; G any type, e.g. (numpy state, torch state)",
    "C18_given_generator_unread": "for such a step two runs with DIFFERENT given generators (seeds) and the same global state have the same output, requests, answers and final global state: the seed is not an input of it",
    "C18_global_only_repeatable_from_equal_global": "what the observation repeatable-modulo-known-leak relies on: from equal global states even a globally served step is repeatable, so a difference remaining there has another cause than the recorded leak",
    "C18_sparse_cover_explicit_stream": "the initial cover: RetroInit.sparse_cover (C13's model of SparseCoverPlateGenerator inside its public wrapper, answers as an explicit stream) consumes a prefix of the answers; output and unread rest are the same for every continuation of that prefix",
    "C18_source_sparse_cover_explicit_stream": "the same about the TRANSLATED source (generate_and_unmask_initial_plate around _generate_and_unmask_initial_plate, Generated/SrcRetroGen.v, with the fuel C13 proves sufficient): its only answer-reading primitive is rng.choice(a, size=1) on its own generator argument, and what it returns depends on the consumed prefix only",
    "C18_model_is_source_cli_evaluate_model_seedless": "evaluate_model.main (whole function, re-translated on this run) equals Cli.cli_evaluate_model, a function of the library record and Cli.ev_args = (screen, thetas, output): no seed component, no draw primitive in the vocabulary - the command is deterministic without reading its declared --seed (same statement as C10's link; re-stated so that C18 breaks when main() starts to read args.seed or to draw)",
})
# ---- analyze_model_evaluation.main reads its --seed (repair of the finding analyze-model-evaluation-cli-ignores-seed) ----
THEOREMS.update({
    "C18_model_is_source_cli_analyze": "analyze_model_evaluation.main (whole function, re-translated on this run; configuration CLI_ANALYZE shared with C20) equals CliAnalyze.cli_analyze = cli_analyze_gen true, for every library record and all parsed arguments: the two regplot-drawing plotting calls carry seed=args.seed (a call without the keyword translates to an event carrying None and breaks this obligation)",
    "C18_source_cli_analyze_regplot_seeds": "a run of the translated main() that completes makes exactly two regplot-drawing calls (scatter plot, per-sample scatter plot), both with seed = --seed",
    "C18_source_cli_analyze_bootstrap_seeded": "with seaborn's contract regplot(seed=s) -> default_rng(s) (a function of s when an int is given, OS entropy when None; generator and entropy types arbitrary): the bootstrap generators of the translated main() are [default_rng(--seed); default_rng(--seed)] in every world",
    "C18_source_cli_analyze_entropy_free": "two runs of the translated main() on the same files with the same --seed under ANY two answers of the entropy source bootstrap from the same generators",
    "C18_cli_analyze_unseeded_refuted": "REFUTED about the wrapper BEFORE the repair (cli_analyze_gen false: --seed parsed, no seed= at either call): files, a --seed and two answers of the entropy source for which the two runs bootstrap from different generators (the repaired defect; replayed on the implementation by corpus/C18/analyze_ignores_seed.json)",
})
THEOREMS['C18_parser_seed_default_draws'] = ('for any table with Cli.seed_declared: on the default --seed the generator construction of the wrappers '
                                             '(Cli.prng_of_seed, linked to get_prng_from_seed_argument) succeeds')
EXPLANATION += c18_args.parser_explanation(sorted(_PARSER_PLAN))
EXPLANATION += c18_args.explanation(
    ["str_to_bool", "cast", "kv", "get_args", "cmd", "introspection"],
    "argument_parsing.str_to_bool / cast_dict_to_type / KVAppendAction.__call__, introspection.get_class / create_instance / "
    "get_required_init_args_with_annotations, calculate_scores.get_args and calculate_scores.main as a whole command are") + (
    "Runtime part for the glue (kind cli_args, harness/c18_args.py): differential correspondence of the same functions with the extracted models "
    "(ops 7-12 of Run/RunC18.v), the library primitives evaluated on the real libraries and handed to the model as answer tables (so str.lower / "
    "int / float / str.split / inspect.signature / walk_packages / import_module / issubclass are exercised), exception CLASSES compared through "
    "the error tags, plus the property's own predicates (documented spellings; values typed exactly by their key's annotation, in order; "
    "KEY=VALUE words stored whole or refused, never cut; required arguments = the signature's; get_class returns a subclass of the base) and "
    "get_args() of the four wrappers run on generated command lines (the named class, the parameters typed by THAT class's annotations, "
    "--holdout-fraction unchanged).  Observations on the unchanged tree (not property violations): a VALUE containing '=' is refused although "
    "the docstring says 'split on the first ='; only arguments WITHOUT default are castable, so e.g. --scorer-param max_chunk=10 for "
    "GaussianDBALScorer is a KeyError.  ")
TRUSTED = [
    "unittest.mock patching of numpy.random attributes and the stack walk that attributes trapped calls to files under /repo/src/batchie",
    "RecordingGenerator (python subclass of numpy.random.Generator sharing the seeded bit generator) does not change the stream",
    "the trapping subclasses of numpy.random.RandomState / SeedSequence / bit generators (transparent to isinstance / issubclass through a metaclass) and the wrappers of torch's module-level random functions behave as the originals; torch.set_num_threads(1) changes no result",
]

SRC = os.path.join(os.environ.get("VERIF_REPO", "/repo"), "src", "batchie") + "/"   # the tree under test
logging.getLogger("batchie").setLevel(logging.CRITICAL)

# ------------------------------------------------------------------------------------------------ trapping

ORIG_DEFAULT_RNG = np.random.default_rng
ORIG_GET_STATE = np.random.get_state
ORIG_SEED = np.random.seed
ORIG_RANDOM_SAMPLE = np.random.random_sample
GLOBAL_FN_NAMES = [
    n for n in dir(np.random)
    if not n.startswith("_") and n not in ("default_rng", "test")
    and callable(getattr(np.random, n)) and not isinstance(getattr(np.random, n), (type, types.ModuleType))
]
GEN_METHODS = [n for n in dir(np.random.Generator)
               if not n.startswith("_") and n not in ("bit_generator", "spawn") and callable(getattr(np.random.Generator, n))]


def _batchie_frames(skip=2):
    """call sites under /repo/src/batchie on the stack, innermost first; if there is none, the immediate caller marked <outside>"""
    f = sys._getframe(skip)
    first = f
    out = []
    while f is not None:
        fn = f.f_code.co_filename
        if fn.startswith(SRC):
            out.append("%s:%s:%d" % (fn[len(SRC):], f.f_code.co_name, f.f_lineno))
        f = f.f_back
    if not out:
        out = ["<outside>%s:%s:%d" % (os.path.basename(first.f_code.co_filename), first.f_code.co_name, first.f_lineno)]
    return out


def _outside(frames):
    return frames[0].startswith("<outside>")


def site_ff(site):
    """'file:function:line' -> 'file:function'"""
    return site.rsplit(":", 1)[0] if site else "?"


def cv(x):
    """canonical, JSON-able, equality-comparable form of arguments / results / outputs"""
    if isinstance(x, np.ndarray):
        if x.dtype == object:
            return ["objarr", [cv(e) for e in x.tolist()]]
        d = ["nd", str(x.dtype), list(x.shape), hashlib.sha1(np.ascontiguousarray(x).tobytes()).hexdigest()[:16]]
        if x.size <= 600 and x.dtype.kind in "iubUS":
            d.append(x.tolist())
        elif x.size <= 64 and x.dtype.kind == "f":
            d.append([float(v).hex() for v in x.ravel()])
        return d
    if isinstance(x, (np.bool_,)):
        return bool(x)
    if isinstance(x, np.integer):
        return int(x)
    if isinstance(x, np.floating):
        return ["f", float(x).hex()]
    if isinstance(x, float):
        return ["f", x.hex()]
    if isinstance(x, (bool, int, str)) or x is None:
        return x
    if isinstance(x, (list, tuple, range)):
        return [cv(e) for e in x]
    if isinstance(x, dict):
        return [[cv(k), cv(v)] for k, v in x.items()]
    if hasattr(x, "selection_vector") and hasattr(x, "screen"):
        return ["subset", type(x).__name__, np.flatnonzero(x.selection_vector).tolist()]
    return ["obj", type(x).__name__]


class RecordingGenerator(np.random.Generator):
    """A real numpy Generator (same bit generator, hence same stream) that records every public call."""


def _mk_method(name):
    def m(self, *a, **k):
        if self._depth:
            return getattr(np.random.Generator, name)(self, *a, **k)
        self._depth += 1
        try:
            r = getattr(np.random.Generator, name)(self, *a, **k)
        finally:
            self._depth -= 1
        self.requests.append([name, cv(a), cv(k)])
        self.raw.append((name, a, k, r))
        self.answers.append(cv(r))
        return r
    m.__name__ = name
    return m


for _n in GEN_METHODS:
    setattr(RecordingGenerator, _n, _mk_method(_n))


def recording(gen, label):
    r = RecordingGenerator(gen.bit_generator)
    r._depth = 0
    r.requests, r.answers, r.raw, r.label = [], [], [], label
    return r


class Session:
    def __init__(self, neutral=False):
        self.neutral = neutral   # unseeded constructions get a fixed seed (observation "modulo the known leak")
        self.n_unseeded = 0
        self.log = []   # trapped calls: dict(fn, frames) — frames: batchie call sites innermost first, or one '<outside>' caller
        self.gens = []  # recording generators, in creation order

    def rng(self, seed):
        """the identically seeded generator handed to the operation"""
        g = recording(ORIG_DEFAULT_RNG(seed), "given")
        self.gens.append(g)
        return g


# bit generators / RandomState / SeedSequence constructed WITHOUT seed / entropy draw OS entropy: hidden state just as an
# argument-less default_rng().  They are classes (libraries test isinstance against them), so each is replaced by a subclass that is
# transparent to isinstance / issubclass and logs a seedless construction with its batchie call site.
UNSEEDED_CLASS_NAMES = [n for n in ("RandomState", "SeedSequence", "PCG64", "PCG64DXSM", "MT19937", "Philox", "SFC64") if isinstance(getattr(np.random, n, None), type)]
ORIG_CLASSES = {n: getattr(np.random, n) for n in UNSEEDED_CLASS_NAMES}
UNSEEDED_FNS = {"default_rng()"} | {n + "()" for n in UNSEEDED_CLASS_NAMES}
# torch's process-global generator (when torch is importable): module-level functions that draw from / reseed it unless given generator=
TORCH_FN_NAMES = ["manual_seed", "seed", "set_rng_state", "rand", "randn", "randint", "randperm", "normal", "bernoulli", "multinomial", "poisson",
                  "rand_like", "randn_like", "randint_like", "binomial", "_standard_gamma", "_sample_dirichlet"]
NEUTRAL_SEED = 777000111


def _torch():
    """torch if it has been imported (batchie.models.grid_combo imports it; _warm() imports every batchie module), else None"""
    return sys.modules.get("torch")


class _TransparentMeta(type):
    def __instancecheck__(cls, obj):
        return isinstance(obj, cls.__mro__[1])

    def __subclasscheck__(cls, sub):
        return issubclass(sub, cls.__mro__[1])


def _class_trap(name, orig, sess):
    def __init__(self, *a, **k):
        first = a[0] if a else k.get("entropy" if name == "SeedSequence" else "seed")
        if first is None:
            sess.log.append(dict(fn=name + "()", frames=_batchie_frames()))
            if sess.neutral:        # the known leak neutralised: the same seed in both runs, a different one per construction
                sess.n_unseeded += 1
                a, k = (NEUTRAL_SEED + sess.n_unseeded,) + tuple(a[1:]), {kk: v for kk, v in k.items() if kk not in ("seed", "entropy")}
        orig.__init__(self, *a, **k)
    return _TransparentMeta(name, (orig,), {"__init__": __init__, "__module__": orig.__module__, "__qualname__": name})


def _traps(sess):
    import contextlib
    repl = {}
    for n in GLOBAL_FN_NAMES:
        orig = getattr(np.random, n)

        def w(*a, __orig=orig, __n=n, **k):
            sess.log.append(dict(fn=__n, frames=_batchie_frames()))
            return __orig(*a, **k)
        repl[n] = w

    def drng(*a, **k):
        frames = _batchie_frames()
        seedless = (not a and not k) or (a and a[0] is None) or (not a and k.get("seed", 0) is None)
        if seedless and sess.neutral:
            sess.n_unseeded += 1
            sess.log.append(dict(fn="default_rng()", frames=frames))
            return ORIG_DEFAULT_RNG(NEUTRAL_SEED + sess.n_unseeded)
        g = ORIG_DEFAULT_RNG(*a, **k)
        if seedless:
            sess.log.append(dict(fn="default_rng()", frames=frames))
            return g
        if not _outside(frames):  # a seeded generator the operation creates itself (--seed, sampling.sample): record its requests too
            r = recording(g, "created@" + site_ff(frames[0]))
            sess.gens.append(r)
            return r
        return g
    repl["default_rng"] = drng
    for n, orig in ORIG_CLASSES.items():
        repl[n] = _class_trap(n, orig, sess)
    st = contextlib.ExitStack()
    st.enter_context(mock.patch.multiple(np.random, **repl))
    torch = _torch()
    if torch is not None:
        trepl = {}
        for n in TORCH_FN_NAMES:
            orig = getattr(torch, n, None)
            if orig is None:
                continue

            def tw(*a, __orig=orig, __n=n, **k):
                if k.get("generator") is None:
                    sess.log.append(dict(fn="torch." + __n, frames=_batchie_frames()))
                return __orig(*a, **k)
            trepl[n] = tw
        st.enter_context(mock.patch.multiple(torch, **trepl))
    return st


def _state_eq(a, b):
    return a[0] == b[0] and np.array_equal(a[1], b[1]) and tuple(a[2:]) == tuple(b[2:])


def observe(thunk, gseed, neutral=False):
    """reseed + advance the global generators (numpy, python random, torch when imported), run thunk(session) under the traps,
    compare the global states.  neutral=True: unseeded generator constructions are given a fixed seed (Session.neutral)."""
    ORIG_SEED(gseed)
    ORIG_RANDOM_SAMPLE(1 + gseed % 7)
    pyrandom.seed(gseed * 7919 + 1)
    pyrandom.random()
    torch = _torch()
    if torch is not None:
        torch.manual_seed(gseed * 31 + 5)
        torch.rand(1 + gseed % 5)
    st0, py0 = ORIG_GET_STATE(), pyrandom.getstate()
    t0 = torch.get_rng_state().clone() if torch is not None else None
    sess = Session(neutral)
    lg = logging.getLogger("batchie")
    handlers = list(lg.handlers)
    with _traps(sess), mock.patch("batchie.log_config.configure_logging", lambda args: None):
        try:
            out = thunk(sess)
        except Exception as e:  # a refused input is an output like any other: both runs must refuse alike
            out = ["raised", type(e).__name__, str(e)[:160]]
    lg.handlers[:] = handlers
    st1, py1 = ORIG_GET_STATE(), pyrandom.getstate()
    torch = _torch()
    torch_changed = bool(torch is not None and t0 is not None and not torch.equal(t0, torch.get_rng_state()))
    return dict(out=out, gens=sess.gens,
                reqs=[[g.label, g.requests] for g in sess.gens], answers=[g.answers for g in sess.gens],
                np_changed=not _state_eq(st0, st1), py_changed=(py0 != py1), torch_changed=torch_changed,
                trapped=list(sess.log), trapped_outside=len([e for e in sess.log if _outside(e["frames"])]))


# ------------------------------------------------------------------------------------------------ inputs


def mk_arrays(spec):
    """random small screen from a JSON spec (all randomness from the spec's seed)"""
    r = pyrandom.Random(spec["seed"])
    ns, nd, n = spec["n_samples"], spec["n_drugs"], spec["n_rows"]
    doses = [0.5, 1.0, 2.0][: spec.get("n_doses", 2)]
    ctrl = spec.get("ctrl_frac", 0.0)
    tn, td, sn, pn = [], [], [], []
    for i in range(n):
        s = i % ns if i < ns else r.randrange(ns)
        a, b = r.sample(range(nd), 2) if nd >= 2 else (0, 0)
        row = [("d%d" % a, r.choice(doses)), ("d%d" % b, r.choice(doses))]
        if r.random() < ctrl:
            row[r.randrange(2)] = ("control", 0.0)
        tn.append([row[0][0], row[1][0]])
        td.append([row[0][1], row[1][1]])
        sn.append("s%d" % s)
        if spec["plates"] == "per-sample":
            pn.append("s%d_p%d" % (s, r.randrange(spec.get("plates_per_sample", 3))))
        else:
            pn.append("p%d" % r.randrange(spec.get("n_plates", 4)))
    pn = np.array(pn, dtype=str)
    up = sorted(set(pn.tolist()))
    if spec["observed"] == "all":
        obs_pl = set(up)
    elif spec["observed"] == "none":
        obs_pl = set()
    else:
        obs_pl = {p for p in up if r.random() < 0.35}
        if len(obs_pl) == len(up) and up:
            obs_pl.discard(up[-1])
    mask = np.array([p in obs_pl for p in pn], dtype=bool)
    # distinct observation per row (so rows can be re-identified in outputs), in (0,1)
    obs = np.array([(i + 1) / (n + 2.0) for i in range(n)], dtype=float)
    return dict(treatment_names=np.array(tn, dtype=str).reshape(n, 2), treatment_doses=np.array(td, dtype=float).reshape(n, 2),
                sample_names=np.array(sn, dtype=str), plate_names=pn, observations=obs, observation_mask=mask,
                control_treatment_name="control")


def mk_screen(spec):
    from batchie.data import Screen
    return Screen(**{k: (v.copy() if isinstance(v, np.ndarray) else v) for k, v in mk_arrays(spec).items()})


def out_screen(s):
    if s is None:
        return None
    return [cv(np.asarray(x)) for x in (s.treatment_names, s.treatment_doses, s.observations, s.observation_mask, s.sample_names,
                                        s.plate_names, s.treatment_ids, s.sample_ids, s.plate_ids)]


def mk_thetas(screen, n_thetas, seed, dim=2):
    from batchie.core import ThetaHolder
    from batchie.data import ExperimentSpace
    from batchie.models.sparse_combo import SparseDrugComboMCMCSample
    sp = ExperimentSpace.from_screen(screen)
    g = ORIG_DEFAULT_RNG(seed)
    h = ThetaHolder(n_thetas=n_thetas)
    nt, nsm = sp.n_unique_treatments, sp.n_unique_samples
    for _ in range(n_thetas):
        h.add_theta(SparseDrugComboMCMCSample(
            W=g.normal(size=(nsm, dim)), W0=g.normal(size=(nsm,)), V2=g.normal(size=(nt, dim)), V1=g.normal(size=(nt, dim)),
            V0=g.normal(size=(nt,)), alpha=float(g.normal()), precision=float(1.0 + g.random())))
    return h


def mk_dist(n, seed):
    from batchie.distance_calculation import ChunkedDistanceMatrix
    g = ORIG_DEFAULT_RNG(seed)
    m = ChunkedDistanceMatrix(size=n)
    for i in range(n):
        for j in range(i):
            m.add_value(i, j, float(0.1 + g.random()))
    return m


def _tmpdir():
    os.makedirs(common.WORK, exist_ok=True)
    return tempfile.mkdtemp(dir=common.WORK)


def h5_dump(fn):
    """all datasets and attributes of an HDF5 file, canonically"""
    import h5py
    out = []
    with h5py.File(fn, "r") as f:
        def visit(name, obj):
            attrs = sorted((k, cv(np.asarray(v))) for k, v in obj.attrs.items())
            if isinstance(obj, h5py.Dataset):
                out.append([name, cv(np.asarray(obj[()])), attrs])
            else:
                out.append([name, "group", attrs])
        f.visititems(visit)
        out.append(["/", "root", sorted((k, cv(np.asarray(v))) for k, v in f.attrs.items())])
    return sorted(out, key=lambda e: e[0])


def run_cli(module, argv):
    with mock.patch.object(sys, "argv", argv):
        module.main()


# ------------------------------------------------------------------------------------------------ operations
# each builder returns thunk(session) -> canonical output; everything is rebuilt inside the thunk because
# several operations mutate their input screen in place (plate.merge).


def _scorer(name, d):
    from batchie.scoring.gaussian_dbal import GaussianDBALScorer
    from batchie.scoring.rand import RandomScorer
    from batchie.scoring.size import SizeScorer
    if name == "RandomScorer":
        return RandomScorer()
    if name == "SizeScorer":
        return SizeScorer()
    return GaussianDBALScorer(max_chunk=d.get("max_chunk", 2), max_triples=d.get("max_triples", 3))


def _quiet_tqdm_init(self, *a, __orig=None, **k):
    """tqdm progress bars of the variational model write to stderr; disable=True changes nothing else"""
    k["disable"] = True
    return _TQDM_INIT(self, *a, **k)


try:
    import tqdm as _tqdm_mod
    _TQDM_INIT = _tqdm_mod.tqdm.__init__
except Exception:   # noqa: BLE001
    _TQDM_INIT = None


def _published_digest(fn):
    """digest of a published file; PDFs without their /CreationDate (the one field matplotlib fills from the wall clock)"""
    import re
    b = open(fn, "rb").read()
    if fn.endswith(".pdf"):
        b = re.sub(rb"/CreationDate \([^)]*\)", b"", b)
    elif fn.endswith(".json"):
        return b.decode("utf8", "replace")[:400]
    return hashlib.sha1(b).hexdigest()[:16]


def _shared(d, mk):
    """the object an operation is a method of: a fresh one per run, or - description key same_object - ONE object that
    serves both runs (the property's 'repeated with identical inputs' also covers asking the same generator / smoother /
    scorer / policy object again)"""
    if not d.get("same_object"):
        return mk
    box = []

    def get():
        if not box:
            box.append(mk())
        return box[0]
    return get


def build(d):
    from batchie import retrospective as R
    k = d["kind"]
    seed = d.get("seed", 0)

    if k == "sparse_cover":
        o = _shared(d, lambda: R.SparseCoverPlateGenerator(d["reveal_single"]))
        return lambda S: out_screen(o().generate_and_unmask_initial_plate(mk_screen(d["screen"]), S.rng(seed)))
    if k == "pairwise":
        o = _shared(d, lambda: R.PairwisePlateGenerator(d["subset_size"], d["anchor_size"]))
        return lambda S: out_screen(o().generate_plates(mk_screen(d["screen"]), S.rng(seed)))
    if k == "plate_permutation":
        o = _shared(d, lambda: R.PlatePermutationPlateGenerator(d["force_include"]))
        return lambda S: out_screen(o().generate_plates(mk_screen(d["screen"]), S.rng(seed)))
    if k == "sample_segregating":
        o = _shared(d, lambda: R.SampleSegregatingPermutationPlateGenerator(d["max_plate_size"]))
        return lambda S: out_screen(o().generate_plates(mk_screen(d["screen"]), S.rng(seed)))
    if k == "smoother":
        def mk():
            n = d["name"]
            if n == "MergeMin":
                return R.MergeMinPlateSmoother(d["min_size"])
            if n == "MergeTopBottom":
                return R.MergeTopBottomPlateSmoother(d["n_iterations"])
            if n == "FixedSize":
                return R.FixedSizeSmoother(d["plate_size"])
            if n == "OptimalSize":
                return R.OptimalSizeSmoother()
            if n == "NPlatePerCellLine":
                return R.NPlatePerCellLineSmoother(d["min_n"])
            if n == "BatchieEnsemble":
                return R.BatchieEnsemblePlateSmoother(d["min_size"], d["n_iterations"], d["min_n"])
            raise ValueError(n)
        o = _shared(d, mk)
        return lambda S: out_screen(o().smooth_plates(mk_screen(d["screen"]), S.rng(seed)))
    if k == "random_holdout":
        return lambda S: [out_screen(x) for x in R.create_random_holdout(mk_screen(d["screen"]), d["fraction"], S.rng(seed))]
    if k == "balanced_holdout":
        return lambda S: [out_screen(x) for x in R.create_plate_balanced_holdout_set_among_masked_plates(mk_screen(d["screen"]), d["fraction"], S.rng(seed))]
    if k == "random_scorer":
        o = _shared(d, lambda: _scorer("RandomScorer", d))

        def f(S):
            sc = mk_screen(d["screen"])
            plates = {p.plate_id: p for p in sc.plates if not p.is_observed}
            if d.get("reverse"):
                plates = dict(reversed(list(plates.items())))
            return cv(o().score(plates, None, None, S.rng(seed), False))
        return f
    if k == "dbal_vectorized":
        def f(S):
            from batchie.scoring.gaussian_dbal import dbal_fast_gauss_scoring_vectorized
            g = ORIG_DEFAULT_RNG(d["data_seed"])
            npl, nth, ne = d["n_plates"], d["n_thetas"], d["n_exp"]
            preds = g.normal(size=(npl, nth, ne))
            var = 0.5 + g.random(size=(npl, nth, ne))
            dist = g.random(size=(nth, nth))
            dist = dist + dist.T
            return cv(dbal_fast_gauss_scoring_vectorized(preds, var, dist, S.rng(seed), max_combos=d["max_combos"]))
        return f
    if k == "dbal_scorer":
        o = _shared(d, lambda: _scorer("GaussianDBALScorer", d))

        def f(S):
            sc = mk_screen(d["screen"])
            th = mk_thetas(sc, d["n_thetas"], d["data_seed"])
            dm = mk_dist(d["n_thetas"], d["data_seed"] + 1)
            plates = {p.plate_id: p for p in sc.plates if not p.is_observed}
            return cv(o().score(plates, dm, th, S.rng(seed), False))
        return f
    if k == "policy_filter":
        def mkpol():
            from batchie.policies.k_per_sample import KPerSamplePlatePolicy
            return KPerSamplePlatePolicy(d["k"])
        o = _shared(d, mkpol)

        def f(S):
            sc = mk_screen(d["screen"])
            un = sorted([p for p in sc.plates if not p.is_observed], key=lambda p: p.plate_id)
            batch = [p for p in un if p.plate_id in d["batch"]]
            rest = [p for p in un if p.plate_id not in d["batch"]]
            return [int(p.plate_id) for p in o().filter_eligible_plates(batch, rest, S.rng(seed))]
        return f
    if k == "select_next_plate":
        def mkpol2():
            from batchie.policies.k_per_sample import KPerSamplePlatePolicy
            return KPerSamplePlatePolicy(d["k"]) if d["k"] else None
        o = _shared(d, mkpol2)

        def f(S):
            from batchie.scoring.main import ChunkedScoresHolder, select_next_plate
            sc = mk_screen(d["screen"])
            un = sorted([p.plate_id for p in sc.plates if not p.is_observed])
            g = ORIG_DEFAULT_RNG(d["data_seed"])
            h = ChunkedScoresHolder(len(un))
            for pid in un:
                h.add_score(pid, float(g.random()))
            pol = o()
            p = select_next_plate(h, sc, pol, batch_plate_ids=d["batch"], rng=None if d.get("norng") else S.rng(seed))
            return None if p is None else int(p.plate_id)
        return f
    if k == "score_chunk":
        def f(S):
            from batchie.scoring.main import score_chunk
            sc = mk_screen(d["screen"])
            th = mk_thetas(sc, d["n_thetas"], d["data_seed"])
            dm = mk_dist(d["n_thetas"], d["data_seed"] + 1)
            kw = {} if d["norng"] else dict(rng=S.rng(seed))
            h = score_chunk(_scorer(d["scorer"], d), th, sc, dm, n_chunks=d["n_chunks"], chunk_index=d["chunk_index"],
                            batch_plate_ids=d["batch"] or None, **kw)
            return [cv(h.plate_ids), cv(h.scores)]
        return f
    if k == "sample":
        def mkmodel():
            from batchie.data import ExperimentSpace
            sc = mk_screen(d["screen"])
            sp = ExperimentSpace.from_screen(sc)
            if d["model"] == "SparseDrugCombo":
                from batchie.models.sparse_combo import SparseDrugCombo
                m = SparseDrugCombo(experiment_space=sp, n_embedding_dimensions=d["dim"])
            elif d["model"] == "ComboGridFactorModel":
                # the variational model (pyro / torch), smallest settings: one epoch, min_steps = max_steps = d["steps"] optimiser steps
                from batchie.models.grid_combo import ComboGridFactorModel
                drugs = np.unique(sc.treatment_names[sc.treatment_names != sc.control_treatment_name])
                m = ComboGridFactorModel(experiment_space=sp, n_unique_samples=sp.n_unique_samples, unique_drug_names=drugs,
                                         log_conc_range=(-1.0, 1.0), n_grid=d["n_grid"], n_embedding_dimensions=d["dim"],
                                         n_sigma_embedding_dimensions=d["dim"], n_epochs=1, batch_size=50000,
                                         min_steps=d["steps"], max_steps=d["steps"])
            else:
                from batchie.models.sparse_combo_interaction import SparseDrugComboInteraction
                m = SparseDrugComboInteraction(experiment_space=sp, n_embedding_dimensions=d["dim"])
            ob = sc.subset_observed()
            if ob is not None:
                m.add_observations(ob)
            return m
        o = _shared(d, mkmodel)

        def f(S):
            import batchie.sampling
            from batchie.core import ThetaHolder
            m = o()
            # a VIModel needs n_chains / chain_index too since the repair of C17's vi-chains-share-generator (n_burnin / thin stay unread)
            kw = dict(n_chains=d.get("n_chains", 1), chain_index=d.get("chain_index", 0)) if d["model"] == "ComboGridFactorModel" else \
                dict(n_chains=d["n_chains"], chain_index=d["chain_index"], n_burnin=d["n_burnin"], thin=d["thin"])
            with mock.patch("tqdm.tqdm.__init__", _quiet_tqdm_init):
                res = batchie.sampling.sample(model=m, results=ThetaHolder(n_thetas=d["n_thetas"]), seed=seed, **kw)
            return [[[kk, cv(np.asarray(vv))] for kk, vv in sorted(res.get_theta(i).private_parameters_dict().items())
                     if not isinstance(vv, dict)] for i in range(res.n_thetas)]
        return f
    if k == "cli_prepare":
        def f(S):
            from batchie.cli import prepare_retrospective_simulation as M
            t = _tmpdir()
            try:
                mk_screen(d["screen"]).save_h5(os.path.join(t, "in.h5"))
                argv = ["prepare", "--data", os.path.join(t, "in.h5"), "--training-output", os.path.join(t, "train.h5"),
                        "--test-output", os.path.join(t, "test.h5"), "--seed", str(seed), "--holdout-fraction", str(d["fraction"])] + d["extra"]
                run_cli(M, argv)
                return [h5_dump(os.path.join(t, "train.h5")), h5_dump(os.path.join(t, "test.h5"))]
            finally:
                shutil.rmtree(t, ignore_errors=True)
        return f
    if k == "cli_calculate_scores":
        def f(S):
            from batchie.cli import calculate_scores as M
            t = _tmpdir()
            try:
                sc = mk_screen(d["screen"])
                sc.save_h5(os.path.join(t, "in.h5"))
                mk_thetas(sc, d["n_thetas"], d["data_seed"]).save_h5(os.path.join(t, "th.h5"))
                mk_dist(d["n_thetas"], d["data_seed"] + 1).save(os.path.join(t, "dm.h5"))
                argv = ["calculate_scores", "--data", os.path.join(t, "in.h5"), "--thetas", os.path.join(t, "th.h5"), "--distance-matrix",
                        os.path.join(t, "dm.h5"), "--scorer", d["scorer"], "--n-chunks", str(d["n_chunks"]), "--chunk-index",
                        str(d["chunk_index"]), "--output", os.path.join(t, "scores.h5"), "--seed", str(seed)]
                # (scorer parameters with defaults, e.g. max_triples, cannot be given on this command line: cast_dict_to_type only
                #  knows the required __init__ arguments; GaussianDBALScorer therefore runs with its default budget here)
                if d["batch"]:
                    argv += ["--batch-plate-ids"] + [str(b) for b in d["batch"]]
                run_cli(M, argv)
                return h5_dump(os.path.join(t, "scores.h5"))
            finally:
                shutil.rmtree(t, ignore_errors=True)
        return f
    if k == "cli_train_model":
        def f(S):
            from batchie.cli import train_model as M
            t = _tmpdir()
            try:
                mk_screen(d["screen"]).save_h5(os.path.join(t, "in.h5"))
                argv = ["train_model", "--model", d["model"], "--model-param", "n_embedding_dimensions=%d" % d["dim"], "--n-burnin",
                        str(d["n_burnin"]), "--n-samples", str(d["n_thetas"]), "--thin", str(d["thin"]), "--n-chains", str(d["n_chains"]),
                        "--chain-index", str(d["chain_index"]), "--data", os.path.join(t, "in.h5"), "--output", os.path.join(t, "th.h5"),
                        "--seed", str(seed)]
                run_cli(M, argv)
                return h5_dump(os.path.join(t, "th.h5"))
            finally:
                shutil.rmtree(t, ignore_errors=True)
        return f
    if k == "cli_select_next_plate":
        def f(S):
            from batchie.cli import select_next_plate as M
            from batchie.scoring.main import ChunkedScoresHolder
            t = _tmpdir()
            try:
                sc = mk_screen(d["screen"])
                sc.save_h5(os.path.join(t, "in.h5"))
                un = sorted([p.plate_id for p in sc.plates if not p.is_observed])
                g = ORIG_DEFAULT_RNG(d["data_seed"])
                h = ChunkedScoresHolder(len(un))
                for pid in un:
                    h.add_score(pid, float(g.random()))
                h.save_h5(os.path.join(t, "scores.h5"))
                argv = ["select_next_plate", "--data", os.path.join(t, "in.h5"), "--scores", os.path.join(t, "scores.h5"), "--output",
                        os.path.join(t, "out.txt"), "--seed", str(seed)]
                if d["k"]:
                    argv += ["--policy", "KPerSamplePlatePolicy", "--policy-param", "k=%d" % d["k"]]
                if d["batch"]:
                    argv += ["--batch-plate-id"] + [str(b) for b in d["batch"]]
                run_cli(M, argv)
                return open(os.path.join(t, "out.txt")).read()
            finally:
                shutil.rmtree(t, ignore_errors=True)
        return f
    if k in ("cli_evaluate_model", "cli_analyze_model_evaluation"):
        def f(S):
            from batchie.cli import analyze_model_evaluation as AM
            from batchie.cli import evaluate_model as EM
            t = _tmpdir()
            try:
                sc = mk_screen(d["screen"])
                sc.save_h5(os.path.join(t, "in.h5"))
                ths = []
                for c in range(d["n_chains"]):
                    ths.append(os.path.join(t, "th%d.h5" % c))
                    mk_thetas(sc, d["n_thetas"], d["data_seed"] + c).save_h5(ths[-1])
                ev = ["evaluate_model", "--screen", os.path.join(t, "in.h5"), "--thetas"] + ths + ["--output", os.path.join(t, "me.h5")]
                if k == "cli_evaluate_model":
                    run_cli(EM, ev + ["--seed", str(seed)])
                    return h5_dump(os.path.join(t, "me.h5"))
                run_cli(EM, ev)
                run_cli(AM, ["analyze_model_evaluation", "--model-evaluation", os.path.join(t, "me.h5"), "--screen", os.path.join(t, "in.h5"),
                             "--thetas"] + ths + ["--output-dir", os.path.join(t, "out"), "--seed", str(seed)])
                return [[fn, _published_digest(os.path.join(t, "out", fn))] for fn in sorted(os.listdir(os.path.join(t, "out")))]
            finally:
                shutil.rmtree(t, ignore_errors=True)
                import matplotlib.pyplot as plt
                plt.close("all")
        return f
    raise ValueError(k)


# ------------------------------------------------------------------------------------------------ evaluation

ASPECTS = ["repeatable", "global-state", "given-generator"]
_CACHE = {}
# the one documented unseeded fallback: the *caller* chose to pass no generator (rng=None)
DOCUMENTED_FALLBACK = {"score_chunk": "scoring/main.py:score_chunk", "select_next_plate": "scoring/main.py:select_next_plate"}


def core_of(desc):
    return {k: v for k, v in desc.items() if k != "aspect"}


def _warm():
    """import every batchie module once, outside any observation window (import-time side effects of third-party
    libraries, e.g. seaborn creating generators, are not part of any operation)"""
    global _WARM
    if not _WARM:
        from batchie import introspection
        from batchie.core import Scorer
        introspection.get_class(package_name="batchie", class_name="RandomScorer", base_class=Scorer)
        if _torch() is not None:
            # one intra-op thread: on a loaded machine torch's thread pool makes a 4-row softmax take 80 ms; a thread count is no input of any operation
            _torch().set_num_threads(1)
        _WARM = True


_WARM = False


LEAK_ASPECT = "repeatable-modulo-known-leak"


def executed(desc):
    """the two observed runs of an operation instance.  Aspect LEAK_ASPECT: both runs under the SAME global-generator states and with
    every unseeded generator construction given the same fixed seed - the known leaks (global numpy / torch draws, argument-less
    default_rng()) are thereby served identically in both runs, so any remaining difference has another cause."""
    _warm()
    neutral = desc.get("aspect") == LEAK_ASPECT
    key = json.dumps([core_of(desc), neutral], sort_keys=True)
    if key not in _CACHE:
        if len(_CACHE) > 8:
            _CACHE.clear()
        thunk = build(core_of(desc))
        g1 = 1000 + (int(hashlib.sha1(key.encode()).hexdigest()[:6], 16) % 50000)
        r1 = observe(thunk, g1, neutral)
        r2 = observe(thunk, g1 if neutral else g1 * 3 + 17, neutral)
        _CACHE[key] = (r1, r2)
    return _CACHE[key]


def op_name(d):
    k = d["kind"]
    if k == "smoother":
        return "smoother:" + d["name"]
    if k in ("sample", "cli_train_model"):
        return k + ":" + d["model"]
    if k == "cli_analyze_model_evaluation":
        return k
    if k in ("score_chunk", "cli_calculate_scores"):
        return k + ":" + d["scorer"] + (":rng=None" if d.get("norng") else "")
    if k == "select_next_plate" and d.get("norng"):
        return k + ":rng=None"
    return k


GIBBS_FILES = ("models/sparse_combo.py", "models/sparse_combo_interaction.py")
GRID_FILES = ("models/grid_combo.py", "models/grid_helper.py")
SIG_GRID = "vi-grid-model-uses-global-numpy-and-torch-generators"
SIG_REUSE = "training-on-a-reused-model-object-not-reset"


def classify_trap(d, e):
    """stable signature of one trapped call"""
    site = e["frames"][0]
    f = site.split(":")[0]
    if e["fn"] in UNSEEDED_FNS:
        if e["fn"] == "default_rng()":
            if d["kind"] == "cli_calculate_scores" and site_ff(site) == "scoring/main.py:score_chunk":
                return "calculate-scores-cli-ignores-seed"
            if site_ff(site) == "fast_mvn.py:sample_mvn_from_precision" and len(e["frames"]) > 1 and e["frames"][1].split(":")[0] in GIBBS_FILES:
                return "gibbs-sampler-mvn-unseeded-default-rng"
            return "%s:unseeded-default_rng:%s" % (op_name(d), site_ff(site))
        return "%s:unseeded-%s:%s" % (op_name(d), e["fn"], site_ff(site))
    if f in GIBBS_FILES and not e["fn"].startswith("torch."):
        return "gibbs-sampler-uses-global-np-random"
    if f in GRID_FILES:
        return SIG_GRID
    return "%s:global-%s:%s" % (op_name(d), e["fn"] if e["fn"].startswith("torch.") else "numpy.random." + e["fn"], site_ff(site))


def summarize_traps(es, n=4):
    by = {}
    for e in es:
        key = (e["fn"], e["frames"][0])
        by[key] = by.get(key, 0) + 1
    items = sorted(by.items(), key=lambda kv: (-kv[1], kv[0]))
    return "; ".join("%s at %s x%d" % (fn if fn.startswith("torch.") else "numpy.random." + fn, s, c) for (fn, s), c in items[:n]) \
        + (" ... (%d sites)" % len(items) if len(items) > n else "")


# Call sites covered by the two recorded known findings (KNOWN_FINDINGS.json).  A trapped call from any
# OTHER site gets a signature naming that site, so it is reported as a new violation.
KNOWN_GIBBS_GLOBAL_SITES = {
    "models/sparse_combo.py:" + f for f in (
        "_V0_step", "_V1_step", "_V2_step", "_W0_step", "_W_step", "_alpha_step", "_prec_V0_step", "_prec_V1_step",
        "_prec_V2_step", "_prec_W0_step", "_prec_W_step", "_prec_obs_step")
} | {
    "models/sparse_combo_interaction.py:" + f for f in (
        "_V2_step", "_W_step", "_prec_V2_step", "_prec_W0_step", "_prec_W_step", "_prec_obs_step")
}
KNOWN_GIBBS_UNSEEDED_SITES = {"fast_mvn.py:sample_mvn_from_precision"}
# the variational grid model: np.random.choice / torch.randperm in the batch iterator, pyro's sample statements of the model function
# (torch.normal, torch._standard_gamma through torch.distributions) and of the guide / Predictive called from fit / sample
KNOWN_GRID_GLOBAL_SITES = {"models/grid_helper.py:__iter__", "models/grid_helper.py:__next__", "models/grid_combo.py:model",
                           "models/grid_combo.py:fit", "models/grid_combo.py:sample"}
KNOWN_GIBBS_UNSEEDED_CALLERS = {"_W_step", "_V2_step", "_V1_step"}


def _refine(sig, traps_glob, traps_unseeded):
    """append the first offending site that the recorded known findings do not cover"""
    if sig == "gibbs-sampler-uses-global-np-random":
        new = sorted({site_ff(e["frames"][0]) for e in traps_glob} - KNOWN_GIBBS_GLOBAL_SITES)
        if new:
            return sig + ":new-site:" + new[0]
    if sig == SIG_GRID:
        new = sorted({site_ff(e["frames"][0]) for e in traps_glob} - KNOWN_GRID_GLOBAL_SITES)
        if new:
            return sig + ":new-site:" + new[0]
    if sig == "gibbs-sampler-mvn-unseeded-default-rng":
        new = sorted({site_ff(e["frames"][0]) for e in traps_unseeded} - KNOWN_GIBBS_UNSEEDED_SITES)
        callers = sorted({e["frames"][1].split(":")[-2] if len(e["frames"]) > 1 and e["frames"][1].count(":") >= 2 else "?" for e in traps_unseeded})
        if new:
            return sig + ":new-site:" + new[0]
    return sig


# ---- the hash-seed aspect: the same operation in two FRESH interpreters that differ only in PYTHONHASHSEED.
# Iteration over a set / dict of strings, id()- or hash()-based ordering are hidden state a single process cannot show.
HASH_SEEDS = ("101", "202")


def _hash_run(core):
    """synchronously, for a replay: this process holds no HDF5 file while it forks"""
    import c18_pool
    return c18_pool.run_pair(core)


_POOL = dict(proc=None, got={})


def prefetch_hash(descs):
    """start ONE launcher process (harness/c18_pool.py) for all hash-seed cases of this run, before any case runs:
    the checking process never forks while it has HDF5 files open (see c18_pool.py)"""
    import subprocess
    todo = []
    for d in descs:
        if d.get("aspect") == "hash-seed":
            core = core_of(d)
            if core not in todo:
                todo.append(core)
    if not todo:
        return
    pr = subprocess.Popen([sys.executable, "-W", "ignore", os.path.join(os.path.dirname(os.path.abspath(__file__)), "c18_pool.py")],
                          stdin=subprocess.PIPE, stdout=subprocess.PIPE, text=True)
    pr.stdin.write(json.dumps(todo))
    pr.stdin.close()
    _POOL["proc"], _POOL["want"] = pr, set(json.dumps(c, sort_keys=True) for c in todo)


def hash_outputs(core):
    key = json.dumps(core, sort_keys=True)
    pr = _POOL["proc"]
    if pr is None or key not in _POOL.get("want", ()):
        return _hash_run(core)
    while key not in _POOL["got"]:
        line = pr.stdout.readline()
        if not line:
            raise RuntimeError("C18 hash-seed launcher ended before answering " + key[:120])
        j = json.loads(line)
        _POOL["got"][j["key"]] = j["outs"]
    return _POOL["got"][key]


def _fresh_object_repeatable(desc):
    """the same instance with a fresh object per run is repeatable under the neutralised leaks (so a difference on ONE object is the object's kept state)"""
    f1, f2 = executed({k: v for k, v in desc.items() if k != "same_object"})
    return f1["out"] == f2["out"]


def judge(desc):
    """-> (pred, sig, features) for this aspect of the executed operation"""
    r1, r2 = executed(desc)
    d = core_of(desc)
    a = desc["aspect"]
    op = op_name(d)
    allowed = DOCUMENTED_FALLBACK.get(d["kind"]) if d.get("norng") else None
    traps = r1["trapped"] + r2["trapped"]
    glob = [e for e in traps if e["fn"] not in UNSEEDED_FNS]
    unseeded = [e for e in traps if e["fn"] in UNSEEDED_FNS and not (e["fn"] == "default_rng()" and site_ff(e["frames"][0]) == allowed)]
    n_req = sum(len(g.requests) for g in r1["gens"])
    feats = [d["kind"], op, a] + (["draws"] if (n_req or traps) else ["no-draws"]) + (["same-object-asked-twice"] if d.get("same_object") else [])
    if isinstance(r1["out"], list) and r1["out"][:1] == ["raised"]:
        feats.append("raises:" + r1["out"][1])
        if r1["out"] == r2["out"] and not traps:
            feats.append("trivial")
    if allowed:
        feats.append("documented-unseeded-fallback")
    pred = sig = None
    if a == "repeatable":
        # rng=None with a scorer that draws: no generator was given, the premise of the property is not met
        skip_out = bool(allowed) and d["kind"] == "score_chunk" and d["scorer"] != "SizeScorer"
        if r1["out"] != r2["out"] and not skip_out:
            pred = "%s: two runs%s with identical inputs and identically seeded generator (seed %s) give different outputs" % (
                op, " on ONE object" if d.get("same_object") else "", d.get("seed"))
            causes = [classify_trap(d, e) for e in glob + unseeded]
            if d["kind"] == "cli_calculate_scores":
                sig = "calculate-scores-cli-ignores-seed" if "calculate-scores-cli-ignores-seed" in causes else op + ":repeatable:nondeterministic-output"
                pred += "; --seed is parsed but score_chunk is called without rng (trapped: %s)" % summarize_traps(unseeded)
            elif "gibbs-sampler-uses-global-np-random" in causes:
                sig = "gibbs-sampler-uses-global-np-random"
                pred += "; the sampler draws from the global generator: %s; the generator passed to set_rng received %d requests" % (summarize_traps(glob), n_req)
            elif "gibbs-sampler-mvn-unseeded-default-rng" in causes:
                sig = "gibbs-sampler-mvn-unseeded-default-rng"
                pred += "; " + summarize_traps(unseeded)
            elif SIG_GRID in causes:
                sig = SIG_GRID
                pred += ("; the variational model draws from the global numpy and torch generators: %s; the generator passed to set_rng received %d "
                         "requests%s" % (summarize_traps(glob), n_req, "; torch.get_rng_state() changed" if r1["torch_changed"] else ""))
            else:
                sig = op + ":repeatable:nondeterministic-output" + ((":" + causes[0]) if causes else "")
                if d["kind"] == "cli_analyze_model_evaluation":
                    diff = [x[0] for x, y in zip(r1["out"], r2["out"]) if x != y] if isinstance(r1["out"], list) and isinstance(r2["out"], list) else []
                    pred += "; published files that differ: %s%s" % (diff, ("; unseeded generators: " + summarize_traps(unseeded)) if unseeded else "")
        elif r1["reqs"] != r2["reqs"]:
            pred = "%s: request sequences on the seeded generator differ between the two runs" % op
            sig = op + ":repeatable:request-trace-differs"
    elif a == "global-state":
        if glob:
            sig = classify_trap(d, glob[0])
            pred = "%s calls module-level numpy.random / torch functions (process-global generators): %s" % (op, summarize_traps(glob))
            if r1["np_changed"]:
                pred += "; np.random.get_state() changed by the operation"
            if r1["torch_changed"]:
                pred += "; torch.get_rng_state() changed by the operation"
        elif r1["np_changed"] or r2["np_changed"]:
            pred, sig = "%s: np.random.get_state() changed by the operation (no module-level call trapped)" % op, op + ":global-state:numpy-state-perturbed"
        elif r1["py_changed"] or r2["py_changed"]:
            pred, sig = "%s: python random.getstate() changed by the operation" % op, op + ":global-state:python-random-perturbed"
        elif r1["torch_changed"] or r2["torch_changed"]:
            pred, sig = "%s: torch.get_rng_state() (torch's process-global generator) changed by the operation" % op, op + ":global-state:torch-state-perturbed"
    elif a == LEAK_ASPECT:
        # both runs had the same global-generator states and the same seeds for unseeded constructions (executed): what
        # C18_replay_deterministic says must then be equal
        what = "%s: two runs%s with identical inputs, seed %s, IDENTICAL global numpy / python / torch generator states and identically seeded " \
               "replacements of every unseeded generator (the known leaks neutralised)" % (op, " on ONE object" if d.get("same_object") else "", d.get("seed"))
        if r1["out"] != r2["out"]:
            pred = what + " still give different outputs: there is a source of non-determinism besides the recorded ones"
            sig = op + ":" + LEAK_ASPECT + ":nondeterministic-output"
            if d.get("same_object") and d["kind"] == "sample" and d["model"] in ("SparseDrugCombo", "SparseDrugComboInteraction") \
                    and _fresh_object_repeatable(desc):
                sig = SIG_REUSE
                pred = what + (" give different outputs, although the same instance with a FRESH model object per run is repeatable under these conditions: "
                               "sampling.sample calls model.reset_model() first, but the object keeps state of the previous training (reset_model() does not "
                               "restore every parameter array to its constructed value)")
        elif r1["reqs"] != r2["reqs"]:
            pred = what + " make different request sequences on the seeded generator"
            sig = op + ":" + LEAK_ASPECT + ":request-trace-differs"
    elif a == "hash-seed":
        o = hash_outputs(d)
        feats.append("fresh-interpreters")
        if any(x.startswith("worker failed") for x in o):
            raise RuntimeError("C18 hash-seed worker failed: %r" % (o,))
        if o[0].split(":")[0] != o[1].split(":")[0]:
            pred = ("%s: two fresh interpreters that differ in PYTHONHASHSEED (%s / %s), process id and wall-clock second only, same inputs and identically seeded generator "
                    "(seed %s), give different outputs: %s  VERSUS  %s" % (op, HASH_SEEDS[0], HASH_SEEDS[1], d.get("seed"), o[0][41:300], o[1][41:300]))
            sig = op + ":hash-seed-dependent-output"
    elif a == "given-generator":
        if unseeded:
            sig = classify_trap(d, unseeded[0])
            pred = "%s draws from an unseeded generator instead of the given one: %s (via %s)" % (
                op, summarize_traps(unseeded), " <- ".join(unseeded[0]["frames"][1:3]))
    sig = _refine(sig, glob, unseeded)
    return pred, sig, feats, (r1, r2)


# ------------------------------------------------------------------------------------------------ trace conformance (wire)


def _req_wire(name, a, k):
    """recorded numpy call -> model request: (0) random | (1 pool k replace) choice from list | (2 n k replace) choice from range"""
    if name == "random" and not a and not k:
        return [0]
    if name == "choice":
        pool = a[0]
        size = a[1] if len(a) > 1 else k.get("size")
        rep = k.get("replace", True) if len(a) < 3 else a[2]
        if isinstance(pool, (int, np.integer)):
            return [2, int(pool), int(size), bool(rep)]
        return [1, [int(x) for x in np.asarray(pool).tolist()], int(size), bool(rep)]
    return [9, [ord(c) for c in name]]   # a request the model never makes: shows up as a trace difference


def _ans_wire(name, r):
    if name == "random":
        return [float_key(r)]
    if name != "choice":
        return []
    return [int(x) for x in np.asarray(r).ravel().tolist()]


def conformance(d, r1):
    """wire case + canonical implementation value for the mirrored operations, from the FIRST observed run"""
    k = d["kind"]
    if k not in ("random_scorer", "random_holdout", "balanced_holdout", "dbal_vectorized", "smoother", "plate_permutation",
                 "sample_segregating") or len(r1["gens"]) != 1:
        return None, None
    if k == "smoother" and d.get("name") not in ("FixedSize", "OptimalSize"):
        return None, None
    raised = isinstance(r1["out"], list) and r1["out"][:1] == ["raised"]
    if raised and k != "dbal_vectorized":
        return None, None
    g = r1["gens"][0]
    reqs = [_req_wire(n, a, kw) for n, a, kw, _ in g.raw]
    answers = [_ans_wire(n, r) for n, _, _, r in g.raw]
    sc = mk_screen(d["screen"]) if "screen" in d else None
    if k == "random_scorer":
        plates = [p.plate_id for p in sc.plates if not p.is_observed]
        if d.get("reverse"):
            plates = plates[::-1]
        out = [[int(pid), float_key(float.fromhex(v[1]))] for pid, v in r1["out"]]
        return [0, [int(p) for p in plates], answers], [out, reqs]
    n = sc.size if sc is not None else 0
    if k in ("plate_permutation", "sample_segregating"):
        # the generators' _generate_plates runs on the unobserved part of the screen (core.py wrapper); plate names cross as
        # their rank among the input screen's names; rows are re-identified in the output by their distinct observation values
        sub = sc.subset_unobserved()
        o = r1["out"] if r1["out"] is not None else []
        if sub is None or len(o) < 6 or len(o[2]) <= 4 or len(o[5]) <= 4:
            return None, None
        inner = sub.to_screen()
        name_of = dict(zip([float.fromhex(h) for h in o[2][4]], o[5][4]))      # observation value -> plate name in the output
        if k == "plate_permutation":
            ids = {nm: i for i, nm in enumerate(sorted(set(sc.plate_names.tolist())))}
            enc = lambda arr: [ids[str(x)] for x in np.asarray(arr).tolist()]
            force = d["force_include"]
            sv = ~np.isin(inner.plate_names, force) if force else np.ones(inner.size, dtype=bool)
            to_permute = inner.subset(sv).to_screen()
            reqs = [[3, enc(a[0])] if nm == "permutation" else _req_wire(nm, a, kw) for nm, a, kw, _ in g.raw]
            answers = [enc(r) if nm == "permutation" else _ans_wire(nm, r) for nm, _, _, r in g.raw]
            out = [ids[name_of[float(x)]] for x in to_permute.observations]
            return [5, enc(to_permute.plate_names), answers], [out, reqs]
        reqs = [[3, [int(x) for x in np.asarray(a[0]).tolist()]] if nm == "permutation" else _req_wire(nm, a, kw) for nm, a, kw, _ in g.raw]
        answers = [[int(x) for x in np.asarray(r).tolist()] if nm == "permutation" else _ans_wire(nm, r) for nm, _, _, r in g.raw]
        groups = [[int(i) for i in np.arange(inner.size)[inner.sample_ids == sid]] for sid in inner.unique_sample_ids]
        labels = [int(str(name_of[float(x)]).rsplit("_", 1)[1]) for x in inner.observations]
        return [6, groups, int(inner.size), int(d["max_plate_size"]), answers], [[0, labels], reqs]
    if k == "smoother":
        # FixedSizeSmoother / OptimalSizeSmoother._smooth_plates runs on the unobserved part of the screen (core.py wrapper);
        # its plates cross as 0/1 selection vectors, the output as the vector of the rows that survive (rows are re-identified
        # by their distinct observation values; the observed rows the wrapper adds back have other values)
        sub = sc.subset_unobserved()
        o = r1["out"][2] if r1["out"] is not None else []
        if sub is None or len(o) <= 4:
            return None, None
        inner = sub.to_screen()
        pl = inner.plates
        if d["name"] == "FixedSize":
            t = d["plate_size"]
        else:      # the three numpy statements of OptimalSizeSmoother that pick the size (not part of the modelled skeleton)
            ps = np.sort(np.array([p.size for p in pl]))
            t = int(ps[np.argmax(ps * (len(ps) - np.arange(len(ps))))])
        out_obs = set(float.fromhex(h) for h in o[4])
        kept = [int(float(x) in out_obs) for x in inner.observations]
        return [4, [[int(b) for b in p.selection_vector] for p in pl], int(inner.size), int(t), answers], [kept, reqs]
    if k in ("random_holdout", "balanced_holdout"):
        # rows are re-identified by their distinct observation values
        arr = mk_arrays(d["screen"])["observations"]
        ho = _held_obs(d, r1)
        if ho is None:
            return None, None
        held = sorted(int(np.flatnonzero(arr == o)[0]) for o in ho)
        fr = common.frac(d["fraction"])
        if k == "random_holdout":
            return [1, n, fr, answers], [held, reqs]
        plates = [[[int(i) for i in np.flatnonzero(p.selection_vector)], bool(p.is_observed)] for p in sc.plates]
        return [2, plates, fr, answers], [held, reqs]
    if k == "dbal_vectorized":
        # output of the modelled part = the sub-sampled combination indices (the scores computed from them are C05's)
        out = [1, 4] if (raised and r1["out"][1] == "ValueError") else [0, [int(x) for x in np.asarray(g.raw[0][3]).tolist()]]
        return [3, d["n_thetas"], d["max_combos"], answers], [out, reqs]
    return None, None


def _held_obs(d, r1):
    """observation values of the held-out screen of run 1 (second component of the output; float arrays of <= 64 rows
    are kept verbatim by cv)"""
    o = r1["out"][1][2]
    return [float.fromhex(h) for h in o[4]] if len(o) > 4 else None


def _cmp_conf(m, i):
    if isinstance(m, str):
        return "model driver failure: " + m
    if not common.is_ok(m):
        return "model refused the recorded trace (answers exhausted / malformed): %s" % common.short(m)
    out, reqs, ok = m[1]
    if reqs != [[int(x) if isinstance(x, bool) else x for x in r] for r in i[1]]:
        return "request trace differs: model %s impl %s" % (common.short(reqs), common.short(i[1]))
    if out != i[0]:
        return "output differs: model %s impl %s" % (common.short(out), common.short(i[0]))
    if ok != 1:
        return "a recorded answer violates the numpy contract of its request"
    return None


# ------------------------------------------------------------------------------------------------ API


def run(desc):
    if desc.get("kind") == "cli_args":      # the argument-handling glue: plain differential cases (harness/c18_args.py)
        return c18_args.run_case(desc)
    pred, sig, feats, (r1, r2) = judge(desc)
    d = core_of(desc)
    wire = impl = None
    if desc["aspect"] == "repeatable":
        wire, impl = conformance(d, r1)
        if wire is not None:
            feats.append("trace-conformance")
    n_req = sum(len(g.requests) for g in r1["gens"])
    op = op_name(d)
    _SEEN[op] = max(_SEEN.get(op, 0), n_req)
    res = dict(wire=wire, impl=impl if wire is not None else dict(out_digest=hashlib.sha1(json.dumps(r1["out"], sort_keys=True, default=str).encode()).hexdigest()[:12],
                                                                  requests=n_req, trapped=len(r1["trapped"])),
               pred=pred, features=feats, sig=sig)
    if wire is not None:
        res["cmp"] = _cmp_conf
    return res


def shrink(desc):
    if desc.get("kind") == "cli_args":
        return
    sc = desc.get("screen")
    if sc and sc["n_rows"] > max(4, sc["n_samples"]):
        yield dict(desc, screen=dict(sc, n_rows=max(4, sc["n_samples"], sc["n_rows"] // 2)))
    if desc["kind"] in ("sample", "cli_train_model"):
        for key, lo in (("n_burnin", 0), ("thin", 1), ("n_thetas", 1), ("dim", 1)):
            if desc.get(key, lo) > lo:
                yield dict(desc, **{key: desc[key] - 1})


EXPECTED_OPS = [
    "sparse_cover", "pairwise", "plate_permutation", "sample_segregating", "smoother:MergeMin", "smoother:MergeTopBottom",
    "smoother:FixedSize", "smoother:OptimalSize", "smoother:NPlatePerCellLine", "smoother:BatchieEnsemble", "random_holdout",
    "balanced_holdout", "random_scorer", "dbal_vectorized", "dbal_scorer", "policy_filter", "select_next_plate",
    "score_chunk:RandomScorer", "score_chunk:RandomScorer:rng=None", "score_chunk:GaussianDBALScorer", "sample:SparseDrugCombo",
    "cli_prepare", "cli_calculate_scores:RandomScorer", "cli_train_model:SparseDrugCombo", "cli_select_next_plate",
    "sample:ComboGridFactorModel", "cli_evaluate_model", "cli_analyze_model_evaluation"]
# operations that must have been seen making draw requests on a seeded generator at least once (otherwise the check is hollow)
MUST_DRAW = ["sparse_cover", "pairwise", "plate_permutation", "sample_segregating", "smoother:FixedSize", "smoother:OptimalSize",
             "smoother:BatchieEnsemble", "random_holdout", "balanced_holdout", "random_scorer", "dbal_vectorized", "dbal_scorer",
             "score_chunk:RandomScorer", "score_chunk:GaussianDBALScorer", "cli_prepare"]
_SEEN = {}


def extra(tier):
    out = []
    # 1. the traps are live: a module-level draw and an argument-less default_rng() made by the harness itself are logged,
    #    and the global-state comparison sees the draw
    def probe(S):
        np.random.normal(0.0, 1.0)
        np.random.default_rng()
        pyrandom.random()
        np.random.RandomState()
        np.random.PCG64()
        np.random.SeedSequence()
        np.random.Generator(np.random.PCG64(5)).random()      # seeded: not logged
        if _torch() is not None:
            _torch().rand(2)
            _torch().randperm(3, generator=_torch().Generator().manual_seed(1))      # own generator: not logged
        return 0
    _warm()
    n_exp = 5 + (1 if _torch() is not None else 0)
    r = observe(probe, 4242)
    ok = (r["trapped_outside"] == n_exp and len(r["trapped"]) == n_exp and r["np_changed"] and r["py_changed"]
          and r["torch_changed"] == (_torch() is not None)
          and isinstance(ORIG_CLASSES["RandomState"](3), np.random.RandomState))
    out.append(("trap-selftest", ok, "outside=%d np_changed=%s py_changed=%s torch_changed=%s fns=%s" % (
        r["trapped_outside"], r["np_changed"], r["py_changed"], r["torch_changed"], sorted(e["fn"] for e in r["trapped"]))))
    r = observe(lambda S: 0, 4243)
    out.append(("trap-selftest-quiet", (not r["np_changed"]) and (not r["py_changed"]) and (not r["torch_changed"]) and r["trapped_outside"] == 0,
                "idle operation leaves the states alone"))
    # 1b. neutralised mode: unseeded constructions are served identically in two observations, differently within one
    def probe2(S):
        return [float(np.random.default_rng().random()), float(np.random.default_rng().random()), float(np.random.RandomState().random_sample()),
                float(np.random.normal())]
    a, b, c = observe(probe2, 77, True), observe(probe2, 77, True), observe(probe2, 77)
    out.append(("neutralised-leak-selftest", a["out"] == b["out"] and a["out"][0] != a["out"][1] and c["out"][:3] != a["out"][:3] and c["out"][3] == a["out"][3],
                "same=%s" % (a["out"] == b["out"])))
    # 2. the recording generator does not change the stream
    a = recording(ORIG_DEFAULT_RNG(99), "t")
    b = ORIG_DEFAULT_RNG(99)
    same = (a.random() == b.random() and a.choice(50, 7, replace=False).tolist() == b.choice(50, 7, replace=False).tolist()
            and a.permutation(9).tolist() == b.permutation(9).tolist() and float(a.normal()) == float(b.normal()))
    out.append(("recording-generator-same-stream", bool(same) and len(a.requests) == 4, "requests=%d" % len(a.requests)))
    # 3. every operation named by the property was exercised, and those that draw were seen drawing
    missing = [o for o in EXPECTED_OPS if o not in _SEEN]
    hollow = [o for o in MUST_DRAW if not _SEEN.get(o)]
    out.append(("operations-covered", not missing and not hollow, "missing=%s never-drew=%s" % (missing, hollow)))
    # 4. the hand-written field tables of Model/Cli.v say what the configurations of the translated main() / get_args() say
    out += c18_args.extra_parser_tables()
    return out


def signature(desc, res):
    if desc.get("kind") == "cli_args":
        return "cli_args:%s" % desc.get("op")
    return res.get("sig") or ("%s:%s" % (op_name(core_of(desc)), desc.get("aspect")))


def _screen_spec(rng, plates="mixed", observed="some", big=False):
    ns = rng.randint(1, 4)
    return dict(seed=rng.randrange(10 ** 6), n_samples=ns, n_drugs=rng.randint(2, 5), n_doses=rng.randint(1, 3),
                n_rows=rng.randint(max(ns, 4), 30 if big else 18), plates=plates, plates_per_sample=rng.randint(1, 4),
                n_plates=rng.randint(2, 6), observed=observed, ctrl_frac=rng.choice([0.0, 0.0, 0.2, 0.4]))


HASH_KINDS = {"pairwise": 1, "sparse_cover": 15, "plate_permutation": 15, "sample_segregating": 15, "smoother": 24, "random_holdout": 18,
              "balanced_holdout": 24, "policy_filter": 15, "select_next_plate": 9, "cli_prepare": 6, "dbal_scorer": 12, "cli_select_next_plate": 9,
              "random_scorer": 18, "dbal_vectorized": 21, "score_chunk": 12, "sample": 9, "cli_calculate_scores": 12, "cli_train_model": 6,
              "cli_evaluate_model": 9, "cli_analyze_model_evaluation": 9}
# kinds with a recorded known leak (KNOWN_FINDINGS.json): they also get the observation LEAK_ASPECT, and their fresh-interpreter runs
# are made with the leak neutralised (otherwise the unseeded generators alone make the two interpreters differ)
# (cli_analyze_model_evaluation was one until its --seed was repaired: it is now judged as it runs, fresh interpreters included)
LEAK_KINDS = ("sample", "cli_train_model")


# operations that are methods of a constructible object: also asked twice on ONE object (aspect repeatable, key same_object);
# sample: sampling.sample twice on ONE model object (it calls reset_model() first), judged under the neutralised leaks
SAME_OBJECT_KINDS = ("sparse_cover", "pairwise", "plate_permutation", "sample_segregating", "smoother", "random_scorer", "dbal_scorer",
                     "policy_filter", "select_next_plate", "sample")


def gen(rng, tier):
    cases = list(_gen(rng, tier))
    prefetch_hash(cases)
    yield from cases
    yield from c18_args.gen_cases(rng, tier)


def _cli_seed(rng):
    """--seed values: 0 (the parsers' default, and falsy) as often as anything else"""
    return rng.choice([0, 0, 1, rng.randrange(2 ** 31), rng.randrange(2 ** 31)])


def _gen(rng, tier):
    reps = 3 if tier == "quick" else 24
    count = {}

    def emit(core):
        for a in ASPECTS:
            yield dict(core, aspect=a)
        # one core in HASH_KINDS[kind] of the deterministic (non-Gibbs) kinds is also run in two fresh interpreters
        k = core["kind"]
        if k in LEAK_KINDS:
            yield dict(core, aspect=LEAK_ASPECT)
        if k in SAME_OBJECT_KINDS and not core.get("norng"):
            yield dict(core, same_object=True, aspect=LEAK_ASPECT if k in LEAK_KINDS else "repeatable")
        if k in HASH_KINDS and not core.get("norng"):
            count[k] = count.get(k, 0) + 1
            if count[k] % HASH_KINDS[k] == 1 % HASH_KINDS[k] or (k == "cli_prepare" and "PairwisePlateGenerator" in core["extra"]):
                yield dict(core, aspect="hash-seed")

    for rep in range(reps):
        for i in range(5):
            yield from emit(dict(kind="sparse_cover", seed=rng.randrange(2 ** 31), screen=_screen_spec(rng, observed="all"), reveal_single=bool(i % 2)))
        for i in range(6):
            # single-agent (control-padded) rows in several samples are what the assignment loop of Pairwise iterates over
            yield from emit(dict(kind="pairwise", seed=rng.randrange(2 ** 31),
                                 screen=dict(_screen_spec(rng, observed=rng.choice(["none", "some"]), big=True), **({"ctrl_frac": 0.4} if i % 3 else {})),
                                 subset_size=rng.choice([1, 1, 2]), anchor_size=rng.choice([0, 0, 1, 2])))
        for i in range(5):
            yield from emit(dict(kind="plate_permutation", seed=rng.randrange(2 ** 31), screen=_screen_spec(rng, observed=rng.choice(["none", "some"])),
                                 force_include=rng.choice([None, None, ["p0"], ["p1", "p2"]])))
        for i in range(5):
            yield from emit(dict(kind="sample_segregating", seed=rng.randrange(2 ** 31), screen=_screen_spec(rng, observed=rng.choice(["none", "some"]), big=True),
                                 max_plate_size=rng.choice([1, 2, 3, 4])))
        for name in ["MergeMin", "MergeTopBottom", "FixedSize", "OptimalSize", "NPlatePerCellLine", "BatchieEnsemble"]:
            for i in range(4):
                yield from emit(dict(kind="smoother", name=name, seed=rng.randrange(2 ** 31),
                                     screen=_screen_spec(rng, plates="per-sample" if (name not in ("FixedSize", "OptimalSize") or i % 2) else "mixed",
                                                         observed=rng.choice(["none", "some"]), big=True),
                                     min_size=rng.choice([2, 4, 6]), n_iterations=rng.choice([1, 2]), plate_size=rng.choice([1, 2, 3]), min_n=rng.choice([1, 2])))
        for i in range(6):
            yield from emit(dict(kind="random_holdout", seed=rng.randrange(2 ** 31), screen=_screen_spec(rng), fraction=rng.choice([0.0, 0.125, 0.25, 0.5, 0.75, 1.0])))
        for i in range(8):
            yield from emit(dict(kind="balanced_holdout", seed=rng.randrange(2 ** 31), screen=_screen_spec(rng, observed=rng.choice(["none", "some"])),
                                 fraction=rng.choice([0.0, 0.125, 0.25, 0.5, 0.75, 1.0])))
        for i in range(6):
            yield from emit(dict(kind="random_scorer", seed=rng.randrange(2 ** 31), screen=_screen_spec(rng, observed=rng.choice(["none", "some"])), reverse=bool(i % 2)))
        for i in range(6):
            nth = rng.randint(4, 8)
            yield from emit(dict(kind="dbal_vectorized", seed=rng.randrange(2 ** 31), data_seed=rng.randrange(10 ** 6), n_plates=rng.randint(1, 4), n_thetas=nth,
                                 n_exp=rng.randint(1, 4), max_combos=rng.randint(1, math.comb(nth, 3) - 1)))
        yield from emit(dict(kind="dbal_vectorized", seed=rng.randrange(2 ** 31), data_seed=rng.randrange(10 ** 6), n_plates=1, n_thetas=rng.randint(0, 2),
                             n_exp=1, max_combos=rng.randint(1, 5)))
        for i in range(4):
            yield from emit(dict(kind="dbal_scorer", seed=rng.randrange(2 ** 31), data_seed=rng.randrange(10 ** 6), screen=_screen_spec(rng, observed="some"),
                                 n_thetas=rng.randint(4, 6), max_triples=rng.randint(1, 3), max_chunk=rng.randint(1, 3)))
        for i in range(5):
            yield from emit(dict(kind="policy_filter", seed=rng.randrange(2 ** 31), screen=_screen_spec(rng, plates="per-sample", observed=rng.choice(["none", "some"])),
                                 k=rng.randint(1, 3), batch=sorted(rng.sample(range(6), rng.randint(0, 2)))))
        for i in range(4):
            yield from emit(dict(kind="select_next_plate", seed=rng.randrange(2 ** 31), data_seed=rng.randrange(10 ** 6), norng=(i == 3),
                                 screen=_screen_spec(rng, plates="per-sample", observed="some"), k=rng.choice([0, 1, 2]), batch=sorted(rng.sample(range(6), rng.randint(0, 2)))))
        for scorer in ["RandomScorer", "GaussianDBALScorer", "SizeScorer"]:
            for norng in [False, True]:
                for i in range(2):
                    nch = rng.randint(1, 3)
                    yield from emit(dict(kind="score_chunk", scorer=scorer, norng=norng, seed=rng.randrange(2 ** 31), data_seed=rng.randrange(10 ** 6),
                                         screen=_screen_spec(rng, observed="some"), n_thetas=rng.randint(4, 6), max_triples=rng.randint(1, 3),
                                         max_chunk=rng.randint(1, 3), n_chunks=nch, chunk_index=rng.randrange(nch), batch=rng.choice([[], [], [0], [1]])))
        for model in ["SparseDrugCombo", "SparseDrugCombo", "SparseDrugComboInteraction"]:
            nch = rng.randint(1, 3)
            yield from emit(dict(kind="sample", model=model, seed=rng.randrange(2 ** 31), screen=_screen_spec(rng, observed=rng.choice(["all", "some"])),
                                 dim=rng.randint(1, 3), n_thetas=rng.randint(1, 3), n_chains=nch, chain_index=rng.randrange(nch),
                                 n_burnin=rng.randint(0, 2), thin=rng.randint(1, 2)))
        # the variational grid model (pyro / torch): smallest settings; no control rows (the model refuses dose 0 with an IndexError,
        # kept as one case in the thorough tier: refusing alike is repeatable too); n_thetas >= 2 (its sample() squeezes a length-1 axis away)
        for i in range(1 if tier == "quick" else 3):
            sp = _screen_spec(rng, observed=rng.choice(["all", "some"]))
            sp["ctrl_frac"] = 0.2 if (tier != "quick" and i == 2) else 0.0
            yield from emit(dict(kind="sample", model="ComboGridFactorModel", seed=rng.randrange(2 ** 31), screen=sp, dim=rng.randint(2, 3),
                                 n_grid=rng.randint(4, 6), steps=rng.randint(1, 3), n_thetas=rng.randint(2, 3)))
        preps = [[], ["--plate-generator", "PlatePermutationPlateGenerator"],
                 ["--plate-generator", "PlatePermutationPlateGenerator", "--initial-plate-generator", "SparseCoverPlateGenerator",
                  "--initial-plate-generator-param", "reveal_single_treatment_experiments=False"],
                 ["--plate-generator", "PlatePermutationPlateGenerator", "--initial-plate-generator", "SparseCoverPlateGenerator",
                  "--initial-plate-generator-param", "reveal_single_treatment_experiments=True", "--plate-smoother", "FixedSizeSmoother",
                  "--plate-smoother-param", "plate_size=2"],
                 ["--plate-generator", "SampleSegregatingPermutationPlateGenerator", "--plate-generator-param", "max_plate_size=3",
                  "--initial-plate-generator", "SparseCoverPlateGenerator", "--initial-plate-generator-param",
                  "reveal_single_treatment_experiments=False", "--plate-smoother", "OptimalSizeSmoother"],
                 ["--plate-generator", "PairwisePlateGenerator", "--plate-generator-param", "subset_size=1", "--plate-generator-param", "anchor_size=0"]]
        for extra in preps:
            yield from emit(dict(kind="cli_prepare", seed=_cli_seed(rng), screen=_screen_spec(rng, observed="all", big=True),
                                 fraction=rng.choice([0.125, 0.25, 0.5]), extra=extra))
        for scorer in ["RandomScorer", "RandomScorer", "GaussianDBALScorer", "SizeScorer"]:
            nch = rng.randint(1, 2)
            yield from emit(dict(kind="cli_calculate_scores", scorer=scorer, seed=_cli_seed(rng), data_seed=rng.randrange(10 ** 6),
                                 screen=_screen_spec(rng, observed="some"), n_thetas=rng.randint(4, 6), max_triples=rng.randint(1, 3), max_chunk=rng.randint(1, 3),
                                 n_chunks=nch, chunk_index=rng.randrange(nch), batch=rng.choice([[], [], [0]])))
        for model in ["SparseDrugCombo", "SparseDrugComboInteraction"]:
            nch = rng.randint(1, 2)
            yield from emit(dict(kind="cli_train_model", model=model, seed=_cli_seed(rng), screen=_screen_spec(rng, observed=rng.choice(["all", "some"])),
                                 dim=rng.randint(1, 2), n_thetas=rng.randint(1, 2), n_chains=nch, chain_index=rng.randrange(nch),
                                 n_burnin=rng.randint(0, 2), thin=rng.randint(1, 2)))
        for i in range(3):
            yield from emit(dict(kind="cli_select_next_plate", seed=_cli_seed(rng), data_seed=rng.randrange(10 ** 6),
                                 screen=_screen_spec(rng, plates="per-sample", observed="some"), k=rng.choice([0, 1, 2]),
                                 batch=sorted(rng.sample(range(5), rng.randint(0, 2)))))
        for i in range(1 if tier == "quick" else 3):
            yield from emit(dict(kind="cli_evaluate_model", seed=_cli_seed(rng), data_seed=rng.randrange(10 ** 6), screen=_screen_spec(rng, observed="all"),
                                 n_thetas=rng.randint(1, 3), n_chains=rng.randint(1, 2)))
        # every second repetition in the quick tier (four executions of about two seconds each: five PDFs, regplot's 1000 bootstrap rounds)
        if tier != "quick" or rep % 2 == 0:
            sp = _screen_spec(rng, observed="all")
            sp["n_samples"] = min(sp["n_samples"], 2 if tier == "quick" else 4)
            sp["n_rows"] = max(sp["n_rows"], 8)
            yield from emit(dict(kind="cli_analyze_model_evaluation", seed=_cli_seed(rng), data_seed=rng.randrange(10 ** 6), screen=sp,
                                 n_thetas=rng.randint(2, 3), n_chains=rng.randint(1, 2)))
