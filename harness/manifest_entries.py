"""Per-property MANIFEST entries (source of MANIFEST.json; run harness/mkmanifest.py)."""
ENTRIES = {
    "C07": dict(
        text="Theorems (all n, all n_chunks >= 1, all chunk orders with repeats, any value type): chunks partition the lower "
             "triangle, sizes differ by <= 1, any covering family assembles to the symmetric zero-diagonal matrix of the metric, "
             "an incomplete family is refused; MSE metric symmetric / non-negative / zero on identical inputs for every expit. "
             "Tied to the code by running the extracted model and the real chunking / ChunkedDistanceMatrix save-load-concat-to_dense / "
             "MSEDistance on the same generated cases.",
        note="Trusted: Coq kernel, extraction (ExtrOcamlBasic, ExtrOcamlZBigInt), OCaml driver, Python harness; h5py and numpy storage are modelled (identity round trip; zero-initialised slots abstracted); the CLI wrapper is not exercised."),
}
PENDING = "check not built yet in this round; planned in DESIGN.md section 5 (no property is inapplicable in principle)"
NOT_APPLICABLE = {p: PENDING for p in ["C%02d" % i for i in range(1, 21)] if p not in ENTRIES}
