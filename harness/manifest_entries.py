"""Per-property MANIFEST entries (source of MANIFEST.json; run harness/mkmanifest.py)."""
ENTRIES = {
    "C01": dict(
        text="Theorems about the constructor model mk_screen, for all row lists, arities, control names and doses: stored ids are the "
             "mapping's ids of exactly each experiment's (name, dose) / name; sentinel iff control name or dose <= 0; non-control "
             "treatment ids, sample ids and plate ids are exactly the dense range below the experiment-space size, equal iff equal key; a "
             "supplied mapping is kept verbatim or the constructor fails (not dense / not covering); a screen's own mappings are accepted "
             "back unchanged on any rows they cover (superset stability); every id is strictly below the experiment-space size. The "
             "sentinel constant is re-read from /repo on every run. Tied to the code by running the extracted constructor model and the real "
             "Screen(...) / ExperimentSpace on generated screens (arity 1-3, ''/non-ASCII/control names in any column, negative/-0.0/0/subnormal/"
             "repeated doses, own-superset and corrupted supplied mappings), comparing ids, all three mappings in stored order and sizes exactly.",
        note="Trusted: Coq kernel, extraction, OCaml driver, harness. pandas drop_duplicates/sort_values/merge and numpy unique are modelled by "
             "their documented effect; doses cross as order keys identifying -0.0 and 0.0; supplied mappings are assumed key-unique (batchie's own are); "
             "NaN doses and names containing NUL are outside the generator."),
    "C07": dict(
        text="Theorems (all n, all n_chunks >= 1, all chunk orders with repeats, any value type): chunks partition the lower "
             "triangle, sizes differ by <= 1, any covering family assembles to the symmetric zero-diagonal matrix of the metric, "
             "an incomplete family is refused; MSE metric symmetric / non-negative / zero on identical inputs for every expit. "
             "Tied to the code by running the extracted model and the real chunking / ChunkedDistanceMatrix save-load-concat-to_dense / "
             "MSEDistance on the same generated cases.",
        note="Trusted: Coq kernel, extraction (ExtrOcamlBasic, ExtrOcamlZBigInt), OCaml driver, Python harness; h5py and numpy storage are modelled (identity round trip; zero-initialised slots abstracted); the CLI wrapper is not exercised."),
    "C15": dict(
        text="Theorems (all n >= 0, ALL k, all indices): the generator's product loop computes C(n,k); for 0 <= i < C(n,k) it returns "
             "without error a strictly descending k-tuple in [0,n) whose combinatorial-number-system rank is i; rank is strictly monotone "
             "and injective, unrank after rank is the identity, the full enumeration is sorted, duplicate-free and exactly the k-subsets, "
             "every subset is hit by exactly one index; the scorer's triples are distinct, in range and complete when max_combos >= C(n,3), "
             "for every rng.choice answer obeying numpy's contract. Tied to the code by exhaustive comparison for n <= 14 (k <= 4, plus "
             "k <= 7 small n, n <= 40 for k = 3), sampled ends/block boundaries/successors up to n = 5000 (20000 thorough), and the real "
             "dbal_fast_gauss_scoring_vectorized with recording/adversarial rng.",
        note="Trusted: Coq kernel, extraction, OCaml driver, harness; Python int semantics = Z (// and % floor); rng.choice(replace=False) "
             "contract and scipy comb(exact) are assumed and checked on every recorded call; n < 0 is outside the quantifier (Python may not "
             "terminate, model uses fuel); score arithmetic after triple formation is C05's."),
}
PENDING = "check not built yet in this round; planned in DESIGN.md section 5 (no property is inapplicable in principle)"
NOT_APPLICABLE = {p: PENDING for p in ["C%02d" % i for i in range(1, 21)] if p not in ENTRIES}
