"""Per-property MANIFEST entries (source of MANIFEST.json; run harness/mkmanifest.py)."""
ENTRIES = {
    "C01": dict(
        text="Theorems about the constructor model mk_screen, for all row lists, arities, control names and doses: stored ids are the "
             "mapping's ids of exactly each experiment's (name, dose) / name; sentinel iff control name or dose <= 0; non-control "
             "treatment ids, sample ids and plate ids are exactly the dense range below the experiment-space size, equal iff equal key; a "
             "supplied mapping is kept verbatim or the constructor fails (not dense / not covering); a screen's own mappings are accepted "
             "back unchanged on any rows they cover (superset stability); every id is strictly below the experiment-space size. The "
             "sentinel constant is re-read from /repo on every run. Tied to the code by running the extracted constructor model and the real "
             "Screen(...) / ExperimentSpace on generated screens (arity 1-3, ''/non-ASCII/control names in any column, negative/-0.0/0/subnormal/"
             "repeated doses, own-superset and corrupted supplied mappings), comparing ids, all three mappings in stored order and sizes exactly.",
        note="Trusted: Coq kernel, extraction, OCaml driver, harness. pandas drop_duplicates/sort_values/merge and numpy unique are modelled by "
             "their documented effect; doses cross as order keys identifying -0.0 and 0.0; supplied mappings are assumed key-unique (batchie's own are); "
             "NaN doses and names containing NUL are outside the generator."),
    "C07": dict(
        text="Theorems (all n, all n_chunks >= 1, all chunk orders with repeats, any value type): chunks partition the lower "
             "triangle, sizes differ by <= 1, any covering family assembles to the symmetric zero-diagonal matrix of the metric, "
             "an incomplete family is refused; MSE metric symmetric / non-negative / zero on identical inputs for every expit. "
             "Tied to the code by running the extracted model and the real chunking / ChunkedDistanceMatrix save-load-concat-to_dense / "
             "MSEDistance on the same generated cases.",
        note="Trusted: Coq kernel, extraction (ExtrOcamlBasic, ExtrOcamlZBigInt), OCaml driver, Python harness; h5py and numpy storage are modelled (identity round trip; zero-initialised slots abstracted); the CLI wrapper is not exercised."),
    "C15": dict(
        text="Theorems (all n >= 0, ALL k, all indices): the generator's product loop computes C(n,k); for 0 <= i < C(n,k) it returns "
             "without error a strictly descending k-tuple in [0,n) whose combinatorial-number-system rank is i; rank is strictly monotone "
             "and injective, unrank after rank is the identity, the full enumeration is sorted, duplicate-free and exactly the k-subsets, "
             "every subset is hit by exactly one index; the scorer's triples are distinct, in range and complete when max_combos >= C(n,3), "
             "for every rng.choice answer obeying numpy's contract. Tied to the code by exhaustive comparison for n <= 14 (k <= 4, plus "
             "k <= 7 small n, n <= 40 for k = 3), sampled ends/block boundaries/successors up to n = 5000 (20000 thorough), and the real "
             "dbal_fast_gauss_scoring_vectorized with recording/adversarial rng.",
        note="Trusted: Coq kernel, extraction, OCaml driver, harness; Python int semantics = Z (// and % floor); rng.choice(replace=False) "
             "contract and scipy comb(exact) are assumed and checked on every recorded call; n < 0 is outside the quantifier (Python may not "
             "terminate, model uses fuel); score arithmetic after triple formation is C05's."),
    "C16": dict(
        text="Theorems (all k>=1, any plates, every selection history from the empty batch in which any allowed plate may be chosen, lists up "
             "to permutation): allowed is a sub-list of remaining; a sample at 1..k-1 plates makes exactly its remaining plates allowed and at "
             "least one exists; a new sample needs >= k remaining plates; each prefix has counts <= k and at most one incomplete sample; a batch "
             "of m*k plates has 0 or k per sample; the policy runs dry only at such a boundary; multi-sample plates refused; select_next_plate's "
             "arguments and result form a step of that history. Tied to the code by comparing eligible id lists at every state of random "
             "histories run through the real KPerSamplePlatePolicy and the real select_next_plate on real Screens.",
        note="Trusted: Coq kernel, extraction, OCaml driver, harness. Assumes plates do not become observed inside a batch. Screen id encoding "
             "and ScoresHolder storage modelled by their effect."),
    "C17": dict(
        text="Theorems (all seed>=0, b>=0, t>=1, n>=0, 0<=chain_index<n_chains): the call trace is reset, set_rng(key (seed,[chain_index])), b "
             "steps, then n x (t steps, record); exactly b+n*t steps; records exactly after steps b+t..b+n*t; holder ends complete; the key is "
             "a function of (seed, chain_index), injective in the index and independent of b, t, n; VI models asked once for n. Tied to the code "
             "by comparing the full event trace of the real sample() on a counting stub, plus key and first draws of the handed Generator.",
        note="Partial: non-overlap of PCG64 streams for distinct spawn keys is numpy's guarantee (first draws checked only). Negative "
             "chain_index aliases chain n_chains-1 (observation outside the quantifier). Trusted: Coq kernel, extraction, driver, harness."),
    "C10": dict(
        text="Theorems (all n>=1, any sample values, any file iteration order of the decimal group keys): load(save h)=h for every non-empty "
             "holder within its declared size (number, order, values), fixed point, numeric key sort restores order; concat is chain-major with "
             "summed declared size; evaluate_model's chain ids label each column with the chain its sample came from on complete chains and "
             "partial chains are refused; add beyond declared / get out of range / save empty / concat of nothing are Err. Tied to the code by "
             "running the extracted model and the real ThetaHolder save_h5/load_h5/concat/add/get and evaluate_model.main() on the same cases, "
             "compared bit-for-bit.",
        note="Trusted: Coq kernel, extraction, OCaml driver, Python harness; HDF5/h5py storage and from_dicts are modelled as identity on "
             "(private, shared) and checked bitwise per case; shared parameters are taken from sample 0 (holders mixing different single-effect "
             "tables are characterised by C10_load_save_general, not counted as violations unless VERIF_C10_STRICT_SHARED=1: the shipped model "
             "hands the same table to every sample); type guards of combine/concat not modelled."),
    "C09": dict(
        text="Theorems (all parameter values, both shipped MCMC sample types, every expit/exp/ln oracle): the vectorised predict / "
             "predict_single_drug / interaction-sample code is the map of a one-experiment formula, so prediction on any mask subset or index "
             "list of rows equals the selected entries of the whole-screen prediction; swapping the treatment columns changes nothing; a pair "
             "with control predicts exactly as the single agent and an all-control row predicts alpha + W0[s] whatever the last embedding row "
             "(the one index -1 gathers) holds; viability is in [0.01,0.99] and is clip(expit(mean)) for the sparse type; variance is "
             "1/precision per experiment, positive when precision is; predict_*_all returns one row per sample in holder order and "
             "predict_*_avg their exact mean. Tied to the code by running the extracted model and the real predict_* functions on screens built "
             "through batchie.data.Screen (arity 1/2, control by name or dose in either/both columns, subsets, plates, reorderings) within 1e-9, "
             "plus the property predicates and before/after deep-copy purity checks on the implementation.",
        note="Trusted: Coq kernel, extraction, OCaml driver with libm oracles, Python harness. Floats abstracted to reals (tolerance 1e-9). "
             "Purity is checked at run time only. The interaction type's viability is exp(mean + ln(clipped single effects)), not the logistic; "
             "modelled as coded, stated as C09_inter_viability_not_logistic_refuted (the property text's 'logistic' clause is the sparse type's). "
             "Index validity is a hypothesis: the sentinel -1 is itself invalid on an embedding with 0 rows. Treatment and sample ids are taken "
             "from the real Screen (C01's subject). Every run repeats three mutation self-tests (missing zeroing, zeroing the wrong rows, zeroing "
             "the parameter instead of a copy)."),
}
PENDING = "check not built yet in this round; planned in DESIGN.md section 5 (no property is inapplicable in principle)"
NOT_APPLICABLE = {p: PENDING for p in ["C%02d" % i for i in range(1, 21)] if p not in ENTRIES}
