"""Per-property MANIFEST entries (source of MANIFEST.json; run harness/mkmanifest.py)."""
ENTRIES = {
    "C01": dict(
        text="Theorems about the constructor model mk_screen, for all row lists, arities, control names and doses: stored ids are the "
             "mapping's ids of exactly each experiment's (name, dose) / name; sentinel iff control name or dose <= 0; non-control "
             "treatment ids, sample ids and plate ids are exactly the dense range below the experiment-space size, equal iff equal key; a "
             "supplied mapping is kept verbatim or the constructor fails (not dense / not covering); a screen's own mappings are accepted "
             "back unchanged on any rows they cover (superset stability); every id is strictly below the experiment-space size. The "
             "sentinel constant is re-read from /repo on every run. Tied to the code by running the extracted constructor model and the real "
             "Screen(...) / ExperimentSpace on generated screens (arity 1-3, ''/non-ASCII/control names in any column, negative/-0.0/0/subnormal/"
             "repeated doses, own-superset and corrupted supplied mappings), comparing ids, all three mappings in stored order and sizes exactly. In addition numpy_array_is_0_indexed_integers, both encoders (the pandas pipeline statement by statement, each pandas call a declared primitive on a list-of-rows DataFrame), the id-encoding statements of Screen.__init__ and ExperimentSpace.n_unique_* are re-translated from /repo's source on every run and C01_model_is_source_* prove the model equal to the translations.",
        note="Trusted: Coq kernel, extraction, OCaml driver, harness. pandas drop_duplicates/sort_values/merge and numpy unique are modelled by "
             "their documented effect; doses cross as order keys identifying -0.0 and 0.0; supplied mappings are assumed key-unique (batchie's own are); "
             "NaN doses and names containing NUL are outside the generator."),
    "C07": dict(
        text="Theorems (all n, all n_chunks >= 1, all chunk orders with repeats, any value type): chunks partition the lower "
             "triangle, sizes differ by <= 1, any covering family assembles to the symmetric zero-diagonal matrix of the metric, "
             "an incomplete family is refused; MSE metric symmetric / non-negative / zero on identical inputs for every expit. "
             "Tied to the code by running the extracted model and the real chunking / ChunkedDistanceMatrix save-load-concat-to_dense / "
             "MSEDistance on the same generated cases. The generator lower_triangular_indices is re-translated from /repo's source on every run and proved to yield exactly lower_tri. ChunkedDistanceMatrix (__init__, add_value, combine, concat, is_complete, to_dense, save, load), get_lower_triangular_indices_chunk, calculate_pairwise_distance_matrix_on_predictions and MSEDistance.distance are re-translated whole and proved equal to the model through an explicit storage representation; the composed translations equal the model's pipeline.",
        note="Trusted: Coq kernel, extraction (ExtrOcamlBasic, ExtrOcamlZBigInt), OCaml driver, Python harness; h5py and numpy storage are modelled (identity round trip; zero-initialised slots abstracted); the CLI wrapper is not exercised."),
    "C15": dict(
        text="Theorems (all n >= 0, ALL k, all indices): the generator's product loop computes C(n,k); for 0 <= i < C(n,k) it returns "
             "without error a strictly descending k-tuple in [0,n) whose combinatorial-number-system rank is i; rank is strictly monotone "
             "and injective, unrank after rank is the identity, the full enumeration is sorted, duplicate-free and exactly the k-subsets, "
             "every subset is hit by exactly one index; the scorer's triples are distinct, in range and complete when max_combos >= C(n,3), "
             "for every rng.choice answer obeying numpy's contract. Tied to the code by exhaustive comparison for n <= 14 (k <= 4, plus "
             "k <= 7 small n, n <= 40 for k = 3), sampled ends/block boundaries/successors up to n = 5000 (20000 thorough), and the real "
             "dbal_fast_gauss_scoring_vectorized with recording/adversarial rng. In addition generate_combination_at_sorted_index is re-translated as ONE generator function (while loop on explicit fuel, checked // and %) and proved equal to the model's unrank with no fuel hypothesis on the property's domain.",
        note="Trusted: Coq kernel, extraction, OCaml driver, harness; Python int semantics = Z (// and % floor); rng.choice(replace=False) "
             "contract and scipy comb(exact) are assumed and checked on every recorded call; n < 0 is outside the quantifier (Python may not "
             "terminate, model uses fuel); score arithmetic after triple formation is C05's."),
    "C16": dict(
        text="Theorems (all k>=1, any plates, every selection history from the empty batch in which any allowed plate may be chosen, lists up "
             "to permutation): allowed is a sub-list of remaining; a sample at 1..k-1 plates makes exactly its remaining plates allowed and at "
             "least one exists; a new sample needs >= k remaining plates; each prefix has counts <= k and at most one incomplete sample; a batch "
             "of m*k plates has 0 or k per sample; the policy runs dry only at such a boundary; multi-sample plates refused; select_next_plate's "
             "arguments and result form a step of that history. Tied to the code by comparing eligible id lists at every state of random "
             "histories run through the real KPerSamplePlatePolicy and the real select_next_plate on real Screens. In addition the WHOLE method filter_eligible_plates is re-translated from /repo's source into Gallina on every run (harness/py2gal.py) and C16_model_is_source proves the model equal to the translation for all inputs.",
        note="Trusted: Coq kernel, extraction, OCaml driver, harness. Assumes plates do not become observed inside a batch. Screen id encoding "
             "and ScoresHolder storage modelled by their effect."),
    "C17": dict(
        text="Theorems (all seed>=0, b>=0, t>=1, n>=0, 0<=chain_index<n_chains): the call trace is reset, set_rng(key (seed,[chain_index])), b "
             "steps, then n x (t steps, record); exactly b+n*t steps; records exactly after steps b+t..b+n*t; holder ends complete; the key is "
             "a function of (seed, chain_index), injective in the index and independent of b, t, n; VI models asked once for n and handed the same key (seed,[chain_index]) as an MCMC model (repaired in /repo, fix: 67fc5db: "
             "they used to get default_rng(seed) for every chain; the old variant survives only in C17_vi_streams_distinct_refuted, the witness is corpus/C17). Tied to the code "
             "by comparing the full event trace of the real sample() on a counting stub, plus key and first draws of the handed Generator. In addition the WHOLE function batchie.sampling.sample is re-translated from /repo's source into Gallina on every run (harness/py2gal.py) and C17_model_is_source proves the model equal to the translation for all arguments.",
        note="Partial: non-overlap of PCG64 streams for distinct spawn keys is numpy's guarantee (first draws checked only). Negative "
             "chain_index aliases chain n_chains-1 (observation outside the quantifier). Trusted: Coq kernel, extraction, driver, harness."),
    "C10": dict(
        text="Theorems (all n>=1, any sample values, any file iteration order of the decimal group keys): load(save h)=h for every non-empty "
             "holder within its declared size (number, order, values), fixed point, numeric key sort restores order; concat is chain-major with "
             "summed declared size; evaluate_model's chain ids label each column with the chain its sample came from on complete chains and "
             "partial chains are refused; add beyond declared / get out of range / save empty / concat of nothing are Err. Tied to the code by "
             "running the extracted model and the real ThetaHolder save_h5/load_h5/concat/add/get and evaluate_model.main() on the same cases, "
             "compared bit-for-bit. In addition the ThetaHolder methods __init__, n_thetas, get_theta, add_theta, is_complete, combine, concat, load_h5 and save_h5 are re-translated from /repo's source into Gallina on every run and C10_model_is_source_* prove the model equal to the translations (h5py calls are declared primitives). evaluate_model.main is re-translated too (chain ids from the per-file declared sizes in argument order). The sample classes' private_parameters_dict / shared_parameters_dict / from_dicts and Theta.equals are re-translated too; C10_source_samples_persist: translated save, the file, translated load and translated from_dicts give the samples back.",
        note="Trusted: Coq kernel, extraction, OCaml driver, Python harness; HDF5/h5py storage and from_dicts are modelled as identity on "
             "(private, shared) and checked bitwise per case; shared parameters are taken from sample 0 (holders mixing different single-effect "
             "tables are characterised by C10_load_save_general, not counted as violations unless VERIF_C10_STRICT_SHARED=1: the shipped model "
             "hands the same table to every sample); type guards of combine/concat not modelled."),
    "C09": dict(
        text="Theorems (all parameter values, both shipped MCMC sample types, every expit/exp/ln oracle): the vectorised predict / "
             "predict_single_drug / interaction-sample code is the map of a one-experiment formula, so prediction on any mask subset or index "
             "list of rows equals the selected entries of the whole-screen prediction; swapping the treatment columns changes nothing; a pair "
             "with control predicts exactly as the single agent and an all-control row predicts alpha + W0[s] whatever the last embedding row "
             "(the one index -1 gathers) holds; viability is in [0.01,0.99] and is clip(expit(mean)) for the sparse type; variance is "
             "1/precision per experiment, positive when precision is; predict_*_all returns one row per sample in holder order and "
             "predict_*_avg their exact mean. Tied to the code by running the extracted model and the real predict_* functions on screens built "
             "through batchie.data.Screen (arity 1/2, control by name or dose in either/both columns, subsets, plates, reorderings) within 1e-9, "
             "plus the property predicates and before/after deep-copy purity checks on the implementation. In addition copy_array_with_control_treatments_set_to_zero, predict, predict_single_drug, the six predict_* methods of both sample types, ScreenBase.size / treatment_arity and the five predict_*_all / predict_*_avg helpers are re-translated from /repo's source on every run and C09_model_is_source_* prove the model equal to the translations (numpy indexing / elementwise operators / scipy calls are declared primitives typed by array shape).",
        note="Trusted: Coq kernel, extraction, OCaml driver with libm oracles, Python harness. Floats abstracted to reals (tolerance 1e-9). "
             "Purity is checked at run time only. The interaction type's viability is exp(mean + ln(clipped single effects)), not the logistic; "
             "modelled as coded, stated as C09_inter_viability_not_logistic_refuted (the property text's 'logistic' clause is the sparse type's). "
             "Index validity is a hypothesis: the sentinel -1 is itself invalid on an embedding with 0 rows. Treatment and sample ids are taken "
             "from the real Screen (C01's subject). Every run repeats three mutation self-tests (missing zeroing, zeroing the wrong rows, zeroing "
             "the parameter instead of a copy)."),
    "C02": dict(
        text="Theorems: for EVERY screen returned by the constructor model (any flags, built or supplied mappings incl. strict supersets in any "
             "order, 0 rows included) load(save s) = Ok s on the whole record (names, dose keys, observation bits, mask, control name, all ids, "
             "both mappings in stored order); ids/mappings never change; save after load after save = save; any number of cycles; same for "
             "ExperimentSpace; exact characterisation of load(save s) as the constructor call load_h5 makes. Tied to the code by differential "
             "correspondence and a field-by-field bit-level predicate through real h5py files (1-3 cycles, non-ASCII/empty names, NaN payloads, "
             "raw dose bits, dtypes), with the two formerly failing 0-row witnesses as corpus cases. In addition Screen.save_h5 / load_h5, ExperimentSpace.from_screen / save_h5 / load_h5 and the string codec helpers are re-translated from /repo's source into Gallina on every run and C02_model_is_source_* prove the model equal to the translations (h5py calls are declared primitives).",
        note="Trusted: Coq kernel, extraction, driver, harness. h5py is modelled as the identity on arrays and the string codec as the identity "
             "on arrays of any shape (exercised by every case). Doses are order keys in the model (raw bits checked on the implementation). "
             "The 0-row defect found here was repaired in /repo (fix: 81a412f); model and theorems describe the repaired code."),
    "C04": dict(
        text="Theorems (all row lists, every logit / float32 cast): training data of SparseDrugCombo and SparseDrugComboInteraction and the "
             "projection handed to distance / scoring / selection are equal for screens differing only in masked values (also over the shared "
             "Screen constructor model); SparseDrugCombo trains on exactly the observed rows once, in order, with logit(clip(float32 y, .01, .99)) "
             "(bounds re-read from /repo on every run); add_observations refuses masked rows; both models refuse negative / NaN; the interaction "
             "model trains on exactly the observed rows without a control id and builds its single-effect table from observed rows only. The "
             "pre-repair logic is kept as model switches and refuted with three vm_compute witnesses. Tied to the code by relational cases "
             "through the real Screen, both models, seeded sampler, all distance / score chunks, select_next_plate and train_model.main, two runs "
             "compared bit for bit and with the extracted model. In addition BayesianModel.add_observations, SparseDrugCombo._add_observations, the legacy _update (with the invariant that its index dictionaries are the positions of each id after any number of calls), SparseDrugComboInteraction._add_observations and create_single_treatment_effect_map are re-translated from /repo's source on every run and C04_model_is_source_* prove the model equal to the translations; the translation determines the interaction model's repair switches. train_model.main is re-translated too: the model is trained on subset_observed() of the loaded screen (C04_model_is_source_cli_train_model).",
        note="Trusted: Coq kernel, extraction, driver, harness; the float32 cast is data; downstream numerics are compared implementation-side "
             "only with a `.observations` read tripwire; fast_mvn's unseeded generator is replaced by a seeded one (C18's subject). The three "
             "interaction-model defects found here were repaired in /repo (fix: 49949ee); the harness probes which switch setting the code implements. "
             "Round 2: the downstream clause is proved of the composed stage models and of the translated score_chunk / select_next_plate (C06, C16) / "
             "distance pipeline (C07) / mcmc_step / the four main()s (C04_source_*_noninterference, C04_loop_noninterference); all four CLI steps run "
             "relationally through files with both MCMC models and KPerSample; ComboGridFactorModel._add_observations is linked and checked. Known "
             "finding (latent: no shipped model reads it): subset_observed().single_treatment_effects is sliced from a table the parent screen computes "
             "from ALL rows, masked wells included (signature handed-view-single_treatment_effects)."),
    "C05": dict(
        text="Theorems (every ln/exp oracle, all n_thetas, all plate lists incl. size-0/1 plates and a single plate, all means/variances/"
             "matrices/distance_factor): the vectorised kernel on 0/NaN-padded arrays (and on ANY representation of the plates) equals the direct "
             "unpadded one-plate double loop per plate; the scorer (any max_chunk, array_split sub-groups, one draw per group) pairs every key "
             "with the direct estimator of its own plate; scores are invariant under triple order, experiment permutation, and consistent "
             "relabelling of samples with a symmetric matrix when all triples are enumerated; homoscedastic = heteroscedastic; score = -inf iff "
             "all enumerated triples have zero distance; checks pass on well-formed input. Tied to the code by running the extracted model "
             "against the three dbal_fast_* entry points and GaussianDBALScorer.score (real Screen plates, real predict_*_all, "
             "ChunkedDistanceMatrix) on the same recorded rng.choice draws; pred compares the implementation with an independent Python loop and "
             "checks the invariances directly. In addition GaussianDBALScorer.score, the heteroscedastic / homoscedastic entry points, the padding function and the shape-check and index-to-triple statement runs of the vectorized kernel are re-translated from /repo's source on every run and C05_model_is_source_* prove the model equal to the translations; the kernel's tensor expressions stay with the correspondence.",
        note="Trusted: Coq kernel, extraction, OCaml driver with libm oracles, harness; numpy broadcasting/fancy indexing rendered pointwise; "
             "scipy 1.17.1 logsumexp algorithm modelled; unranking is Model/Unrank.v (C15); tolerance 1e-9*max(1,|score|), -inf exact; "
             "distance_factor>0, variances>0 in generated cases; four in-memory mutants re-run as self-tests on every check. "
             "The defect found here in round 2 (the dense array took the dtype of the FIRST plate, so a float32 first plate lowered the other "
             "plates' scores to single precision) was repaired in /repo (fix: np.result_type over all arrays and the pad value); the dtype of the "
             "allocation is modelled (pad_dtype), proved to hold every plate's dtype in any order (C05_pad_dtype_*), the pre-repair choice refuted, "
             "and kinds dtype / pad-dtype judge it on the implementation (witness: corpus/C05)."),
    "C06": dict(
        text="Theorems (all screens as row lists, all observation patterns incl. partly observed plates, all batches with at least one known id "
             "or empty, all n_chunks >= 1 incl. more chunks than plates, any scorer function, any score keys incl. -inf and ties, any combine "
             "order containing every chunk index incl. repeats, any policy returning only candidates, or none): the plate ids handed to the "
             "scorer over all chunk indices are exactly the unobserved plates not in the batch, each once, ascending; with a batch each candidate "
             "is scored on the first-occurrence-unique (by sample, treatments; screen storage order) union of its own and the batch plates' rows; "
             "after save/load/concat the selected plate is a candidate, allowed, of minimal score among allowed plates, ties resolved as numpy "
             "argmin; None iff nothing is allowed. Tied to the code by running the extracted model and the real Screen / score_chunk / "
             "ChunkedScoresHolder save_h5-load_h5-concat / select_next_plate / both CLI main()s on the same generated cases. In addition select_next_plate, score_chunk and the ChunkedScoresHolder methods add_score / combine / concat / plate_id_with_minimum_score are re-translated from /repo's source into Gallina on every run (harness/py2gal.py) and C06_model_is_source_* prove the models equal to the translations for all inputs. select_next_plate.main and calculate_scores.main are re-translated too (C06_model_is_source_cli_*): the plate id, or -1 exactly when nothing is selectable, is what is written. ChunkedScoresHolder.__init__ / get_score / save_h5 / load_h5 are re-translated as well; the holder round trip holds of the translated source; the plate primitives of the configurations are proved consistent with the translated Plate / Screen helpers.",
        note="Trusted: Coq kernel, extraction, OCaml driver, Python harness. numpy/h5py storage is modelled (identity round trip; "
             "zero-initialised slots modelled explicitly). The scorer is a function returning one score per handed plate (DBAL scorer is C05); "
             "KPerSamplePlatePolicy is replayed as data (C16). A non-empty batch with no id in the screen makes the code raise (stated as a "
             "theorem). An under-filling scorer leaves a phantom (plate 0, score 0.0) slot (Example, outside the quantifier). NaN scores excluded."),
    "C14": dict(
        text="Theorems (all screens, all boolean selections, all duplicate patterns, all finite op trees): view attributes are the parent's "
             "values at the selected rows in order; subset composes selections, combine and concat are union, invert is complement; observed and "
             "unobserved views split the screen by its mask (None iff empty), plates partition the rows; to_screen keeps the rows and never "
             "fails on constructor-built parents; the unique filter keeps exactly the first row per (sample id, treatment ids) key; views of "
             "different parents are refused; by induction on the op tree, every evaluated composition selects exactly the index-set reference "
             "semantics. Tied to the code by running the extracted model and the real ScreenSubset / Plate / Screen API on the same random trees; single_treatment_effects is checked as one more per-row attribute of every view. In addition ScreenSubset.__init__ / subset / combine / concat / invert / to_screen, its attribute properties, and Screen.subset / subset_observed / subset_unobserved / get_plate / plates are re-translated from /repo's source into Gallina on every run and C14_model_is_source_* prove the model equal to the translations. Plate.plate_id / plate_name / __lt__ / merge, Screen.combine, the ScreenBase one-line properties and the unique filter are re-translated as well (C14_model_is_source_plate_merge, _screen_combine, _screen_properties, _view_properties, _select_unique, _filter_unique).",
        note="Trusted: Coq kernel, extraction, driver, harness. numpy boolean indexing, np.where, fancy assignment and np.unique(return_index) "
             "first-occurrence behaviour are modelled by their documented effect and exercised on every case. Parent identity is a tag. Mutation "
             "and aliasing are checked only at run time by pred. to_screen may renumber ids; rows are what is promised. single_treatment_effects, "
             "Plate.merge, plate_id, plate_name are not modelled."),
    "C18": dict(
        category="other",
        text="Level other. Coq (closed): in the resumption-tree model of a randomised step the output and the sequence of draw requests are a "
             "function of the program and the consumed answers only; execution against any generator state machine is replay of its answers; a "
             "step drawing only through its own generator neither reads nor changes an unrelated global generator state, also across two runs with "
             "arbitrary global activity in between; refuted for a step served from the global state. Tied to the code by trace conformance of "
             "RandomScorer, both hold-out splits and DBAL sub-sampling (recorded requests and output = extracted model replayed on the recorded "
             "answers, answers checked against the numpy contract). Defects are detected by the runtime part: every randomised operation and the "
             "four --seed CLIs are run twice with identically seeded generators under differently seeded global generators; outputs, request "
             "traces and global generator states are compared, and every numpy.random.<function> / argument-less default_rng() is trapped with its "
             "batchie call site. For eight functions (RandomScorer.score, the two hold-outs, FixedSize / OptimalSize smoothers, PlatePermutation / SampleSegregating generators, the DBAL sub-sampling run) the tie is a theorem: the source is re-translated on every run into a program of the model's own resumption type, where a request can only come from a call on the function's own generator argument (anything else is refused), and proved equal to the hand-written program. get_prng_from_seed_argument and calculate_scores.main are re-translated too: score_chunk receives the generator derived from --seed (C18_model_is_source_cli_*).",
        note="Absence of hidden state in the implementation is checked at run time on generated inputs, not proved (a pure model cannot exhibit "
             "hidden state). Trusted: Coq kernel, extraction, driver, mock patching + stack attribution, RecordingGenerator (self-tested same "
             "stream). Randomness bypassing numpy.random / python random is visible only through differing outputs. Known findings on the current "
             "tree (KNOWN_FINDINGS.json): the legacy Gibbs samplers draw from np.random.* and an unseeded default_rng() (call sites enumerated; "
             "any other site is reported). The calculate_scores --seed defect was repaired (fix: 9b38441), and so was analyze_model_evaluation's unread --seed (seaborn's bootstrap of two regression bands; main() is translated and proved to hand --seed to both plots, C18_source_cli_analyze_*; the pre-repair wrapper is refuted). The argparse option tables of the nine "
             "CLI wrappers are re-read from the source on every run (harness/argparse_reader.py, fail-closed) and C18_source_parser_* prove, per command, "
             "that every attribute the translated get_args / main reads is declared exactly once with the assumed kind, that --seed is an int option with a "
             "non-None default in the four randomised commands, that chunk / chain coordinates are ints and every --*-param goes through KVAppendAction; "
             "the real parsers are run on generated command lines and compared with the tables.",
        technique="Coq proof that a resumption-tree model of randomised steps is explicit in its answer stream; the randomised functions re-translated "
                  "from /repo's source into that resumption type on every run and proved equal to the model programs (C18_model_is_source*) + trace "
                  "conformance of the real operations to the extracted model + runtime trapping of global/unseeded generators"),
    "C20": dict(
        text="Theorems (all shapes, exact rationals): ModelEvaluation mse / mse_variance (across experiments, ddof 0) / inter_chain (distinct "
             "chain ids, unequal lengths) / mean_predictions / save-load (every constructible evaluation), calculate_mse, the single-effect dict "
             "and array (mean of that sample's single-agent observations, 1 for control, any column, arity >= 2), Bliss synergy (product - "
             "observation, skip or strict refuse), itertools.combinations = every position subset once, space ids = the screen's mapping ids, "
             "correlation matrix symmetric / unit diagonal where defined / index-wise definition over the full space: each transcribed numpy "
             "expression equals its loop definition; the literal 'unit diagonal' clause is refuted for a single sample (NaN), as coded. Tied to the "
             "code by 700+ generated cases per run through the real functions, the real Screen and real h5 files. In addition calculate_synergy, create_single_treatment_effect_map / _array, generate_full_combinatoric_space, the ModelEvaluation constructor, properties and mse / mse_variance / inter_chain_mse_variance / mean_predictions, predict_viability_avg and calculate_mse are re-translated from /repo's source on every run and C20_model_is_source_* prove the model equal to the translations (numpy reductions are declared primitives). ModelEvaluation.save_h5 / load_h5 and correlation_matrix are re-translated as well; the evaluation round trip (incl. zero-experiment and square evaluations) holds of the translated source.",
        note="Trusted: Coq kernel, extraction, OCaml driver, harness; floats modelled as rationals (tolerance 1e-9), sqrt as oracle (unit diagonal "
             "under sqrt(S_i)^2 = S_i pointwise), h5py/string codec identity, pandas merge = keyed lookup, thetas stubbed as row-wise functions; "
             "entries that are 0/0 over the reals are not compared; correlation_matrix centres on the across-sample mean, so one sample gives NaN "
             "(documented by a refuted theorem, not counted as a violation: the property's 'unit diagonal' presupposes a defined correlation). The "
             "0-experiment reload defect found here was repaired in /repo (fix: 6d95451)."),
    "C03": dict(
        text="Coq model of reveal_plates / mask_screen / unmask_screen / save+load / hold-out split as the constructor calls the code makes, "
             "parameterised by whether each call site passes the mappings. Proved: with mappings passed (the code as repaired), ids, mappings and "
             "experiment-space sizes are frozen over every history on either half of any split; same name gives same id across stages. Refuted by "
             "vm_compute for the variant without mappings (the pre-repair code). The extracted model is compared after every operation with the "
             "real code on simulations prepared by the real hold-out (recorded rng), incl. h5py save/load and the reveal_plate CLI; the variant "
             "the tree implements is detected from behaviour; the three former witnesses are corpus cases. The prepare_retrospective_simulation CLI main() is run in-process with random generator / smoother / initial-plate options and the training / test screens it writes must agree on every id, and train_model.main() run on the latest stage with observed rows must hand the model exactly the ids of the screen it loaded (implementation-only predicates). C03_source_variant_unique: the translation of reveal_plates / mask_screen / unmask_screen (C12 link) determines which call sites pass the mappings on. prepare_retrospective_simulation.main and reveal_plate.main are re-translated too (C03_model_is_source_cli_*): the order filter / initial plate or mask / generator / random reveal / smoother / hold-out last comes from the source.",
        note="Trusted: Coq kernel, extraction, OCaml driver, harness. HDF5 storage is modelled as the identity. The hold-out selection is recorded "
             "from the real rng. The renumbering defect found here (reveal/mask/unmask dropped the mappings) was repaired in /repo (fix: e414171). "
             "Round 2: the prediction clause is a theorem (C03_predict_stable*: two screens frozen to one parent predict alike through C09's model and the "
             "translated predict_*), the hold-out split is linked at the mapping level (C03_model_is_source_holdout), and real thetas from train_model.main "
             "are predicted over six stages and through evaluate_model.main before / after reveal_plate.main."),
    "C08": dict(
        text="Theorems (all datasets, all states, all draw results, any embedding size): for each Gaussian block (W0, V0, W, V2, V1) the "
             "arguments of the draw are exactly the precision and linear term of the quadratic form energy(block:=x) - energy(block:=0) of an "
             "independently written -2 log joint, i.e. the draw is the full conditional (V blocks under 'no row has the same treatment in both "
             "columns'); blocks without data draw the prior; alpha is the observation mean; the prec / tau0 / gamma-process draws have "
             "(shape-1, rate) equal to the ln-coefficient and linear coefficient of the log joint; every precision is clipped into "
             "[1/sqrt(1+n), 1e6] after its step; the fitted-value cache equals the recomputation after every block of any sequence of sweeps; the "
             "sweep order equals the call order read from the source on every run, duplicate-free and complete; get_model_state reproduces Mu and "
             "prec; the triangular solves give Q m = b and L^T(x-m) = z. Refuted and shown on the real code: a self-combination row leaves the "
             "cache stale. Tied to the code by running the extracted model per step function from the implementation's own pre-block state on 2-4 "
             "samples, 2-5 treatments, D <= 3, 1-3 steps, with recorded draw stubs (one case in ten with a reset_model() between two sweeps), plus a numpy log-joint predicate. The horseshoe auxiliary blocks (phiaux, phi, etaaux, eta of _prec_V0/V2/V1_step) are proved to be the full conditionals of the complete joint (half-Cauchy scales in their gamma-mixture form, with the code's +1e-3 rate jitter as an explicit tilt). In addition mcmc_step and every block method of LegacySparseDrugComboImpl (get, _alpha_step, the precision blocks, _W0/_V0/_W/_V2/_V1_step with their try/except, _reconstruct_Mu, _update, encode_obs) are re-translated from /repo's source on every run into programs whose draw nodes are the np.random / sample_mvn_from_precision calls, and C08_model_is_source_* prove them equal, block by block, to the model's programs (same draw arguments, equal continuations for every drawn value). fast_mvn.sample_mvn_from_precision, the constructor, reset_model and the SparseDrugCombo wrappers are re-translated too; C08_model_is_source_sweep: from the translated constructor and any translated updates and sweeps, the translated mcmc_step over the translated blocks equals the model's sweep for every well-shaped answer stream, with no shape hypothesis left.",
        note="Trusted: Coq kernel, extraction, OCaml driver (libm sqrt oracle), Python harness; numpy normal/gamma/cholesky assumed to do what "
             "their arguments name; float rounding abstracted (tolerance 1e-4*scale); default model options only; horseshoe phi/eta steps compared "
             "and predicate-checked but not proved; KNOWN FINDING self-combination-row-stale-cache (KNOWN_FINDINGS.json); with zero observations "
             "the prec draw is unjittered and unclipped (recorded, outside 'all observed datasets'); six textual mutants of the step functions are "
             "re-run as self-tests on every check."),
    "C12": dict(
        text="Proved for all screens, histories and id lists: plate-uniform mask is invariant and never the cause of a refusal; reveal = old mask "
             "OR (plate id in ids) with conditions, plates and value bits unchanged; unobserved-plate counter drops by exactly the number of "
             "distinct newly revealed plates; constructor mask rules; set_observed exactness; refusal of all-zero, empty, unknown-id and NaN "
             "selections; definedness when guards pass. Compared after every operation with the real code, including h5py save/load and the "
             "reveal_plate and extract_screen_metadata CLIs. In addition reveal_plates, mask_screen, unmask_screen, Screen.set_observed and the observation-mask statements of Screen.__init__ are re-translated from /repo's source into Gallina on every run and C12_model_is_source_* prove the model equal to the translations. reveal_plate.main and extract_screen_metadata.main are re-translated too (C12_model_is_source_cli_*).",
        note="Trusted: Coq kernel, extraction, driver, harness. Observation values cross as float64 bit patterns. reveal_plates takes one screen and "
             "uses that screen's own plate ids. set_observed is outside the atomicity clause (it performs no plate check). Independent of sample "
             "and treatment ids. Defect found in round 2 and repaired (fix: 98b8779): the all-zero guard of reveal_plates looked at the UNION of the selected rows only, "
             "so an all-zero plate named together with a plate holding a non-zero value was revealed (reveal-zero-guard-is-joint); the code now tests every "
             "selected plate by itself, C12_reveal_refuses_zero_per_plate / C12_reveal_zero_guard_meaning / C12_reveal_ok_per_plate state the clause per plate "
             "at full strength, C12_reveal_refuses_zero_per_plate_refuted is the witness about the pre-repair variant, the harness judges it "
             "([reveal-refuses]) and the old witness is corpus/C12/zero-plate-beside-nonzero.json."),
    "C19": dict(
        text="Coq model of nextflow/scripts/batchie.py (examine incl. its quirks, run_next_*, pipeline publications in adversarial order, crashes "
             "after any filesystem action or publication, operator deleting the named directory); resume correctness proved for EVERY crash "
             "schedule (any length), batch size, plate count and both modes by an invariant (completed steps are a lexicographic prefix of the "
             "crash-free run with the same launches and selections; at most one incomplete directory at the next index; no completed step deleted "
             "or relaunched; no index skipped; inputs from the predecessor), under 'marker published last' and the repaired examine (or batch size "
             "1); both hypotheses shown necessary by vm_compute witnesses. The real script is driven in-process against a fake nextflow over all "
             "single and (thorough) exhaustive/sampled pairs of crash points, launch log and final tree compared with the model and with the "
             "crash-free run. The invocation level (what run_next_* returns, the while loop of main(), the operator handing over a new screen per completed prospective batch) is modelled: an invocation never crosses a batch boundary, every launched step reads the operator screen of its iteration, invocations stop exactly at the batch boundary / when no plate remains; main() is driven per invocation with a distinct --screen per operator screen. examine_output_dir_to_determine_current_iteration, run_next_retrospective_step / run_next_prospective_step and the five directory helpers are re-translated from the script's source on every run and C19_model_is_source_* prove the model's examine (with the repair) / plan_of / call_returns equal to the translations. main() (the while loop on fuel, discharged on every reachable tree), the four run_* command builders and dir_sort_key are re-translated as well, and so are get_args (option table + a model of parse_known_args, composed with main), validate_initial_output_dir_and_get_result_files_as_dict and the path helpers: every function of the script is re-translated on every run.",
        note="No nextflow engine exists in the sandbox: workflows are represented by harness/fake_nextflow (publishes the files the script globs "
             "for, in a commanded order, crashing on command); nextflow's own resume cache and asynchronous publishDir are outside the model. The "
             "empty-iteration-directory defect found here was repaired in /repo (fix: 77b0dc7; witness in corpus/C19). KNOWN FINDING "
             "prospective-marker-before-selection (KNOWN_FINDINGS.json): not repaired because a repair changes what counts as a completed step "
             "and cannot be validated without nextflow. Trusted: Coq kernel, extraction, driver, harness, the fake."),
    "C11": dict(
        text="Theorems (all screens, every shipped generator/smoother, all parameter values, every oracle answer): generators conserve the "
             "unobserved experiments up to plate label, smoothers return a sub-multiset, the observed part passes through unchanged; the hold-out "
             "split is a partition including plate labels and masks, with exactly ceil(fraction*size) rows of each unobserved plate and none of "
             "the others under numpy's choice contract. Tied to the code by running the extracted model and the real classes on the same cases "
             "with every rng / heappop / argsort answer recorded and replayed; full row lists compared exactly. In addition the core.py wrappers generate_plates / smooth_plates, MergeMin, MergeTopBottom and the plate-balanced hold-out are re-translated from /repo's source into Gallina on every run and C11_model_is_source_* prove the models equal to the translations (MergeMin's `while True` for sufficient fuel). Screen.combine, to_screen, subset_observed / unobserved and is_observed, used as primitives by the wrapper links, are proved consistent with their own translations.",
        note="Trusted: Coq kernel, extraction, OCaml driver, Python harness including the recording Generator wrapper; numpy permutation/choice, "
             "heapq and argsort enter as oracle answers whose contract is checked on every run; Screen constructor reduced to the plate-uniform "
             "check; ids modelled as ranks of names; ceil(size*fraction) exact for dyadic fractions, Python's value otherwise."),
    "C13": dict(
        text="One theorem per clause: single-sample and <= max plates (SampleSegregating), single-sample plates (Pairwise), sparse cover covers "
             "every sample and treatment with one unobserved plate, combination filter exact, common size (Fixed/Optimal) and optimality of the "
             "optimal size, per-sample minimum (NPlatePerCellLine), merges within one sample, MergeMin stop rule, TopBottom halving, for all "
             "screens, parameters and oracle answers for which the operation returns. The pre-repair logic of the two classes found defective is "
             "kept behind a model switch and refuted by witnesses. SparseCover is proved to terminate for every contract-obeying answer stream within #samples + #distinct treatment ids draws; SampleSegregating plates of one sample differ in size by at most one; Pairwise single-agent rows join a combination plate of their own sample. Tied to the code by the same recorded-randomness correspondence as C11 plus "
             "each shape clause evaluated on the real output. Every shipped generator, smoother, the random hold-out, the SparseCover initial plate (while loop on fuel discharged by the termination theorem) and the combination filter are re-translated from /repo's source on every run and C13_model_is_source_* / C11_model_is_source_* prove the models equal to the translations. The helpers the generator / smoother links used as primitives (Plate.merge, size and order, plates, unique_sample_ids) are proved consistent with their own translations.",
        note="Same trusted base as C11; heapq is modelled by its contract, not its array layout; no bound on SparseCover iterations is stated (the "
             "model recurses on the recorded answers). The two defects found here (SampleSegregating lumped small samples into plate ''; "
             "NPlatePerCellLine used stale sample ids) were repaired in /repo (fix: e3ac1df, fix: e05a1b9); the harness detects which variant "
             "the tree implements; both witnesses are corpus cases."),
}
PENDING = "check not built yet in this round; planned in DESIGN.md section 5 (no property is inapplicable in principle)"
NOT_APPLICABLE = {p: PENDING for p in ["C%02d" % i for i in range(1, 21)] if p not in ENTRIES}
