"""Fail-closed translator of a structured fragment of Python into typed, shallow Gallina.

It is the second, larger tie between /repo's source and the Coq development (the first being the
integer-kernel translator py2coq.py): a WHOLE function of the source is re-translated on every run
into coq/theories/Generated/Src*.v, and a Props theorem proves the hand-written model equal to the
translation for all inputs.  A change of the source therefore changes the generated definition and the
linking theorem is re-checked against what the code says now.

Fragment (anything else raises Unsupported, the build then fails and every dependent check reports a
broken obligation):
  statements   x = e | (a, b) = e | x += e | d[k] += e | l.append(e) | s.add(e) | if/elif/else |
               for x in <list> | for k, v in d.items() | for i, x in enumerate(<list>) | for i in range(n) |
               continue | raise ... | return e | pass | docstrings | statements matching cfg["ignore"] |
               statements matching cfg["effects"] (an update of a declared state variable)
  expressions  names, int/bool/None constants, + - * // %, comparisons (also chained tuple ==), and/or/not,
               `is None`, `is not None`, `in` / `not in` on dict / set / list, list literal, list +,
               [f(x) for x in L if P], attribute expressions declared as state variables (cfg["attr_vars"]),
               truthiness of lists (`not xs`), and every expression matching cfg["prims"]
Semantics of the target (coq/theories/Lib/PyRt.v): a statement list denotes a term of type `result T`
(Err tag = an exception); a for loop is res_fold over the iterated list whose state is the tuple of the
variables the body assigns that are bound before the loop; `continue` returns the body's state early;
an `if` whose branch always jumps takes the rest of the block into the other branch.  A variable that is
assigned in a loop body but not bound before the loop is NOT carried; it is shadowed by `tt` after the
loop so that a later read is a Coq type error (fail closed) - cfg["predefine"] lists the variables the
model deliberately gives a default (a read of such a variable while unbound would be a NameError in
Python; the linking theorem's hand model must guard it).
A read of an `option` variable where its content is needed is a checked unwrap (Err 99 = TypeError on None).
Every variable's type is declared in cfg["vars"]; an undeclared variable is refused.

Object attributes (cfg["fields"] = {attr: (owner type, field type, getter template over {obj}, setter template over
{obj} {val})}): an object held in a variable is a VALUE of its declared owner type;
  e.attr            (e of the owner type)          the getter applied to e
  x.attr = e        (x a bound variable)           let x := setter x e          (the object is rebound, as for x = ...)
  x.attr.append(e)  (the field a list)             let x := setter x (getter x ++ [e])
so a method that mutates `self` denotes the new value of self (cfg["implicit_return"] = "{self}").  Aliasing is NOT
modelled: the configuration's author must check that no second reference to a mutated object is read afterwards.
An attribute that is not declared, or an owner of another type, is refused.
`x: T = e` inside a function body is `x = e` (annotations of local / attribute targets are not evaluated there).

`with E as x: body` where E matches cfg["contexts"] (pattern -> (Gallina template, type), as for prims) is `x = E; body`:
the configuration TRUSTS that __enter__ returns the value the template denotes and that __exit__ does not change any
value the function goes on to use (closing a file that was read).  Any other `with` is refused.

Statement-run primitives (cfg["stmt_prims"] = [(source text of CONSECUTIVE statements with holes __x, target variable,
Gallina template over the holes, type, optional hole types)]): a run of statements that matches the text exactly (up
to the holes) is replaced by `target = <template>`; it is the statement-level analogue of a prim, for library plumbing
whose net effect on one variable is the trusted meaning (e.g. "read an HDF5 group into a dict").  Every other variable
the run assigns is UNBOUND afterwards (a later read is refused), every non-hole name the run reads and does not itself
assign must be bound where the run stands (or be listed in cfg["globals"]), and a changed statement no longer matches,
so the run then meets the ordinary translation and is refused if outside the fragment.
Additions for scoring/main.py (select_next_plate, score_chunk, ChunkedScoresHolder):
  `dict T`            a dict with integer keys and values of type T (insertion-ordered association list `list (Z * T)`):
                      `{}`, `d[k] = v` (dict_set: an existing key keeps its place, its value is replaced),
                      `{k(x): v(x) for x in L}` (left fold of dict_set over L; neither k nor v may raise)
  `x: T = e`          an annotated assignment is the assignment (the annotation is not read)
  `if x is None: x = e`   with x bound at type `opt T` and DECLARED in cfg["vars"] at type T (the default-argument idiom):
                      afterwards x has type T, `match x with Some v => v | None => e end`; e must not raise
  if/else             a variable assigned by a plain `x = e` at the top level of BOTH branches is bound after the `if`
                      even when it was not bound before it
  `a in c`, c : opt   membership in a container that may be None is a checked unwrap (TypeError on None = Err 99)
  `if c`, c : opt (list T)   truthiness of an optional list: false for None and for [] (opt_list_truthy)
  [.. for x in L if P]  where P may raise (a single `if` that is not an and/or): res_filter, P evaluated element by
                      element from the left, the first exception aborts; the element expression still must not raise
  `a[i] = v`, a : list   with cfg["index_error"] = tag: list_set, IndexError (Err tag) when i is outside -len..len-1
  cfg["coerce"]       [(from type, to type, template over {x})]: an upcast applied where the `to` type is needed
                      (subclass used as its base class), also pointwise under `list` and `dict`

Additions for stateful callees (retrospective wrappers / smoothers; all fail closed):
  cfg["state_calls"]   [(pattern, [state variables], template, value type, {hole: type})]: an assignment
               `x = <pattern>` whose right-hand side both returns a value and updates state the Python text does not
               show (the recorded rng / heappop answers consumed so far, a heap): the template denotes a
               `result (T * S1 * ... * Sn)` and the statement becomes `dor (x, s1, ..., sn) <- template;` - it may raise.
  cfg["return_state"]  [state variables]: every `return e` returns `(e, s1, ..., sn)`, the function's type is
               `result (T * S1 * ... * Sn)` (the state the caller goes on with, e.g. the unread answers).
  cfg["assign_effects"] [(statement pattern, state variable, template)]: an assignment STATEMENT that updates a declared state
               variable in place, e.g. `selection_vector[__i] = True` -> `vor {state} (...)`; like cfg["effects"], for
               statements that are not calls.
  `while True:` with `break` / `continue` (only with cfg["while_fuel"] = name of a `nat` parameter): PyRt.res_while, recursion on
               that explicit fuel over the tuple of carried variables; the body answers (go on?, state): `break` = false, end of
               body / `continue` = true.  Running out of fuel is NOT a Python behaviour (Err 97): linking theorems are stated
               for sufficient fuel.  Any other loop test, while/else, `return` inside are refused.
  `break` in a `for` loop (default monad only): PyRt.res_fold_brk, the body answers (go on?, state) like a while body.
Additions for data.py (ScreenSubset / Plate / the view-producing methods of Screen):
  cfg["overload"] = True   several prims may share one pattern and differ in their declared hole types (numpy's `a[mask]`,
                      `a.copy()` on arrays of different element types): a prim whose pattern matches but whose hole types do
                      not fit the arguments is skipped and the next one is tried; when a pattern matched and NO prim fits,
                      the expression is refused (it never falls through to the structural translation)
  [f(x) for x in L]   where f may raise and there is no condition that may raise: res_map_all (Lib/Sexp.v), f evaluated
                      element by element from the left, the first exception aborts
  cfg["decorators"]   extra decorators accepted on the function besides property / classmethod / staticmethod / abstractmethod (any other
                      decorator, a second definition of the name in its scope, a module-level rebinding, or an untranslated override in a
                      subclass of the same file is refused: see find_function); cfg["overrides_ok"] = subclasses whose override is harmless
  cfg["inherits"]     [(subclass, base, [method names])]: checked, not translated - the class `subclass` has the single
                      base `base` and defines none of the named methods itself, so that calling them on (constructing) a
                      `subclass` runs the translated methods of `base`; anything else is refused
Additions for retrospective.py / data.py (reveal_plates, mask_screen, unmask_screen, Screen.set_observed, Screen.__init__):
  cfg["kwcalls"]      {callee name: (Gallina template over the parameter names, result type, [(parameter, type, default)])}:
                      a call `F(k1=e1, ..., kn=en)` of a declared callee with keyword arguments only.  Every keyword must be a
                      declared parameter; a declared parameter the call does not pass takes its declared default (a Gallina
                      term; default None = required, its absence is refused); a passed argument is coerced to the declared type
                      (an `opt T` parameter receives `Some e`).  Arguments are evaluated in source order.  Positional arguments,
                      `*args`, `**kwargs` and undeclared keywords are refused.  A template starting with `!` denotes a
                      `result T` (the call may raise).  WHICH arguments a call site passes is thus read from the source; the
                      template only says what the callee does with a complete argument list.
  cfg["mask_store"]   {"array": template, "scalar": template} over {a} {m} {v}, each denoting a `result (list T)`:
                      `a[m] = v` with a : list T a bound variable and m : list bool (numpy boolean-mask assignment) is
                      `a <- template`; "array" when v : list T, "scalar" when v : T (broadcast of one value).  The templates
                      are trusted (one numpy call: which positions are written, how the values are consumed, what raises).
  cfg["body_slice"]   (first, last): translate only the run of TOP-LEVEL statements of the function body from the statement
                      whose first source line (ast.unparse) is `first` to the one whose first line is `last`, inclusive (each
                      must occur exactly once, in this order).  The Gallina parameters are the variables live where the run
                      starts (cfg["live_vars"] names those that are Python locals, so that they get the identifier suffix);
                      a variable the run reads that is not a parameter is refused as unbound.  Statements outside the run are
                      NOT looked at: the link covers the run only.
  cfg["pydefaults"]   the default values of the Python signature, as source text, checked like cfg["pyparams"]
  cfg["narrow_none"]  True: `if x is not None: A else: B` (or `if x is None: B else: A`) with x bound at `opt T` and declared
                      in cfg["vars"] at T is `match x with Some v => let x := v in A | None => B end`: inside A, x has type T.
                      Variables both branches leave bound must end them at the same type (refused otherwise), which is their
                      type afterwards - so an Optional argument that every path replaces by a value is a T after the `if`.
Additions for data.py (Screen / ExperimentSpace save_h5, load_h5, from_screen):
  cfg["with_return"]  True: `return e` inside a `with E as x:` block over a declared context (not inside a loop) is the
                      function's return: e is evaluated while the context is open, __exit__ runs afterwards and - as
                      cfg["contexts"] already trusts - changes no value (closing a file).  Without the flag it is refused.
Additions for scoring/gaussian_dbal.py (GaussianDBALScorer.score and the dbal_fast_* entry points):
  `d[k]` (read), d : dict T   a checked lookup, PyRt.dict_get (KeyError = Err 96); inside a comprehension it is evaluated element by
                      element from the left (res_map_all).  A subscript of anything else, a slice or a tuple index stays refused
                      (unless a cfg["prims"] pattern gives it a meaning).
  truth value of a Z  `if n` / `if not n` with n an int (e.g. `if not len(plates)`): n is not zero, `negb (n =? 0)`
Additions for the prediction code (common.copy_array_with_control_treatments_set_to_zero, models/sparse_combo.py, models/main.py):
  typed operators     there is no float / array arithmetic in the structural translation (BinOp is integer-only); the numpy
                      operators are PRIMS with hole types, overloaded by shape under cfg["overload"] (`__a + __b` at
                      vec/vec, mat/mat, float/vec ...): an operand combination no prim is declared for is refused.  Float
                      literals are prims too (`0.01`), any other float constant is refused.
  `T1 | T2`           in cfg["vars"]: a local the function re-uses at several types (`result` = one sample's vector inside a loop,
                      the stacked matrix after it).  Only a plain assignment `x = e` may bind such a variable, at the alternative
                      that IS the type of e (no coercion); every other binder (loop target, state call, `with`, tuple target)
                      compares the declared type as a whole and so refuses it.  Reads use the type of the binding in scope.
  [f for a, b in L]   a comprehension whose target is a tuple of names, over a list of tuples of that arity (e.g. a prim for
                      `zip(...)`), without a condition: map over a tuple pattern; res_map_all when f may raise
  cfg["assign_effects"]  a template starting with `!` denotes a `result state` (the store may raise, e.g. numpy's
                      `a[mask, ...] = 0.0` with a mask of the wrong length): `dor state <- template;`
Additions for synergy.py / data.py / models/main.py (calculate_synergy, create_single_treatment_effect_map / _array, ModelEvaluation):
  `pairdict T`        a dict whose keys are PAIRS of integers, values of type T (insertion-ordered `list ((Z * Z) * T)`), all
                      operations type-directed on a variable bound at that type: `{}`, `d[(a, b)] = v` (PyRt.pdict_set: an
                      existing key keeps its place), `(a, b) in d` / `not in` (pdict_mem), and the read `d[(a, b)]`
                      (pdict_read: KeyError = Err cfg["key_error"]; refused when that tag is not declared).  Any other
                      subscript of such a variable is refused.
  for i, (a, b, c) in enumerate(zip(...))   one level of nesting in a loop target: the element type of the iterated list must
                      be a tuple of tuples of exactly that shape
  a loop target that is bound before the loop at ANOTHER type than the elements' (Python rebinds the name, e.g. the
                      parameter `observation` reused as the row's scalar): inside the body it has the element type, it is
                      not carried, and after the loop it is poisoned (`tt`), so a later read is a Coq type error
  cfg["arith"]        {type name: {"Add" / "Sub" / "Mult" / "Div": Gallina binary function}}: `x op y` on two values of one
                      declared numeric type (exact rationals for floats); an operator that is not declared is refused
  cfg["float_consts"] {repr of a float literal: (Gallina term, type)}: the only float literals accepted
  `a[i, j] = v`       a : list (list T) with cfg["index_error"] = tag: PyRt.list_set2 (both indices wrap once, IndexError outside)
Additions for nextflow/scripts/batchie.py (the orchestration script):
  cfg["monad"]        first use (Orchestrate.sres): errors that carry data - the directory a RuntimeError names, the actions done
                      before another exception; raise templates (cfg["raises"]) build the error value from the variables in scope
  cfg["tail_dup"]     True: an `if` one of whose branches MAY continue / return / break without always doing so (an early
                      `return` nested under a second test) is translated by making the statements that follow the `if` the
                      tail of both branches - `if c: A else: B; rest` is `if c then [A; rest] else [B; rest]`, which is what Python
                      executes on either path (a jump inside A or B ends that path as usual).  A variable only one branch assigns
                      is bound only in that branch's copy of the tail.  Without the key such an `if` is refused as before.
  cfg["retype"]       {variable: [other types]}: a plain assignment `x = e` whose value has exactly one of the other declared
                      types (not the one of cfg["vars"]) rebinds x at that type (`screen_metadata = screen_metadata[0]`: the list
                      of matches becomes its first element); later reads see the new type.  Inside a loop or an `if` that
                      carries x the state tuple keeps the old type, so the generated term is ill-typed (fail closed).
Additions for the randomised steps (scoring/rand.py, the hold-out splits, the DBAL sub-sampling; C18):
  cfg["monad"]        with type="rprog" (Model/RandProg.v) a function denotes a resumption program: every `!` template is bound
                      with the monad's bind, so a primitive whose template contains a request (`rng.random()` -> `!rp_random`)
                      puts that request into the program at the place where Python evaluates the call.  A raise needs a
                      template tag (`rp_raise 5`), not an integer.  Any call that is not a declared primitive - a module-level
                      numpy.random function, default_rng(), passing `rng` on - is refused like every other undeclared call.
  cfg["effectful_dictcomp"]  True: `{k(x): v(x) for x in L}` whose key / value may raise or draw is the monad's fold over L of
                      `d[k] = v` (dict_set), the key evaluated before the value (CPython >= 3.8), element by element from the left
  cfg["int_truthiness"]      True: the truth value of a plain int (declared Z) is `negb (x =? 0)` (`if not n:`)
  cfg["assign_effects"]      a template starting with `!` denotes a `result state`: the assignment may raise (an IndexError of
                      `a[idx] = True`)
  cfg["stmt_prims"]          a template starting with `!` denotes a `result T`: the statement run may raise
  cfg["outside_names"]       (with cfg["body_slice"]) the identifiers the statements OUTSIDE the translated run may mention (bare
                      names; attribute names with a leading dot).  Those statements are still not translated, but a name that is
                      not listed - the generator argument, `.random`, `default_rng`, a new helper, an import - is refused
  cfg["typed_loop_vars"]     True: a `for` loop's variable is bound with its declared type (`let x : T := it in`), for bodies
                      from which Coq cannot infer the element type
Additions for the training data of the sparse-combo models (core.py add_observations, models/sparse_combo*.py, data.py):
  cfg["float_literals"]  (Gallina template over {n} {d}, type): a float constant `c` in expression position is the template at
                      the exact decimal value n/d of its shortest repr (0.01 -> n=1, d=100); without the key a float constant
                      is refused as before.  (A negative literal is a unary minus and stays refused.)
  cfg["defaultdict_list"] [names]: `d[k].append(e)` where d is a bound variable of type `dict (list T)`, or a declared field
                      `x.attr` of that type, whose name is listed: PyRt.dict_append (a missing key is inserted last with [e], an
                      existing key keeps its place and its list gets e at the end).  The configuration TRUSTS that the object
                      is a collections.defaultdict(list) (on a plain dict a missing key would be a KeyError).  The variable
                      (the object x) is rebound.  Any other `<subscript>.append(...)` is refused.
  cfg["typed_targets"]  True: the targets of a `for` loop are bound with their declared types (`let x : T := it in`), which Coq
                      needs when the body tests a target (`if mask:`) before the iterated list has fixed its type
Additions for data.py (the id encoders: numpy_array_is_0_indexed_integers, encode_*_to_0_indexed_ids, the id run of Screen.__init__):
  cfg["plain_contexts"]  [patterns]: `with E:` WITHOUT a target over a declared pattern is its body; the configuration TRUSTS
                      that entering / leaving the context changes no value the function uses (pandas.option_context: a
                      library option).  `return` inside needs cfg["with_return"]; any other target-less `with` is refused.
  cfg["retype_effects"]  [(statement pattern, variable, template over {state} and the holes, type before, type after,
                      {hole: type})]: an assignment to a subscript / attribute of a variable, or a `del` statement, that
                      updates the object held in that variable in place and may CHANGE ITS TYPE (a DataFrame gaining or
                      losing a column: `df[c] = s`, `del df[c]`, `df.loc[l, c] = v`).  The variable must be bound at
                      `type before` (refused otherwise) and is rebound at `type after`: `let x : after := template in`; a
                      template starting with `!` denotes a `result after`.  Aliasing is not modelled, as for cfg["fields"].
  if/else + `T1 | T2`   a variable declared at several types that both branches leave bound has, after the `if`, the type it
                      has at the END of the branches, which must be the same in both (refused otherwise)
Additions for models/sparse_combo.py (the Gibbs blocks of LegacySparseDrugComboImpl, C08 links):
  cfg["assign_effects"]  a pattern may also be an AUGMENTED assignment statement (`self.Mu[__i] += __v`, numpy's in-place
                      fancy-index update): the statement must match the pattern's target, operator and value
  `x.attr op= e`      x a bound variable of the owner type of the declared field `attr` (cfg["fields"]): `x.attr = x.attr op e`,
                      where `x.attr op e` is translated like the written binary expression (so through the typed operator
                      prims; numpy's in-place operator has the value of the out-of-place one; aliasing is not modelled)
  if/else             a variable declared `T1 | T2` that both branches assign is NOT bound after the `if` (the branches may bind it at
                      different types); it is poisoned like a variable only one branch assigns
  bare `return`       in a function with cfg["implicit_return"] (a method that mutates self and returns None): the function
                      ends with the implicit return value of the state at that point.  Without cfg["implicit_return"]
                      it stays `return None`.
  cfg["try_prims"]    [(expression pattern with holes, Gallina template, {hole: type}, Gallina pattern of a successful answer
                      over {x}, type of the value)]:
                          try:    T = <pattern>; S2; ...
                          except: B                       (bare `except:` or `except Exception:`; no else / finally / `as`)
                      where the right-hand side of the FIRST statement of the try body matches a declared pattern - the only
                      expression of the try body that the configuration says may raise - is
                          bind a <- template; match a with <success pattern binding x> => T = x; S2; ...; rest | _ => B; rest end
                      i.e. the primitive's answer says whether it raised (the model's VFail answer of an MVN draw; the template
                      denotes a computation of such an answer in the configuration's monad).  The configuration TRUSTS that no
                      other statement of the try body raises.  Any other try statement, and continue / break / return / raise
                      inside either part, are refused.
Additions for scoring/gaussian_dbal.py (generate_combination_at_sorted_index, the unranking generator; C15):
  `while T:`          a general loop test (still only with cfg["while_fuel"], default monad, no while/else, no `return` inside):
                      `while T: B` is `while True: if not T: break; B` - PyRt.res_while whose body first evaluates T on the
                      CURRENT state (a test that may raise is bound inside the body, i.e. re-evaluated every iteration); T false
                      answers (false, state), otherwise B runs and the end of B / `continue` answers (true, state), `break`
                      (false, state).  The final failing test consumes one unit of fuel: a loop of m iterations needs fuel m + 1.
  cfg["checked_div"]  tag: integer `a // b` and `a % b` (also `//=`, `%=`) are CHECKED: PyRt.checked_div / checked_mod, bound
                      where Python evaluates them (after both operands), Err tag = ZeroDivisionError when b = 0, else Coq's
                      Z.div / Z.modulo (floor division / modulo with the sign of the divisor = Python's).  Without the key
                      `//` and `%` stay the total Z.div / Z.modulo (which return 0 for b = 0): a configuration whose divisor
                      can be 0 on a reachable input must set it.  Default monad only.
Additions for distance_calculation.py (get_lower_triangular_indices_chunk, ChunkedDistanceMatrix; C07):
  `assert e`          (only with cfg["assert_error"] = tag, default monad): `if e then <rest of the block> else Err tag`
                      (AssertionError; the message, if any, must be a constant).  The translation describes a run WITHOUT
                      `python -O` (which removes asserts).  Without the key an assert is refused.
  cfg["zero_division"] tag: `a // b` and `a % b` on ints are CHECKED (PyRt.z_floordiv / z_mod: ZeroDivisionError = Err tag
                      when b = 0, else Coq's floor division / modulo, which agree with Python's for every sign).  Without
                      the key they stay the unchecked `/` and `mod` (only right where the divisor cannot be 0).
  `if c`, c : opt Z   truthiness of an optional int (`if chunk_size:`): false for None and for 0 (PyRt.opt_int_truthy)
  `x.attr[i] = v`     attr a declared field (cfg["fields"]) of list type, x a bound variable of the owner type, with
                      cfg["index_error"] = tag: `a <- list_set tag (getter x) i v; x := setter x a` (numpy / list item store:
                      a negative index wraps once, IndexError outside); the object variable is rebound as for `x.attr = e`
  `x.attr += e`       attr a declared field of type Z: `x.attr = x.attr + e`
Additions for the command-line wrappers (batchie/cli/*.py main functions):
  cfg["typed_effects"]  [(expression-statement pattern, state variable, template over {state} and the holes, {hole: type})]:
                      like cfg["effects"], but every hole is coerced to its declared type first (an `opt T` value where T is
                      needed is a checked unwrap, Err 99), so an argument of another type is refused by the translator
                      (`model.add_observations(subset)`, `result.save_h5(path)`, `f.write(str(n))`)
  cfg["kwcalls"]      a key `module.function` declares a keyword-only call through an imported module (`sampling.sample(...)`);
                      refused when `module` is a bound variable of the function (that would be a method call on an object)
  cfg["state_calls"]  a state call may be assigned to a tuple of names `(a, b) = <pattern>` when its value type is the tuple
                      of their declared types: `dor (a, b, s1, ..., sn) <- template;`
Additions for retrospective.py (the generators / size smoothers / SparseCover linked to Model/Retro.v, Model/RetroInit.v; C13):
  cfg["expr_state_calls"]  [(pattern, [state variables], template, value type, {hole: type})], as cfg["state_calls"], but matched in
                      EXPRESSION position (`np.array_split(rng.permutation(a), n)`: the draw is an argument of another call): the
                      template denotes a `result (T * S1 * ... * Sn)` and is bound, where Python evaluates the call (after its own
                      arguments, before the enclosing call), by `dor (r, s1, ..., sn) <- template;` - so the state variables are
                      rebound for everything evaluated later.  Default monad only; the state variables must be bound; every
                      statement containing such a call counts as assigning the state variables (loops and `if`s carry them).
                      Refused inside a comprehension, a lambda or a conditional expression (the binding would be local to one
                      element / branch) and - like every hoisted call - in a later operand of and/or.
  cfg["while_cond"]   True: `while c: body` (with cfg["while_fuel"]) is `while True: if not c: break; body` - the test is
                      evaluated before every iteration, on explicit fuel like `while True` (Err 97 when the fuel runs out, which
                      is not a Python behaviour: links are stated for sufficient fuel).  Without the key only `while True:` is accepted.
Additions for nextflow/scripts/batchie.py (main() and the run_* command builders; C19):
  cfg["monad"]["while"]   the monad's own `while` combinator (Orchestrate.mwhile): `while True:` / `while T:` on cfg["while_fuel"]
                      is accepted under that monad, the body answers `<ok> (go on?, state)` exactly as under the default monad
                      (PyRt.res_while); a monad that does not declare one still refuses every while loop
  cfg["tail_dup_raise"]  True: an `if` (without continue / return / break) one of whose branches MAY raise is translated like
                      cfg["tail_dup"]: the statements that follow it become the tail of both branches (`if c: A else: B; rest` is
                      `if c then [A; rest] else [B; rest]`), so that a variable assigned on every path that does not raise
                      (`if m == 'a': f = g elif m == 'b': f = h else: raise ...`) is bound in the tail
  cfg["list_elem_type"]  T: every element of a NON-EMPTY list literal `[a, b, ...]` of the function is coerced to T (through
                      cfg["coerce"]; a value of type U where T = `opt U` is `Some`; anything that does not fit is refused) and the
                      literal has type `list T` - for a list whose items the source builds from values of several types (the
                      words of a command line: literals, paths, names).  Without the key a list literal has the type of its
                      first element and the others are not coerced, as before.
Additions for data.py (Plate.merge and the one-line helpers of ScreenBase / Plate; C14 / C13 / C11 helper links):
  cfg["nested_fields"]  True: stores THROUGH a chain of declared fields (cfg["fields"]) of a bound variable x, n >= 2:
                          x.a1...an = e            the value is evaluated first (as in Python), then the objects along the chain are
                                                   rebuilt from the inside out, `x.a1 := setter_n (x.a1...a(n-1)) e`, ..., and x is rebound;
                                                   every ai must be declared for the type a(i-1) has (refused otherwise)
                          x.a1...an[m] = v         with cfg["mask_store"], the innermost field a `list T` and m : list bool: numpy's
                                                   boolean-mask assignment on the array held in that field ("array" template when
                                                   v : list T, "scalar" when v : T), evaluated v first, then m; then stored as above
                          (T1, ..., Tn) = e        a tuple target whose components are declared variables, `_` (discarded, any type)
                                                   or (chains of) declared fields: e must have a tuple type of that arity; the
                                                   components are bound to fresh names and stored from left to right
                      A field's SETTER template may start with `!` on this path: it then denotes a `result owner` (a checked store,
                      e.g. an id array that must not hold a NaN) and is bound with `dor`.  Aliasing is not modelled, as for
                      cfg["fields"]: a second reference to an object along the chain goes stale (Plate.merge's `other.screen`).
                      Without the key all these targets are refused as before.
Additions for fast_mvn.py / the constructor and wrappers of the sparse-combo model (C08 links, second part):
  `a if c else b`     (only with cfg["ifexp"] = True) a conditional expression: the test is evaluated first (its hoisted calls are
                      bound before, unconditionally, as Python evaluates them), then exactly one arm.  Both arms must have the same
                      type (refused otherwise).  When neither arm hoists anything it is `(if c then a else b)`; when an arm contains
                      a call that may raise or draw (`np.linalg.cholesky(Q).T if not chol_factor else Q.T`) that call is bound INSIDE
                      its arm: `bind r <- (if c then (bind ..; ok a) else (bind ..; ok b));`.  Stateful expression calls inside
                      stay refused (cfg["expr_state_calls"]).  Without the key a conditional expression is refused as before.
Additions for the parameter dicts of the posterior samples (core.Theta, models/sparse_combo*.py; C10 links):
  cfg["strings"]      True: a str constant is the list of its code points, a term of type `pystr` (PyRt; the text is kept as a
                      comment), and the following string-keyed forms are accepted (all refused without the key):
    `strdict T`         a dict with STRING keys and values of type T (insertion-ordered `list (pystr * T)`):
                        `{k1: v1, ..., kn: vn}`   the entries inserted from the left (PyRt.sdict_set: a repeated key keeps its first
                                                  place and gets the last value), keys and values evaluated in source order; every
                                                  value is coerced to cfg["strdict_elem"] when that is declared (else to the type of
                                                  the first value); `**` inside the display is refused
                        `d[k]` (read)             PyRt.sdict_read, KeyError = Err cfg["key_error"] (refused without that tag)
                        `k in d` / `k not in d`   d a bound VARIABLE of that type: PyRt.sdict_mem
                        `for k, v in d.items()`   the entries in insertion order
                        `{}`                      the empty dict where a `strdict T` is needed
    `t[i]`              t of a tuple type, i a constant index within it: the projection (fst / snd chain)
  cfg["type_error"]   tag: `F(k1=e1, ..., **d)` in a cfg["kwcalls"] call, d : strdict T the LAST argument: PyRt.sdict_only - every
                      key of d must be a declared parameter that the call does not pass itself, else TypeError (Err tag: unexpected
                      keyword / multiple values) -, then every parameter not passed is read from d (PyRt.sdict_read, a missing
                      one is the same TypeError) and coerced to its declared type.  A parameter with a default value that the call
                      does not pass is refused under `**`.  Without the key `**` stays refused.
  cfg["checked_coerce"]  [(from type, to type, template over {x} denoting a `result to`)]: a downcast that may raise, applied (and
                      bound where Python evaluates the use) where cfg["coerce"] has no total coercion - a dict value used as an array
  cfg["dataclass"]    {"owner": type, "bases": [names], "fields": [names in order]}: CHECKED against the class cfg["cls"], not
                      translated - decorated with exactly `@dataclass`, exactly these bases, its annotated class-level names are
                      exactly these fields in this order and none has a default, no other class-level statement than methods and
                      the docstring, none of __init__ / __post_init__ / __new__ / __setattr__ / __getattr__ / __getattribute__; a
                      cfg["kwcalls"] entry `cls` must take exactly the fields as parameters and is accepted only in a plain
                      @classmethod whose first parameter is `cls`.  Then `x.__dict__` (x of the owner type) is the dict display
                      {field: x.field} over the fields in declaration order (getters of cfg["fields"]).  TRUSTED: the bases
                      contribute no fields, no attribute is added to / deleted from an instance after construction, and the
                      returned dict is used as a value (it is the live instance dict in Python).
  cfg["loop_return"]  True (default monad, no return_state / implicit_return): `return e` inside a `for` loop - the loop's state
                      gains an optional return value (None to start with), `return e` answers (false, .., Some e) through
                      PyRt.res_fold_brk like a `break`, and after the loop `match ret with Some v => return v | None => <rest> end`,
                      where `return v` is the enclosing loop's own return when the loops are nested.  Combine with cfg["tail_dup"]
                      for an `if` that may, but need not, return.  Without the key a return inside a loop is refused as before.
Additions for data.py Screen.single_treatment_effects / scoring/size.py SizeScorer.score (C14 / C06 leftovers):
  cfg["except_tags"]  {exception class name: tag (a Gallina term of type Z, e.g. a parameter)}: a FINAL statement
                          try: B   except E: H      (one handler naming one declared class; no `as`, else, finally)
                      where B and H both always end in a return / raise and B assigns no variable, is PyRt.res_catch tag B H: an
                      exception of B that carries E's tag is replaced by H's outcome, any other passes.  The configuration TRUSTS
                      that the primitives of B use exactly this tag for exactly the exceptions of class E.  Default monad only.
  {k: v for a, b in d.items()}   d a bound variable of type `dict T`, no condition: the left fold of dict_set over d's entries
                      in insertion order, a : Z, b : T in scope for k and v (neither may raise)
Additions for cli/argument_parsing.py, introspection.py and the get_args() of the wrappers (the argument-handling glue; C18 / C06 / C04 / C03):
  cfg["str_consts"]   type name: a string constant in expression position is the list of its code points at that type
                      (`"true"` -> `([116; 114; 117; 101] : str)`).  Without the key a string constant is refused as before (docstrings
                      and raise messages are never evaluated).
  cfg["eqb_membership"]  True: `x in L` / `x not in L` with L : list T, x : T and T a type with an equality test declared in cfg["eqb"]:
                      `existsb (eqb x) L` (Python compares x with the items from the left).  Any other membership test falls through
                      to the integer / dict / set forms.
  `kdict K V`         in cfg["vars"] / hole types: a dict whose keys have the type NAME K (one word; Z, or a name with a test in cfg["eqb"]) and
                      values of type V: insertion-ordered association list `list (K * V)`, operations type-directed on a value of that type:
                        {}                       the empty list (where a `kdict` is needed)
                        {k1: v1, ..}             only with cfg["dict_literal_type"] = `kdict K V` (every non-empty dict literal of the function
                                                 has that type): items in source order, keys / values coerced to K / V, successive PyRt.kdict_set
                        d[k] = v                 PyRt.kdict_set (an existing key keeps its place and takes the value; a new key goes last); the
                                                 value is evaluated before the key
                        d[k]                     PyRt.kdict_get, KeyError = Err cfg["key_error"] (refused when that tag is not declared)
                        d.get(k, e)              d a bound variable: PyRt.kdict_get_default (e is evaluated, as an argument, before the lookup)
                        {K: V for a, b in d.items()}   d a bound variable: the items in the dict's order, key before value, kdict_set into an
                                                 empty dict; the monad's fold when key / value may raise (first exception aborts), else fold_left
                        for a, b in d.items()    d a bound variable: a loop over the list of (key, value) pairs
                        truth value              of a `kdict`: not empty; of an `opt kdict`: false for None and for {}
                        x or {}                  only with cfg["kdict_or_empty"]: x when it is a (non-empty) dict, else an empty dict - as a VALUE
                                                 (PyRt.opt_or_empty; aliasing with the old object is not modelled)
  cfg["unpack_error"] tag: `(a, b, ..) = e` with e a LIST of the names' declared type: `match e with [a; b; ..] => rest | _ => Err tag end`
                      (ValueError: not enough / too many values to unpack).  Default monad only.
  cfg["except_tag_lists"]  {exception class name: [error tags]}: `try: B except E [as n]: H` with E a declared class name and H ENDING IN A
                      RAISE, followed by further statements (the other shape than cfg["except_tags"], whose parts both end the function):
                          dor (vs) <- res_catch_tags [tags] (B; Ok (vs)) (H); rest
                      PyRt.res_catch_tags runs H exactly when B ends in an Err whose tag is listed for E (any other Err passes through); vs = the
                      variables B assigns that are bound before the try or assigned by a plain / tuple assignment at its top level.  The
                      configuration TRUSTS the tag lists (which primitives' errors are instances of E).  The name n is not bound (a read is
                      refused); continue / break / return anywhere, raise / try inside B, else / finally, several handlers are refused.
                      Takes precedence over cfg["try_prims"] and cfg["except_tags"].
  cfg["if_expr"]      (cfg["ifexp"] wants arms of ONE type and lets them raise; this form coerces one arm and refuses raising arms)
                      True: `a if c else b`: the test first, then `if c then a else b`; neither branch may raise (a hoisted call would be
                      evaluated unconditionally); the branches must have one type, possibly after a declared coercion (cfg["coerce"], e.g. of
                      the literal None: `("none", T, term)`).
  cfg["truthy"]       {type name: Gallina predicate}: the truth value of an `opt T` value, T a declared opaque type, is false for None and the
                      predicate (bool(o)) otherwise - instead of the default "an opaque object is true".
  cfg["loop_return_rewrite"]  True (for functions that cfg["loop_return"] refuses: an implicit return after the loop, cfg["implicit_return"]):
                      a `return e` inside a `for` loop that is a TOP-LEVEL statement of the function is rewritten before translation
                      (class LoopReturn) into `loop_ret = None; for ..: .. loop_ret = e; break ..; if loop_ret is not None: return loop_ret`
                      with loop_ret a fresh variable of type `opt T`, T the return type (a returned None is `Some None`).  At most one such
                      loop; refused when the loop has a `break` of its own, an else clause, or the return sits in a nested loop / with / try.
Addition for nextflow/scripts/batchie.py validate_job_dir_and_return_meta after the repair of the torn-marker finding (C19):
  cfg["try_except_classes"]  [exception class names]: the one handler of a cfg["try_prims"] statement may also be `except E:` with E a
                      listed class (no `as`).  The configuration TRUSTS that the failure answers of the declared primitive are exactly
                      its exceptions of class E (json.load: ValueError = JSONDecodeError / UnicodeDecodeError); everything else as for
                      cfg["try_prims"].  Without the key only a bare `except:` / `except Exception:` is accepted, as before.
  cfg["short_circuit"]  True: `a or b` / `a and b` whose LATER operand may raise (a `!` primitive): instead of the refusal the operand's
                      computation is bound inside the branch in which Python evaluates it -
                          bind v <- (if a then ok true else (bind r <- <b's computation>; ok b));      (`and`: if a then (...) else ok false)
                      and v is the value; operands that cannot raise are joined with || / && as before.  Without the key such an
                      operand is refused as before (hoisting it would evaluate it unconditionally).
"""
import ast


class Unsupported(Exception):
    pass


# ---------------------------------------------------------------- types
def parse_type(s):
    s = s.strip()
    if " | " in s and len(split_top(s, "|")) > 1:      # `T1 | T2`: a variable the function re-uses at several types
        return ("alt", tuple(parse_type(x) for x in split_top(s, "|")))
    if s.startswith("opt "):
        return ("opt", parse_type(s[4:]))
    if s.startswith("list "):
        return ("list", parse_type(s[5:]))
    if s.startswith("(") and s.endswith(")") and "*" in s:
        return ("tuple", tuple(parse_type(x) for x in split_top(s[1:-1], "*")))
    if s == "dict":
        return ("dict",)
    if s.startswith("dict "):
        return ("dictof", parse_type(s[5:]))
    if s == "set":
        return ("set",)
    if s.startswith("pairdict "):
        return ("pairdict", parse_type(s[9:]))
    if s.startswith("strdict "):
        return ("strdict", parse_type(s[8:]))
    if s.startswith("kdict ") and len(s[6:].strip().split(" ", 1)) == 2:      # `kdict K V`: K a type NAME (one word)
        kk, vv = s[6:].strip().split(" ", 1)
        return ("kdict", parse_type(kk), parse_type(vv))
    return (s,)


def split_top(s, sep):
    out, depth, cur = [], 0, ""
    for ch in s:
        if ch == "(":
            depth += 1
        if ch == ")":
            depth -= 1
        if ch == sep and depth == 0:
            out.append(cur)
            cur = ""
        else:
            cur += ch
    out.append(cur)
    return out


def coq_type(t):
    if t[0] == "opt":
        return "(option %s)" % coq_type(t[1])
    if t[0] == "list":
        return "(list %s)" % coq_type(t[1])
    if t[0] == "tuple":
        return "(%s)" % " * ".join(coq_type(x) for x in t[1])
    if t[0] == "dict":
        return "(list (Z * Z))"
    if t[0] == "dictof":
        return "(list (Z * %s))" % coq_type(t[1])
    if t[0] == "set":
        return "(list Z)"
    if t[0] == "pairdict":
        return "(list ((Z * Z) * %s))" % coq_type(t[1])
    if t[0] == "strdict":
        return "(list (pystr * %s))" % coq_type(t[1])
    if t[0] == "kdict":
        return "(list (%s * %s))" % (coq_type(t[1]), coq_type(t[2]))
    return t[0]


NONE_T = ("none",)       # type of the literal None before it meets an option type
EMPTY_T = ("emptylist",)  # type of the literal [] before it meets a list type


def str_literal(s):
    """a Python str constant: the list of its code points, as a term of type PyRt.pystr (with the text as a comment)"""
    note = " (* %s *)" % s if s and all(c.isalnum() or c in "_-. " for c in s) and s.isascii() else ""
    return "([%s] : pystr)%s" % ("; ".join(str(ord(c)) for c in s), note)


def tuple_term(names):
    if not names:
        return "tt"
    if len(names) == 1:
        return names[0]
    return "(" + ", ".join(names) + ")"


def tuple_pat(names):
    if not names:
        return "_"
    if len(names) == 1:
        return names[0]
    return "'(" + ", ".join(names) + ")"


# ---------------------------------------------------------------- the translator
class Tr:
    def __init__(self, cfg):
        self.cfg = cfg
        self.vars = {k: parse_type(v) for k, v in cfg["vars"].items()}
        pat = lambda p: Rename().visit(ast.parse(p, mode="eval")).body
        self.prims = [(pat(x[0]), x[1], parse_type(x[2]), {h: parse_type(t) for h, t in (x[3] if len(x) > 3 else {}).items()})
                      for x in cfg.get("prims", [])]
        self.ignore = [pat(p) for p in cfg.get("ignore", [])]
        self.effects = [(pat(p), var, tmpl) for p, var, tmpl in cfg.get("effects", [])]
        self.effect_calls = [(pat(p), var, st_t, val_t, parse_type(ty)) for p, var, st_t, val_t, ty in cfg.get("effect_calls", [])]
        self.eqb = cfg.get("eqb", {})
        self.state_calls = [(pat(x[0]), list(x[1]), x[2], parse_type(x[3]), {h: parse_type(t) for h, t in (x[4] if len(x) > 4 else {}).items()})
                            for x in cfg.get("state_calls", [])]
        self.return_state = list(cfg.get("return_state", []))
        self.expr_state_calls = [(pat(x[0]), list(x[1]), x[2], parse_type(x[3]), {h: parse_type(t) for h, t in (x[4] if len(x) > 4 else {}).items()})
                                 for x in cfg.get("expr_state_calls", [])]
        self.no_state_nodes = set()      # ids of the AST nodes inside comprehensions / lambdas / conditional expressions
        spat = lambda p: Rename().visit(ast.parse(p)).body[0]
        self.assign_effects = [(spat(p), var, tmpl) for p, var, tmpl in cfg.get("assign_effects", [])]
        # object attributes: {attr: (owner type, field type, getter template, setter template)}
        self.fields = {a: (parse_type(o), parse_type(t), g, st) for a, (o, t, g, st) in cfg.get("fields", {}).items()}
        self.coerce = {(parse_type(a), parse_type(b)): t for a, b, t in cfg.get("coerce", [])}
        self.raises = list(cfg.get("raises", []))  # [(substring of unparse(raise stmt), tag)]
        self.fresh = 0
        self.ret_type = parse_type(cfg["returns"])
        self.contexts = [(pat(x[0]), x[1], parse_type(x[2]), {h: parse_type(t) for h, t in (x[3] if len(x) > 3 else {}).items()})
                         for x in cfg.get("contexts", [])]
        # statement-run primitives: (pattern statements, target, template, type, hole types)
        self.stmt_prims = [(Rename().visit(ast.parse(x[0])).body, rn(x[1]), x[2], parse_type(x[3]),
                            {h: parse_type(t) for h, t in (x[4] if len(x) > 4 else {}).items()})
                           for x in cfg.get("stmt_prims", [])]
        self.globals = set(rn(g) for g in cfg.get("globals", []))
        # try/except around one declared primitive: (pattern, template, hole types, success pattern, value type)
        self.try_prims = [(pat(x[0]), x[1], {h: parse_type(t) for h, t in x[2].items()}, x[3], parse_type(x[4]))
                          for x in cfg.get("try_prims", [])]
        # keyword-argument calls: {callee: (template, result type, [(parameter, type, default term or None)])}
        self.kwcalls = {rn(f): (t, parse_type(ty), [(p, parse_type(pt), d) for p, pt, d in ps])
                        for f, (t, ty, ps) in cfg.get("kwcalls", {}).items()}
        self.plain_contexts = [pat(p) for p in cfg.get("plain_contexts", [])]
        # typed effects: (pattern, state variable, template, hole types)
        self.typed_effects = [(pat(x[0]), x[1], x[2], {h: parse_type(t) for h, t in x[3].items()}) for x in cfg.get("typed_effects", [])]
        self.retype_effects = [(spat(x[0]), rn(x[1]), x[2], parse_type(x[3]), parse_type(x[4]),
                                {h: parse_type(t) for h, t in (x[5] if len(x) > 5 else {}).items()})
                               for x in cfg.get("retype_effects", [])]
        # the exception monad: by default Lib/Sexp.result with integer tags; a configuration may name another one
        # (type constructor, bind notation keyword, unit, fold, checked unwrap) whose errors carry data
        m = dict(type="result", bind="dor", ok="Ok", fold="res_fold", unwrap="unwrap")
        m.update(cfg.get("monad", {}))
        self.M = m

    # ---- structural matching of primitive patterns; holes are names starting with "__"
    def unify(self, pat, node, binds):
        if isinstance(pat, ast.Name) and pat.id.startswith("__"):
            if pat.id in binds:
                return ast.dump(binds[pat.id]) == ast.dump(node)
            binds[pat.id] = node
            return True
        if type(pat) is not type(node):
            return False
        for field in pat._fields:
            if field in ("ctx", "kind", "type_comment"):
                continue
            a, b = getattr(pat, field, None), getattr(node, field, None)
            if isinstance(a, list):
                if not isinstance(b, list) or len(a) != len(b):
                    return False
                for x, y in zip(a, b):
                    if isinstance(x, ast.AST):
                        if not self.unify(x, y, binds):
                            return False
                    elif x != y:
                        return False
            elif isinstance(a, ast.AST):
                if not isinstance(b, ast.AST) or not self.unify(a, b, binds):
                    return False
            elif a != b:
                return False
        return True

    def new(self, base):
        self.fresh += 1
        return "%s__%d" % (base, self.fresh)

    # ---- expressions: returns (term, type); appends checked unwraps to hoist [(name, term)]
    def expr(self, e, env, hoist, want=None):
        if isinstance(e, ast.Subscript) and isinstance(e.value, ast.Name) and env.get(e.value.id, ("unit",))[0] == "pairdict":
            return self.pairdict_read(e, env, hoist)     # type-directed, before any prim pattern such as `__a[__m]`
        misfit = None      # cfg["overload"]: the refusal of the last prim whose pattern matched but whose hole types did not fit
        for pat, tmpl, ty, argtys in self.prims:
            binds = {}
            if self.unify(pat, e, binds):
                args = {}
                mark = len(hoist)
                try:
                    for k, v in binds.items():
                        a, at = self.expr(v, env, hoist)
                        args[k[2:]] = self.need(a, at, argtys[k[2:]], hoist) if k[2:] in argtys else a
                except Unsupported as ex:
                    if not self.cfg.get("overload"):
                        raise
                    del hoist[mark:]
                    misfit = ex
                    continue
                if tmpl.startswith("!"):     # a primitive that may raise: the template denotes a `result T`
                    n = self.new("r")
                    hoist.append((n, tmpl[1:].format(**args)))
                    return n, ty
                return "(" + tmpl.format(**args) + ")", ty
        if misfit is not None:
            raise Unsupported("no prim of this pattern fits the argument types: %s (%s)" % (ast.unparse(e), misfit))
        for patn, svars, tmpl, vty, argtys in self.expr_state_calls:      # cfg["expr_state_calls"]: a stateful call in expression position
            binds = {}
            if self.unify(patn, e, binds):
                if id(e) in self.no_state_nodes or self.M["type"] != "result":
                    raise Unsupported("stateful call inside a comprehension / lambda / conditional expression: " + ast.unparse(e))
                if any(v not in env or env[v] == ("unit",) for v in svars):
                    raise Unsupported("stateful call on an unbound state variable: " + ast.unparse(e))
                args = {}
                for kk, v in binds.items():
                    a, at = self.expr(v, env, hoist)
                    args[kk[2:]] = self.need(a, at, argtys[kk[2:]], hoist) if kk[2:] in argtys else a
                n = self.new("r")
                hoist.append(("(" + ", ".join([n] + svars) + ")", tmpl.format(**args)))
                return n, vty
        if isinstance(e, ast.Call) and isinstance(e.func, ast.Name) and e.func.id.startswith("STMTPRIM:"):
            _, _, tmpl, ty, argtys = self.stmt_prims[int(e.func.id[len("STMTPRIM:"):])]
            for kw in e.keywords:
                if kw.arg is None and isinstance(kw.value.ctx, ast.Load):     # a name the run reads: it must be bound here
                    if env.get(kw.value.id, ("unit",)) == ("unit",):
                        raise Unsupported("statement run reads a variable that is not bound here: " + kw.value.id)
                elif kw.arg is None:     # a name the run assigns besides its target: it must not be live (it would go stale)
                    if env.get(kw.value.id, ("unit",)) != ("unit",):
                        raise Unsupported("statement run re-assigns a bound variable it does not model: " + kw.value.id)
            args = {}
            for kw in e.keywords:
                if kw.arg is not None:
                    a, at = self.expr(kw.value, env, hoist)
                    args[kw.arg] = self.need(a, at, argtys[kw.arg], hoist) if kw.arg in argtys else a
            if tmpl.startswith("!"):     # a statement run that may raise: the template denotes a `result T`
                n = self.new("r")
                hoist.append((n, tmpl[1:].format(**args)))
                return n, ty
            return "(" + tmpl.format(**args) + ")", ty
        if isinstance(e, ast.Call) and isinstance(e.func, ast.Name) and e.func.id in self.kwcalls:
            return self.kwcall(e, env, hoist)
        if isinstance(e, ast.Call) and self.dotted_callee(e.func, env) in self.kwcalls:     # cfg["kwcalls"] key `module.function`
            return self.kwcall(ast.Call(func=ast.Name(id=self.dotted_callee(e.func, env), ctx=ast.Load()), args=e.args, keywords=e.keywords), env, hoist)
        if isinstance(e, ast.Attribute) and e.attr in self.fields:
            owner, fty, getter, _ = self.fields[e.attr]
            o, ot = self.expr(e.value, env, hoist)
            if ot != owner:
                raise Unsupported("attribute %s of a %s (declared for %s)" % (e.attr, ot, owner))
            return "(" + getter.format(obj=o) + ")", fty
        if isinstance(e, ast.Name) and e.id.startswith("MATCHCLASS:"):
            return "(" + e.id[len("MATCHCLASS:"):] + ")", ("bool",)
        if isinstance(e, ast.Name) and e.id.startswith("KDICTITEMS:"):      # d.items() of a `kdict K V` as a loop source
            d = e.id[len("KDICTITEMS:"):]
            return d, ("list", ("tuple", (env[d][1], env[d][2])))
        if isinstance(e, ast.IfExp) and self.cfg.get("if_expr"):
            # cfg["if_expr"]: `a if c else b` - the test is evaluated first; neither branch may raise (a hoisted call would be
            # evaluated unconditionally); the branches must have one type, possibly after a declared coercion of one of them
            c = self.cond(e.test, env, hoist)
            ha, hb = [], []
            a, at = self.expr(e.body, env, ha)
            b, bt = self.expr(e.orelse, env, hb)
            if ha or hb:
                raise Unsupported("conditional expression whose branch may raise: " + ast.unparse(e))
            if at != bt:
                try:
                    b, bt = self.need(b, bt, at, hb), at
                except Unsupported:
                    a, at = self.need(a, at, bt, ha), bt
                if ha or hb:
                    raise Unsupported("conditional expression whose branch may raise: " + ast.unparse(e))
            return "(if %s then %s else %s)" % (c, a, b), at
        if isinstance(e, ast.Name):
            if e.id not in env:
                raise Unsupported("read of a variable that is not bound here: %s" % e.id)
            return e.id, env[e.id]
        if isinstance(e, ast.Constant):
            if e.value is None:
                return "None", NONE_T
            if isinstance(e.value, bool):
                return ("true" if e.value else "false"), ("bool",)
            if isinstance(e.value, int):
                return "(%d)" % e.value, ("Z",)
            if isinstance(e.value, float) and repr(e.value) in self.cfg.get("float_consts", {}):
                term, ty = self.cfg["float_consts"][repr(e.value)]
                return "(%s)" % term, parse_type(ty)
            if isinstance(e.value, float) and self.cfg.get("float_literals") is not None and e.value == e.value \
                    and e.value not in (float("inf"), float("-inf")):
                from fractions import Fraction
                fr = Fraction(repr(e.value))      # the decimal value of the literal's shortest repr
                tmpl, ty = self.cfg["float_literals"]
                return "(" + tmpl.format(n=fr.numerator, d=fr.denominator) + ")", parse_type(ty)
            if isinstance(e.value, str) and self.cfg.get("strings"):      # cfg["strings"]: a str constant is the list of its code points
                return str_literal(e.value), ("pystr",)
            if isinstance(e.value, str) and self.cfg.get("str_consts") is not None:
                # cfg["str_consts"]: a string constant is the list of its code points, at the declared type name
                ty = parse_type(self.cfg["str_consts"])
                return "([%s] : %s)" % ("; ".join(str(ord(ch)) for ch in e.value), coq_type(ty)), ty
            raise Unsupported("constant: %r" % (e.value,))
        if isinstance(e, ast.List):
            if not e.elts:
                return "[]", EMPTY_T
            if self.cfg.get("list_elem_type") is not None:
                # cfg["list_elem_type"]: every element of a list literal is coerced to the declared element type
                et = parse_type(self.cfg["list_elem_type"])
                items = []
                for x in e.elts:
                    xv, xt = self.expr(x, env, hoist)
                    items.append(self.need(xv, xt, et, hoist))
                return "[" + "; ".join(items) + "]", ("list", et)
            parts = [self.expr(x, env, hoist) for x in e.elts]
            return "[" + "; ".join(p[0] for p in parts) + "]", ("list", parts[0][1])
        if isinstance(e, ast.Dict) and not e.keys:
            return "[]", EMPTY_T
        if isinstance(e, ast.Dict) and self.cfg.get("strings"):
            return self.strdict_literal(e, env, hoist)
        if isinstance(e, ast.Attribute) and e.attr == "__dict__" and self.cfg.get("dataclass"):
            return self.dataclass_dict(e, env, hoist)
        if isinstance(e, ast.Dict) and self.cfg.get("dict_literal_type") is not None:
            return self.kdict_literal(e, env, hoist)
        if isinstance(e, ast.DictComp) and self.kdict_items_source(e, env) is not None:
            return self.kdict_comp(e, env, hoist)
        if isinstance(e, ast.Call) and isinstance(e.func, ast.Attribute) and e.func.attr == "get" and len(e.args) == 2 and not e.keywords \
                and isinstance(e.func.value, ast.Name) and env.get(e.func.value.id, ("unit",))[0] == "kdict":
            # d.get(k, default) on a `kdict K V`: the value of the first item with that key, else the default (evaluated first, as an argument)
            _, kt0, vt0 = env[e.func.value.id]
            kk, kt = self.expr(e.args[0], env, hoist)
            kk = self.need(kk, kt, kt0, hoist)
            dv, dvt = self.expr(e.args[1], env, hoist)
            return "(kdict_get_default %s %s %s %s)" % (self.key_eqb(kt0), e.func.value.id, kk, self.need(dv, dvt, vt0, hoist)), vt0
        if isinstance(e, ast.BoolOp) and isinstance(e.op, ast.Or) and len(e.values) == 2 and isinstance(e.values[1], ast.Dict) \
                and not e.values[1].keys and self.cfg.get("kdict_or_empty"):
            # cfg["kdict_or_empty"]: `x or {}` with x a (possibly None) `kdict`: x when it is a non-empty dict, else an empty dict -
            # as a VALUE that is x's content, or [] for None (PyRt.opt_or_empty); aliasing is not modelled
            a, at = self.expr(e.values[0], env, hoist)
            if at[0] == "opt" and at[1][0] == "kdict":
                return "(opt_or_empty %s)" % a, at[1]
            if at[0] == "kdict":
                return a, at
            raise Unsupported("`x or {}` on a %s" % (at,))
        if isinstance(e, ast.DictComp):
            # {k(x): v(x) for x in L}  ->  fold_left (fun d x => dict_set d k v) L []; neither k nor v may raise
            if len(e.generators) == 1 and self.items_comp(e.generators[0], env) is not None:
                return self.dictcomp_over_items(e, env, hoist)
            if len(e.generators) != 1 or e.generators[0].is_async or e.generators[0].ifs \
                    or not isinstance(e.generators[0].target, ast.Name):
                raise Unsupported("dict comprehension other than {k(x): v(x) for x in L}: " + ast.unparse(e))
            g = e.generators[0]
            l, lt = self.expr(g.iter, env, hoist)
            if lt[0] != "list":
                raise Unsupported("dict comprehension over a %s" % (lt,))
            env2 = dict(env)
            env2[g.target.id] = lt[1]
            inner = []
            kk, kt = self.expr(e.key, env2, inner)
            kk = self.need(kk, kt, ("Z",), inner)
            vv, vt = self.expr(e.value, env2, inner)
            if inner and self.cfg.get("effectful_dictcomp"):
                # a key / value that may raise (or draw): element by element from the left, the key before the value,
                # through the monad's fold; the first exception aborts
                d, n = self.new("d"), self.new("dc")
                body = "".join("%s %s <- %s; " % (self.M["bind"], a, t) for a, t in inner) \
                    + "%s (dict_set %s %s %s)" % (self.M["ok"], d, kk, vv)
                hoist.append((n, "%s (fun %s %s => %s) %s []" % (self.M["fold"], d, g.target.id, body, l)))
                return n, ("dictof", vt)
            if inner:
                raise Unsupported("dict comprehension key / value that may raise: " + ast.unparse(e))
            d = self.new("d")
            return "(fold_left (fun %s %s => dict_set %s %s %s) %s [])" % (d, g.target.id, d, kk, vv, l), ("dictof", vt)
        if isinstance(e, ast.ListComp):
            # [f(x) for x in L if P]  ->  map (fun x => f) (filter (fun x => P) L); neither f nor P may raise
            if len(e.generators) == 1 and not e.generators[0].is_async and self.tuple_comp_target(e.generators[0].target):
                return self.tuple_comp(e, env, hoist)
            if len(e.generators) != 1 or e.generators[0].is_async or not isinstance(e.generators[0].target, ast.Name):
                raise Unsupported("comprehension other than [f(x) for x in L if P]: " + ast.unparse(e))
            g = e.generators[0]
            l, lt = self.expr(g.iter, env, hoist)
            if lt[0] != "list":
                raise Unsupported("comprehension over a %s" % (lt,))
            x = g.target.id
            env2 = dict(env)
            env2[x] = lt[1]
            inner = []
            conds = [self.cond(c, env2, inner) for c in g.ifs]
            if inner and len(g.ifs) == 1 and not isinstance(g.ifs[0], ast.BoolOp) and self.M["type"] == "result":
                # a condition that may raise: evaluated element by element from the left (Lib/PyRt.res_filter)
                n = self.new("l")
                body = "".join("dor %s <- %s; " % nt for nt in inner) + "Ok " + conds[0]
                hoist.append((n, "res_filter (fun %s => %s) %s" % (x, body, l)))
                l, conds, inner = n, [], []
            src = "(filter (fun %s => %s) %s)" % (x, " && ".join(conds), l) if conds else l
            if isinstance(e.elt, ast.Name) and e.elt.id == x:
                out = src, lt
            else:
                pure_conds = not inner and (bool(conds) or not g.ifs)     # no condition may raise (none was turned into a res_filter)
                f, ft = self.expr(e.elt, env2, inner)
                out = "(map (fun %s => %s) %s)" % (x, f, src), ("list", ft)
                if inner and pure_conds and self.M["type"] == "result":
                    # an element that may raise: evaluated element by element from the left (Lib/Sexp.res_map_all)
                    n = self.new("l")
                    body = "".join("dor %s <- %s; " % nt for nt in inner) + "Ok " + f
                    hoist.append((n, "res_map_all (fun %s => %s) %s" % (x, body, src)))
                    out, inner = (n, ("list", ft)), []
            if inner:
                raise Unsupported("comprehension element / condition that may raise: " + ast.unparse(e))
            return out
        if isinstance(e, ast.Tuple):
            parts = [self.expr(x, env, hoist) for x in e.elts]
            return "(" + ", ".join(p[0] for p in parts) + ")", ("tuple", tuple(p[1] for p in parts))
        if isinstance(e, ast.BinOp):
            l, lt = self.expr(e.left, env, hoist)
            r, rt = self.expr(e.right, env, hoist)
            if isinstance(e.op, ast.Add) and (lt[0] == "list" or rt[0] == "list"):
                return "(%s ++ %s)" % (l, r), (lt if lt[0] == "list" else rt)
            if lt == rt and len(lt) == 1 and lt[0] in self.cfg.get("arith", {}):      # cfg["arith"]: a declared numeric type
                fn = self.cfg["arith"][lt[0]].get(type(e.op).__name__)
                if fn is None:
                    raise Unsupported("operator not declared for %s: %s" % (lt[0], ast.unparse(e)))
                return "(%s %s %s)" % (fn, l, r), lt
            l, r = self.need(l, lt, ("Z",), hoist), self.need(r, rt, ("Z",), hoist)
            ops = {ast.Add: "+", ast.Sub: "-", ast.Mult: "*", ast.FloorDiv: "/", ast.Mod: "mod"}
            if type(e.op) not in ops:
                raise Unsupported("operator: " + ast.unparse(e))
            if isinstance(e.op, (ast.FloorDiv, ast.Mod)) and self.cfg.get("checked_div") is not None:
                # cfg["checked_div"]: ZeroDivisionError (Err tag) when the divisor is 0, evaluated after both operands
                if self.M["type"] != "result":
                    raise Unsupported("checked division under a non-default monad: " + ast.unparse(e))
                n = self.new("r")
                hoist.append((n, "%s (%d) %s %s" % ("checked_div" if isinstance(e.op, ast.FloorDiv) else "checked_mod",
                                                    self.cfg["checked_div"], l, r)))
                return n, ("Z",)
            if type(e.op) in (ast.FloorDiv, ast.Mod) and self.cfg.get("zero_division") is not None and self.M["type"] == "result":
                # cfg["zero_division"]: a checked division (ZeroDivisionError = Err tag when the divisor is 0)
                n = self.new("r")
                hoist.append((n, "%s (%d) %s %s" % ("z_floordiv" if isinstance(e.op, ast.FloorDiv) else "z_mod", self.cfg["zero_division"], l, r)))
                return n, ("Z",)
            return "(%s %s %s)" % (l, ops[type(e.op)], r), ("Z",)
        if isinstance(e, ast.UnaryOp) and isinstance(e.op, ast.USub):
            v, t = self.expr(e.operand, env, hoist)
            return "(- %s)" % self.need(v, t, ("Z",), hoist), ("Z",)
        if isinstance(e, ast.UnaryOp) and isinstance(e.op, ast.Not):
            return "(negb %s)" % self.cond(e.operand, env, hoist), ("bool",)
        if isinstance(e, ast.BoolOp):
            parts = [self.cond(e.values[0], env, hoist)]
            op = " && " if isinstance(e.op, ast.And) else " || "
            for x in e.values[1:]:
                later = []
                px = self.cond(x, env, later)
                if later:     # Python short-circuits: an operand that may raise must not be evaluated before the first
                    if not self.cfg.get("short_circuit"):
                        raise Unsupported("and/or whose later operand may raise (hoisting it would evaluate it unconditionally): " + ast.unparse(e))
                    # cfg["short_circuit"]: the operand's computation is bound INSIDE the branch in which Python evaluates it
                    sofar = parts[0] if len(parts) == 1 else "(" + op.join(parts) + ")"
                    inner = "".join("%s %s <- %s; " % (self.M["bind"], a, t) for a, t in later) + "%s %s" % (self.M["ok"], px)
                    n = self.new("b")
                    if isinstance(e.op, ast.And):
                        hoist.append((n, "(if %s then (%s) else %s false)" % (sofar, inner, self.M["ok"])))
                    else:
                        hoist.append((n, "(if %s then %s true else (%s))" % (sofar, self.M["ok"], inner)))
                    parts = [n]
                else:
                    parts.append(px)
            if len(parts) == 1:
                return parts[0], ("bool",)
            return "(" + op.join(parts) + ")", ("bool",)
        if isinstance(e, ast.Compare):
            if len(e.ops) != 1:
                raise Unsupported("chained comparison: " + ast.unparse(e))
            return self.compare(e.left, e.ops[0], e.comparators[0], env, hoist), ("bool",)
        if isinstance(e, ast.Subscript) and not isinstance(e.slice, (ast.Slice, ast.Tuple)) and self.cfg.get("strings"):
            r = self.strdict_or_tuple_subscript(e, env, hoist)      # d[k] on a `strdict T`, t[i] on a tuple (cfg["strings"])
            if r is not None:
                return r
        if isinstance(e, ast.Subscript) and not isinstance(e.slice, (ast.Slice, ast.Tuple)) and self.M["type"] == "result":
            # d[k] read on a `dict T`: checked lookup (PyRt.dict_get, KeyError = Err 96); any other subscript is refused
            mark = len(hoist)
            d, dt = self.expr(e.value, env, hoist)
            if dt[0] == "kdict":      # d[k] on a `kdict K V`: KeyError = Err cfg["key_error"] (refused when that tag is not declared)
                if self.cfg.get("key_error") is None:
                    raise Unsupported("read of a typed-key dict without a declared key_error: " + ast.unparse(e))
                kk, kt = self.expr(e.slice, env, hoist)
                n = self.new("r")
                hoist.append((n, "kdict_get %s (%d) %s %s" % (self.key_eqb(dt[1]), self.cfg["key_error"], d, self.need(kk, kt, dt[1], hoist))))
                return n, dt[2]
            if dt[0] != "dictof":
                del hoist[mark:]
                raise Unsupported("subscript of a %s: %s" % (dt, ast.unparse(e)))
            kk, kt = self.expr(e.slice, env, hoist)
            n = self.new("r")
            hoist.append((n, "dict_get %s %s" % (d, self.need(kk, kt, ("Z",), hoist))))
            return n, dt[1]
        if isinstance(e, ast.IfExp) and self.cfg.get("ifexp"):
            # cfg["ifexp"]: `a if c else b` - the test first, then one arm; an arm's raising / drawing calls are bound inside it
            c = self.cond(e.test, env, hoist)
            ha, hb = [], []
            a, at = self.expr(e.body, env, ha)
            b, bt = self.expr(e.orelse, env, hb)
            if at != bt or at in (NONE_T, EMPTY_T):
                raise Unsupported("conditional expression whose arms have the types %s and %s: %s" % (at, bt, ast.unparse(e)))
            if not ha and not hb:
                return "(if %s then %s else %s)" % (c, a, b), at
            arm = lambda h, v: "".join("%s %s <- %s; " % (self.M["bind"], x, t) for x, t in h) + "%s %s" % (self.M["ok"], v)
            n = self.new("r")
            hoist.append((n, "(if %s then (%s) else (%s))" % (c, arm(ha, a), arm(hb, b))))
            return n, at
        raise Unsupported("expression: " + ast.unparse(e))

    # ---- cfg["strings"]: str constants, dicts with string keys, constant tuple indices; cfg["dataclass"]
    def strdict_elem(self, vt):
        """the value type of a dict display: cfg["strdict_elem"] when declared (every value is coerced to it), else [vt]"""
        return parse_type(self.cfg["strdict_elem"]) if self.cfg.get("strdict_elem") else vt

    def strdict_literal(self, e, env, hoist):
        """{k1: v1, ..., kn: vn} with keys of type str: the entries are inserted from the left (PyRt.sdict_set: a repeated key
        keeps its first place and gets the last value); keys and values are evaluated in source order"""
        if any(k is None for k in e.keys):
            raise Unsupported("dict display with ** unpacking: " + ast.unparse(e)[:80])
        term, et = "[]", None
        for kn, vn in zip(e.keys, e.values):
            kk, kt = self.expr(kn, env, hoist)
            kk = self.need(kk, kt, ("pystr",), hoist)
            vv, vt = self.expr(vn, env, hoist)
            if et is None:
                et = self.strdict_elem(vt)
            term = "(sdict_set %s %s %s)" % (term, kk, self.need(vv, vt, et, hoist))
        return term, ("strdict", et)

    def dataclass_dict(self, e, env, hoist):
        """x.__dict__ with x an instance of the function's own @dataclass (cfg["dataclass"], checked against the class body by
        check_dataclass): the dict {field: x.field} over the fields in declaration order"""
        dc = self.cfg["dataclass"]
        o, ot = self.expr(e.value, env, hoist)
        if ot != parse_type(dc["owner"]):
            raise Unsupported("__dict__ of a %s (the dataclass is declared as %s)" % (ot, dc["owner"]))
        term, et = "[]", None
        for name in dc["fields"]:
            if name not in self.fields or self.fields[name][0] != ot:
                raise Unsupported("dataclass field %s is not a declared field of %s" % (name, dc["owner"]))
            _, fty, getter, _ = self.fields[name]
            if et is None:
                et = self.strdict_elem(fty)
            term = "(sdict_set %s %s %s)" % (term, str_literal(name), self.need("(" + getter.format(obj=o) + ")", fty, et, hoist))
        if et is None:
            raise Unsupported("__dict__ of a dataclass without fields")
        return term, ("strdict", et)

    def strdict_or_tuple_subscript(self, e, env, hoist):
        """d[k] with d : strdict T (a checked read, KeyError = Err cfg["key_error"]); t[i] with t of a tuple type and i a
        constant index within it (a projection).  None when the subscripted value is neither (the caller goes on)."""
        mark, saved = len(hoist), self.fresh
        try:
            d, dt = self.expr(e.value, env, hoist)
        except Unsupported:
            del hoist[mark:]
            self.fresh = saved
            return None
        if dt[0] == "strdict":
            tag = self.cfg.get("key_error")
            if tag is None or self.M["type"] != "result":
                raise Unsupported("read of a string-keyed dict without a declared key_error: " + ast.unparse(e))
            kk, kt = self.expr(e.slice, env, hoist)
            n = self.new("r")
            hoist.append((n, "sdict_read (%d) %s %s" % (tag, d, self.need(kk, kt, ("pystr",), hoist))))
            return n, dt[1]
        if dt[0] == "tuple" and isinstance(e.slice, ast.Constant) and isinstance(e.slice.value, int) \
                and not isinstance(e.slice.value, bool) and 0 <= e.slice.value < len(dt[1]):
            i, n = e.slice.value, len(dt[1])
            return self.tuple_proj(d, i, n), dt[1][i]
        del hoist[mark:]
        self.fresh = saved
        return None

    def tuple_proj(self, t, i, n):
        """component i of an n-tuple term: Coq's (a1, ..., an) is ((...(a1, a2), ...), an)"""
        if n == 1:
            return t
        for _ in range(n - 1 - max(i, 1)):
            t = "(fst %s)" % t
        return "(fst %s)" % t if i == 0 else "(snd %s)" % t

    def items_comp(self, g, env):
        """(d, k, v) when the generator is `for k, v in d.items()` with d a bound variable of type `dict T`, without a condition"""
        it = g.iter
        if g.is_async or g.ifs or not (isinstance(g.target, ast.Tuple) and len(g.target.elts) == 2
                                       and all(isinstance(x, ast.Name) for x in g.target.elts)):
            return None
        if not (isinstance(it, ast.Call) and isinstance(it.func, ast.Attribute) and it.func.attr == "items" and not it.args
                and not it.keywords and isinstance(it.func.value, ast.Name) and env.get(it.func.value.id, ("unit",))[0] == "dictof"):
            return None
        return it.func.value.id, g.target.elts[0].id, g.target.elts[1].id

    def dictcomp_over_items(self, e, env, hoist):
        """{k(a, b): v(a, b) for a, b in d.items()} with d : dict T: the left fold of dict_set over d's entries in insertion order
        (neither key nor value may raise)"""
        d, a, b = self.items_comp(e.generators[0], env)
        if a == b:
            raise Unsupported("dict comprehension binding one name twice: " + ast.unparse(e))
        env2 = dict(env)
        env2[a], env2[b] = ("Z",), env[d][1]
        inner = []
        kk, kt = self.expr(e.key, env2, inner)
        kk = self.need(kk, kt, ("Z",), inner)
        vv, vt = self.expr(e.value, env2, inner)
        if inner:
            raise Unsupported("dict comprehension key / value that may raise: " + ast.unparse(e))
        acc = self.new("d")
        return "(fold_left (fun %s '(%s, %s) => dict_set %s %s %s) %s [])" % (acc, a, b, acc, kk, vv, d), ("dictof", vt)
    # ---- dicts with keys of a declared type (`kdict K V`)
    def key_eqb(self, kt):
        """the equality test of a `kdict` key type: Z.eqb for ints, else the one declared in cfg["eqb"]"""
        if kt == ("Z",):
            return "Z.eqb"
        if len(kt) == 1 and kt[0] in self.eqb:
            return self.eqb[kt[0]]
        raise Unsupported("dict key type without a declared equality test: %s" % (kt,))

    def kdict_literal(self, e, env, hoist):
        """cfg["dict_literal_type"] = `kdict K V`: a non-empty dict literal {k1: v1, ...} of the function has that type; keys and
        values are evaluated in source order and coerced to K / V (cfg["coerce"]); a repeated key keeps its first place and
        takes the last value (successive kdict_set), as in Python"""
        ty = parse_type(self.cfg["dict_literal_type"])
        if ty[0] != "kdict" or any(kx is None for kx in e.keys):
            raise Unsupported("dict literal: " + ast.unparse(e)[:80])
        term = "[]"
        for kx, vx in zip(e.keys, e.values):
            kk, kt = self.expr(kx, env, hoist)
            kk = self.need(kk, kt, ty[1], hoist)
            vv, vt = self.expr(vx, env, hoist)
            term = "(kdict_set %s %s %s %s)" % (self.key_eqb(ty[1]), term, kk, self.need(vv, vt, ty[2], hoist))
        return term, ty

    def kdict_items_source(self, e, env):
        """the variable d when [e] is {K: V for a, b in d.items()} with d bound at a `kdict` type, else None"""
        if len(e.generators) != 1:
            return None
        g = e.generators[0]
        if g.is_async or g.ifs or not self.tuple_comp_target(g.target) or len(g.target.elts) != 2:
            return None
        it = g.iter
        if isinstance(it, ast.Call) and isinstance(it.func, ast.Attribute) and it.func.attr == "items" and not it.args and not it.keywords \
                and isinstance(it.func.value, ast.Name) and env.get(it.func.value.id, ("unit",))[0] == "kdict":
            return it.func.value.id
        return None

    def kdict_comp(self, e, env, hoist):
        """{key(a, b): val(a, b) for a, b in d.items()} over a `kdict K V`: the items in the dict's order, from the left, the key
        evaluated before the value (CPython >= 3.8), `kdict_set` into a dict that starts empty; when key / value may raise the
        monad's fold (the first exception aborts), otherwise fold_left.  The key expression's type needs an equality test."""
        d = self.kdict_items_source(e, env)
        _, kt0, vt0 = env[d]
        a, b = [x.id for x in e.generators[0].target.elts]
        if a == b:
            raise Unsupported("dict comprehension target: " + ast.unparse(e)[:80])
        env2 = dict(env)
        env2[a], env2[b] = kt0, vt0
        inner = []
        kk, kt = self.expr(e.key, env2, inner)
        vv, vt = self.expr(e.value, env2, inner)
        acc = self.new("d")
        step = "kdict_set %s %s %s %s" % (self.key_eqb(kt), acc, kk, vv)
        if not inner:
            return "(fold_left (fun %s '(%s, %s) => %s) %s [])" % (acc, a, b, step, d), ("kdict", kt, vt)
        if self.M["type"] != "result":
            raise Unsupported("dict comprehension whose key / value may raise under a non-default monad: " + ast.unparse(e)[:80])
        n = self.new("dc")
        body = "".join("dor %s <- %s; " % nt for nt in inner) + "Ok (%s)" % step
        hoist.append((n, "res_fold (fun %s '(%s, %s) => %s) %s []" % (acc, a, b, body, d)))
        return n, ("kdict", kt, vt)

    def tuple_comp_target(self, t):
        return isinstance(t, ast.Tuple) and len(t.elts) >= 2 and all(isinstance(x, ast.Name) for x in t.elts)

    def tuple_comp(self, e, env, hoist):
        """[f(a, b, ..) for a, b, .. in L] with L a list of tuples of that arity and no condition: map / res_map_all
        (element by element from the left, the first exception aborts) over a tuple pattern"""
        g = e.generators[0]
        if g.ifs:
            raise Unsupported("comprehension with a tuple target and a condition: " + ast.unparse(e))
        l, lt = self.expr(g.iter, env, hoist)
        names = [x.id for x in g.target.elts]
        if lt[0] != "list" or lt[1][0] != "tuple" or len(lt[1][1]) != len(names) or len(set(names)) != len(names):
            raise Unsupported("comprehension with a tuple target over a %s" % (lt,))
        env2 = dict(env)
        for n, t in zip(names, lt[1][1]):
            env2[n] = t
        inner = []
        f, ft = self.expr(e.elt, env2, inner)
        pat = "'(" + ", ".join(names) + ")"
        if not inner:
            return "(map (fun %s => %s) %s)" % (pat, f, l), ("list", ft)
        if self.M["type"] != "result":
            raise Unsupported("comprehension element that may raise under a non-default monad: " + ast.unparse(e))
        n = self.new("l")
        body = "".join("dor %s <- %s; " % nt for nt in inner) + "Ok " + f
        hoist.append((n, "res_map_all (fun %s => %s) %s" % (pat, body, l)))
        return n, ("list", ft)
    def pairdict_read(self, e, env, hoist):
        """d[(a, b)] with d bound at `pairdict T`: a checked read, KeyError = Err cfg["key_error"]"""
        tag = self.cfg.get("key_error")
        if tag is None or not (isinstance(e.slice, ast.Tuple) and len(e.slice.elts) == 2) or self.M["type"] != "result":
            raise Unsupported("subscript of a pair-keyed dict other than d[(a, b)] with a declared key_error: " + ast.unparse(e))
        a, at = self.expr(e.slice.elts[0], env, hoist)
        b, bt = self.expr(e.slice.elts[1], env, hoist)
        n = self.new("r")
        hoist.append((n, "pdict_read (%d) %s %s %s" % (tag, e.value.id, self.need(a, at, ("Z",), hoist), self.need(b, bt, ("Z",), hoist))))
        return n, env[e.value.id][1]

    def kwcall(self, e, env, hoist):
        """cfg["kwcalls"]: F(k1=e1, ..., kn=en) -> the callee's template over its full parameter list; a parameter the call
        site does not pass takes its declared default"""
        tmpl, ty, params = self.kwcalls[e.func.id]
        if e.args:
            raise Unsupported("positional argument in a keyword call: " + ast.unparse(e)[:80])
        declared = {p: pt for p, pt, _ in params}
        given = {}
        unpack = None
        for kw in e.keywords:      # source order = Python's evaluation order
            if kw.arg is None and self.cfg.get("type_error") is not None and self.M["type"] == "result" and kw is e.keywords[-1]:
                d, dt = self.expr(kw.value, env, hoist)      # F(k1=e1, ..., **d) with d : strdict T, the last argument
                if dt[0] != "strdict":
                    raise Unsupported("** unpacking of a %s: %s" % (dt, ast.unparse(e)[:80]))
                unpack = (d, dt[1])
                continue
            if kw.arg is None:
                raise Unsupported("**kwargs in a keyword call: " + ast.unparse(e)[:80])
            if kw.arg not in declared or kw.arg in given:
                raise Unsupported("keyword %s is not a declared parameter of %s" % (kw.arg, e.func.id))
            a, at = self.expr(kw.value, env, hoist)
            given[kw.arg] = self.need(a, at, declared[kw.arg], hoist)
        args = {}
        if unpack is not None:
            # the keys of d must be parameters the call does not pass itself (else TypeError); every other parameter is read
            # from d (a missing one is a TypeError too) and coerced to its declared type
            tag, (d, vt) = self.cfg["type_error"], unpack
            rest_params = [(p, pt) for p, pt, default in params if p not in given]
            if any(default is not None for p, pt, default in params if p not in given):
                raise Unsupported("** unpacking into a parameter with a default value: " + ast.unparse(e)[:80])
            hoist.append((self.new("u"), "sdict_only (%d) [%s] %s" % (tag, "; ".join(str_literal(p) for p, _ in rest_params), d)))
            read = {}
            for p, pt in rest_params:
                read[p] = self.new("kw")
                hoist.append((read[p], "sdict_read (%d) %s %s" % (tag, d, str_literal(p))))
            for p, pt in rest_params:      # the coercions (cfg["checked_coerce"] may raise) after the call's own TypeErrors
                given[p] = self.need(read[p], vt, pt, hoist)
        for p, pt, default in params:
            if p in given:
                args[p] = given[p]
            elif default is None:
                raise Unsupported("required argument %s of %s is not passed" % (p, e.func.id))
            else:
                args[p] = default
        if tmpl.startswith("!"):
            n = self.new("r")
            hoist.append((n, tmpl[1:].format(**args)))
            return n, ty
        return "(" + tmpl.format(**args) + ")", ty

    def dotted_callee(self, func, env):
        """`module.function` (as a cfg["kwcalls"] key) when [func] is an attribute of a plain name that is not a bound variable"""
        if isinstance(func, ast.Attribute) and isinstance(func.value, ast.Name) and func.value.id.endswith(SUFFIX) \
                and env.get(func.value.id, ("unit",)) == ("unit",):
            return rn(func.value.id[:-len(SUFFIX)] + "." + func.attr)
        return None

    def typed_effect_of(self, call):
        """cfg["typed_effects"]: (state variable, template, hole bindings, hole types) of the first pattern matching [call]"""
        for patn, var, tmpl, argtys in self.typed_effects:
            binds = {}
            if self.unify(patn, call, binds):
                return var, tmpl, binds, argtys
        return None

    def need(self, term, have, want, hoist):
        """coerce a term of type [have] to type [want]"""
        if have == want:
            return term
        if want[0] == "opt":
            if have == NONE_T:
                return "None"
            if have == want[1]:
                return "(Some %s)" % term
            if want[1][0] == "list" and have == EMPTY_T:
                return "(Some [])"
        if want[0] == "list" and have == EMPTY_T:
            return "[]"
        if want in (("dict",), ("set",)) and have == EMPTY_T:
            return "[]"
        if want[0] == "dictof" and have == EMPTY_T:
            return "[]"
        if want[0] == "pairdict" and have == EMPTY_T:
            return "[]"
        if want[0] == "strdict" and have == EMPTY_T:
            return "[]"
        if want[0] == "kdict" and have == EMPTY_T:
            return "[]"
        if {have, want} == {("dict",), ("dictof", ("Z",))}:
            return term
        co = self.coercion(have, want)
        if co is not None:
            return co(term)
        if have[0] == "opt" and have[1] == want:
            n = self.new("u")
            hoist.append((n, "%s %s" % (self.M["unwrap"], term)))
            return n
        for a, b, tmpl in self.cfg.get("checked_coerce", []):      # cfg["checked_coerce"]: a downcast that may raise
            if (parse_type(a), parse_type(b)) == (have, want) and self.M["type"] == "result":
                n = self.new("c")
                hoist.append((n, tmpl.format(x=term)))
                return n
        raise Unsupported("type mismatch: %s has type %s, needed %s" % (term, have, want))

    def coercion(self, have, want):
        """cfg["coerce"]: an upcast have -> want (a function on terms), also pointwise under list / dict; None if there is none"""
        if (have, want) in self.coerce:
            return lambda term: "(" + self.coerce[(have, want)].format(x=term) + ")"
        if have[0] == want[0] and have[0] in ("list", "dictof") and len(have) == 2 and len(want) == 2:
            inner = self.coercion(have[1], want[1])
            if inner is not None and have[0] == "list":
                return lambda term: "(map (fun c__ => %s) %s)" % (inner("c__"), term)
            if inner is not None:
                return lambda term: "(map (fun kv__ => (fst kv__, %s)) %s)" % (inner("(snd kv__)"), term)
        return None

    def cond(self, e, env, hoist):
        """a Python truth test"""
        v, t = self.expr(e, env, hoist)
        if t == ("bool",):
            return v
        if t[0] == "opt" and len(t[1]) == 1 and t[1][0] in self.cfg.get("truthy", {}):
            # cfg["truthy"] = {type name: Gallina predicate}: the truth value of an Optional object of that type is false for None,
            # else the declared predicate (bool(o)) - instead of the default "an opaque object is true"
            return "(match %s with Some o__ => %s o__ | None => false end)" % (v, self.cfg["truthy"][t[1][0]])
        if t[0] == "kdict":      # truth value of a dict: it is not empty
            return "(negb (is_nil %s))" % v
        if t[0] == "opt" and t[1][0] == "kdict":      # truth value of an Optional[dict]: None and {} are false
            return "(opt_list_truthy %s)" % v
        if t[0] == "opt" and t[1][0] == "list":
            return "(opt_list_truthy %s)" % v
        if t[0] == "list":
            return "(negb (is_nil %s))" % v
        if t[0] == "opt" and t[1][0] not in ("Z", "bool", "list", "dict", "set") and t[1] != ("dict",) and t[1] != ("set",):
            # an optional OBJECT (opaque type): truthy iff not None.  Optional ints / bools / containers are refused:
            # 0, False and empty containers are falsy too, `is_some` would be wrong for them
            return "(is_some %s)" % v
        if t == ("opt", ("Z",)):     # truth value of an Optional[int]: None and 0 are false (`if chunk_size:`)
            return "(opt_int_truthy %s)" % v
        if t == ("Z",):     # truth value of an int: it is not zero (`if not len(d)`, `if not n`)
            return "(negb (%s =? 0))" % v
        if t == ("Z",) and self.cfg.get("int_truthiness"):
            return "(negb (%s =? 0))" % v      # a plain int is true iff it is not 0
        raise Unsupported("truth value of a %s: %s" % (t, ast.unparse(e)))

    def compare(self, le, op, re, env, hoist):
        if isinstance(op, (ast.Is, ast.IsNot)):
            if not (isinstance(re, ast.Constant) and re.value is None):
                raise Unsupported("`is` other than `is None`")
            v, t = self.expr(le, env, hoist)
            if t[0] != "opt":
                raise Unsupported("`is None` on a non-option: " + ast.unparse(le))
            return ("(is_none %s)" if isinstance(op, ast.Is) else "(is_some %s)") % v
        if isinstance(op, (ast.In, ast.NotIn)) and isinstance(le, ast.Tuple) and len(le.elts) == 2 \
                and isinstance(re, ast.Name) and env.get(re.id, ("unit",))[0] == "pairdict":
            a, at = self.expr(le.elts[0], env, hoist)
            b, bt = self.expr(le.elts[1], env, hoist)
            r = "(pdict_mem %s %s %s)" % (re.id, self.need(a, at, ("Z",), hoist), self.need(b, bt, ("Z",), hoist))
            return r if isinstance(op, ast.In) else "(negb %s)" % r
        if isinstance(op, (ast.In, ast.NotIn)) and isinstance(re, ast.Name) and env.get(re.id, ("unit",))[0] == "strdict":
            x, xt = self.expr(le, env, hoist)      # k in d / k not in d on a string-keyed dict
            r = "(sdict_mem %s %s)" % (re.id, self.need(x, xt, ("pystr",), hoist))
            return r if isinstance(op, ast.In) else "(negb %s)" % r
        if isinstance(op, (ast.In, ast.NotIn)) and self.cfg.get("eqb_membership"):
            # cfg["eqb_membership"]: `x in L` with L : list T and T a type with a declared equality test (cfg["eqb"]):
            # Python compares x with the elements from the left (existsb)
            # (any other membership test falls through to the integer / dict / set forms below)
            probe, saved = [], self.fresh
            x, xt = self.expr(le, env, probe)
            c, ct = self.expr(re, env, probe)
            if ct[0] == "list" and ct[1] == xt and len(xt) == 1 and xt[0] in self.eqb:
                hoist.extend(probe)
                r = "(existsb (%s %s) %s)" % (self.eqb[xt[0]], x, c)
                return r if isinstance(op, ast.In) else "(negb %s)" % r
            self.fresh = saved
        if isinstance(op, (ast.In, ast.NotIn)):
            x, xt = self.expr(le, env, hoist)
            c, ct = self.expr(re, env, hoist)
            x = self.need(x, xt, ("Z",), hoist)
            if ct[0] == "opt":     # `a in None` is a TypeError
                c, ct = self.need(c, ct, ct[1], hoist), ct[1]
            if ct == ("dict",):
                r = "(dict_mem %s %s)" % (x, c)
            elif ct == ("set",) or ct == ("list", ("Z",)):
                r = "(zmem %s %s)" % (x, c)
            else:
                raise Unsupported("membership in a %s" % (ct,))
            return r if isinstance(op, ast.In) else "(negb %s)" % r
        l, lt = self.expr(le, env, hoist)
        r, rt = self.expr(re, env, hoist)
        if lt[0] == "tuple" and rt[0] == "tuple" and isinstance(op, (ast.Eq, ast.NotEq)):
            if not (isinstance(le, ast.Tuple) and isinstance(re, ast.Tuple) and len(le.elts) == len(re.elts)):
                raise Unsupported("tuple comparison: " + ast.unparse(le))
            parts = [self.compare(a, ast.Eq(), b, env, hoist) for a, b in zip(le.elts, re.elts)]
            r = "(" + " && ".join(parts) + ")"
            return r if isinstance(op, ast.Eq) else "(negb %s)" % r
        zops = {ast.Lt: "<?", ast.LtE: "<=?", ast.Gt: ">?", ast.GtE: ">=?", ast.Eq: "=?"}
        base = lt[1] if lt[0] == "opt" else lt
        if base == ("Z",) or rt == ("Z",):
            l, r = self.need(l, lt, ("Z",), hoist), self.need(r, rt, ("Z",), hoist)
            if isinstance(op, ast.NotEq):
                return "(negb (%s =? %s))" % (l, r)
            if type(op) not in zops:
                raise Unsupported("comparison: " + ast.unparse(le))
            return "(%s %s %s)" % (l, zops[type(op)], r)
        if lt == rt and lt[0] in self.eqb and isinstance(op, (ast.Eq, ast.NotEq)):
            r = "(%s %s %s)" % (self.eqb[lt[0]], l, r)
            return r if isinstance(op, ast.Eq) else "(negb %s)" % r
        raise Unsupported("comparison of %s and %s" % (lt, rt))

    # ---- statements
    def is_ignored(self, st):
        if isinstance(st, ast.Pass):
            return True
        if isinstance(st, ast.Expr) and isinstance(st.value, ast.Constant) and isinstance(st.value.value, str):
            return True
        if isinstance(st, ast.Expr):
            return any(self.unify(p, st.value, {}) for p in self.ignore)
        return False

    def assigned(self, stmts):
        """names a statement list may assign (in first-occurrence order)"""
        out = []

        def add(n):
            if n not in out:
                out.append(n)

        for st in stmts:
            if self.is_ignored(st):
                continue
            for node in (ast.walk(st) if self.expr_state_calls else ()):      # cfg["expr_state_calls"]: the state they rebind
                for patn, svars, _t, _v, _a in self.expr_state_calls:
                    if isinstance(node, ast.expr) and self.unify(patn, node, {}):
                        for n in svars:
                            add(n)
            if isinstance(st, ast.Assign) and any(self.unify(patn, st, {}) for patn, _v, _t in self.assign_effects):
                for patn, var, _t in self.assign_effects:
                    if self.unify(patn, st, {}):
                        add(var)
                        break
            elif self.retype_match(st) is not None:
                add(self.retype_match(st)[0])
            elif isinstance(st, ast.Assign):
                for patn, svars, _t, _v, _a in self.state_calls:
                    if self.unify(patn, st.value, {}):
                        for n in svars:
                            add(n)
                for patn, var, _s, _v, _t in self.effect_calls:
                    if self.unify(patn, st.value, {}):
                        add(var)
                for t in st.targets:
                    if self.cfg.get("nested_fields") and self.chain_roots(t) is not None:      # x.a.b = e, x.a.b[m] = v, (x.a.b, _, y) = e
                        for n in self.chain_roots(t):
                            add(n)
                        continue
                    if self.field_target(t) is not None:      # x.attr = e rebinds x
                        add(self.field_target(t))
                        continue
                    if isinstance(t, ast.Subscript) and self.field_target(t.value) is not None:      # x.attr[i] = v rebinds x
                        add(self.field_target(t.value))
                        continue
                    for n in ([t] if isinstance(t, ast.Name) else t.elts if isinstance(t, ast.Tuple) else []):
                        if isinstance(n, ast.Name):
                            add(n.id)
                        else:
                            raise Unsupported("assignment target: " + ast.unparse(st))
                    if isinstance(t, ast.Subscript) and isinstance(t.value, ast.Name):
                        add(t.value.id)        # d[k] = v
                        continue
                    if not isinstance(t, (ast.Name, ast.Tuple)):
                        raise Unsupported("assignment target: " + ast.unparse(st))
            elif isinstance(st, ast.AnnAssign) and isinstance(st.target, ast.Name) and st.value is not None:
                add(st.target.id)
            elif isinstance(st, ast.AugAssign) and any(self.unify(patn, st, {}) for patn, _v, _t in self.assign_effects):
                for patn, var, _t in self.assign_effects:     # an augmented store declared as an effect on a state variable
                    if self.unify(patn, st, {}):
                        add(var)
                        break
            elif isinstance(st, ast.AugAssign) and self.field_target(st.target) is not None:
                add(self.field_target(st.target))      # x.attr op= e rebinds x
            elif isinstance(st, ast.AugAssign):
                if isinstance(st.target, ast.Name):
                    add(st.target.id)
                elif isinstance(st.target, ast.Subscript) and isinstance(st.target.value, ast.Name):
                    add(st.target.value.id)
                elif self.field_target(st.target) is not None:      # x.attr += e rebinds x
                    add(self.field_target(st.target))
                else:
                    raise Unsupported("augmented target: " + ast.unparse(st))
            elif isinstance(st, ast.Expr) and self.typed_effect_of(st.value) is not None:
                add(self.typed_effect_of(st.value)[0])
            elif isinstance(st, ast.Expr):
                eff = self.effect_of(st.value)
                if eff:
                    add(eff[0])
                elif self.field_append(st.value) is not None:     # x.attr.append(e) rebinds x
                    add(self.field_append(st.value)[0])
                elif self.dd_append(st.value) is not None:        # d[k].append(e) / x.attr[k].append(e) rebinds d / x
                    add(self.dd_append(st.value)[0])
                elif isinstance(st.value, ast.Call) and isinstance(st.value.func, ast.Attribute) \
                        and st.value.func.attr in ("append", "add") and isinstance(st.value.func.value, ast.Name):
                    add(st.value.func.value.id)
                else:
                    raise Unsupported("expression statement: " + ast.unparse(st)[:80])
            elif isinstance(st, ast.If):
                for n in self.assigned(st.body) + self.assigned(st.orelse):
                    add(n)
            elif isinstance(st, ast.For):
                for n in self.targets(st.target, nested=True) + self.assigned(st.body):
                    if n != "_":
                        add(n)
                if st.orelse:
                    raise Unsupported("for/else")
            elif isinstance(st, (ast.Continue, ast.Raise, ast.Return, ast.Break)):
                pass
            elif isinstance(st, ast.Assert):
                pass
            elif isinstance(st, ast.While):
                for n in self.assigned(st.body):
                    add(n)
                if st.orelse:
                    raise Unsupported("while/else")
            elif isinstance(st, ast.With) and self.plain_with(st):
                for n in self.assigned(st.body):
                    add(n)
            elif isinstance(st, ast.With):
                for n in [self.with_item(st)[0]] + self.assigned(st.body):
                    add(n)
            elif isinstance(st, ast.Match):
                for c in st.cases:
                    for n in self.assigned(c.body):
                        add(n)
            elif isinstance(st, ast.Try) and self.cfg.get("except_tag_lists") is not None:
                for n in self.assigned(st.body) + [x for h in st.handlers for x in self.assigned(h.body)]:
                    add(n)
            elif isinstance(st, ast.Try) and (self.try_prims or self.cfg.get("except_tags") is not None):
                for n in self.assigned(st.body) + [x for h in st.handlers for x in self.assigned(h.body)]:
                    add(n)
            else:
                raise Unsupported("statement: " + ast.unparse(st)[:80])
        return out

    def targets(self, t, nested=False):
        if isinstance(t, ast.Name):
            return [t.id]
        if isinstance(t, ast.Tuple) and all(isinstance(x, ast.Name) for x in t.elts):
            return [x.id for x in t.elts]
        if nested and isinstance(t, ast.Tuple) and all(isinstance(x, (ast.Name, ast.Tuple)) for x in t.elts):
            return [n for x in t.elts for n in self.targets(x)]      # one level of nesting (loop targets only)
        raise Unsupported("loop target: " + ast.unparse(t))

    def effect_of(self, call):
        for pat, var, tmpl in self.effects:
            binds = {}
            if self.unify(pat, call, binds):
                return var, tmpl, binds
        return None

    def always_jumps(self, stmts):
        for st in stmts:
            if isinstance(st, (ast.Continue, ast.Raise, ast.Return, ast.Break)):
                return True
            if isinstance(st, ast.If) and st.orelse and self.always_jumps(st.body) and self.always_jumps(st.orelse):
                return True
        return False

    def has_jump(self, stmts, kinds):
        for st in stmts:
            if isinstance(st, kinds):
                return True
            if isinstance(st, ast.If) and (self.has_jump(st.body, kinds) or self.has_jump(st.orelse, kinds)):
                return True
            if isinstance(st, ast.With) and self.has_jump(st.body, kinds):
                return True
            if isinstance(st, (ast.For, ast.While)):
                inner = tuple(k for k in kinds if k is not ast.Continue and k is not ast.Break)
                if inner and self.has_jump(st.body, inner):
                    return True
        return False

    def raise_term(self, st, env):
        """the error value of a raise statement: declared per message fragment, either an integer tag (Err n) or a
        Gallina term template over the Python variables in scope ({name})"""
        txt = ast.unparse(st)
        for sub, tag in self.raises:
            if sub in txt.replace(SUFFIX, ""):
                if isinstance(tag, int):
                    return "Err (%d)" % tag
                names = {v[:-len(SUFFIX)]: v for v, t in env.items() if v.endswith(SUFFIX) and t != ("unit",)}
                try:
                    return tag.format(**names)
                except KeyError as e:
                    raise Unsupported("raise template needs a variable that is not bound here: %s" % e)
        raise Unsupported("raise without a declared tag: " + txt[:100])

    def bind_pat(self, names):
        """a tuple pattern in the binder position of the monad's bind notation: Lib/Sexp's `dor x <- e; k` declares
        `x pattern`, where a tuple is written without the quote that a `fun` binder needs"""
        p = tuple_pat(names)
        if p.startswith("'(") and self.M.get("bind_quote", "" if self.M["bind"] == "dor" else "'") == "":
            return p[1:]
        return p

    def bind_hoist(self, hoist, body, ind):
        out = ""
        for n, t in hoist:
            out += "%s%s %s <- %s;\n" % (ind, self.M["bind"], n, t)
        return out + body

    def block(self, stmts, env, k, ind):
        """Gallina term (text) of type `result T` for [stmts] followed by continuation [k]:
        k(env) -> text of a term of type `result T` in which the variables of env are in scope."""
        if not stmts:
            return k(env)
        st, rest = stmts[0], stmts[1:]
        if self.is_ignored(st):
            return self.block(rest, env, k, ind)
        hoist = []
        if isinstance(st, ast.AnnAssign) and isinstance(st.target, ast.Name) and st.value is not None and st.simple:
            st = ast.Assign(targets=[st.target], value=st.value)      # `x: T = e` is `x = e`
        if self.retype_match(st) is not None:
            return self.retype_store(st, rest, env, k, ind)
        if isinstance(st, ast.With) and self.plain_with(st):
            if self.has_jump(st.body, (ast.Continue,) if self.cfg.get("with_return") else (ast.Continue, ast.Return)):
                raise Unsupported("continue/return inside a with block")
            return self.block(list(st.body) + rest, env, k, ind)
        if isinstance(st, ast.Assign):
            for patn, var, tmpl in self.assign_effects:
                binds = {}
                if self.unify(patn, st, binds):
                    if var not in env or env[var] == ("unit",):
                        raise Unsupported("assignment effect on an unbound state variable: " + var)
                    args = {kk[2:]: self.expr(v, env, hoist)[0] for kk, v in binds.items()}
                    args["state"] = var
                    if tmpl.startswith("!"):   # an assignment effect that may raise: the template denotes a `result state`
                        return self.bind_hoist(hoist, "%s%s %s <- %s;\n" % (ind, self.M["bind"], var, tmpl[1:].format(**args)), ind) + self.block(rest, env, k, ind)
                    if tmpl.startswith("!"):     # an assignment effect that may raise: the template denotes a `result state`
                        return self.bind_hoist(hoist, "%s%s %s <- %s;\n" % (ind, self.M["bind"], var, tmpl[1:].format(**args)), ind) \
                            + self.block(rest, env, k, ind)
                    return self.bind_hoist(hoist, "%slet %s := %s in\n" % (ind, var, tmpl.format(**args)), ind) + self.block(rest, env, k, ind)
            if len(st.targets) != 1:
                raise Unsupported("multiple assignment: " + ast.unparse(st))
            tgt = st.targets[0]
            for patn, svars, tmpl, vty, argtys in self.state_calls:      # (a, b) = <state call>
                binds = {}
                if isinstance(tgt, ast.Tuple) and self.unify(patn, st.value, binds):
                    names = self.targets(tgt)
                    if any(v not in env or env[v] == ("unit",) for v in svars) or ("tuple", tuple(self.var_type(n) for n in names)) != vty \
                            or len(set(names)) != len(names):
                        raise Unsupported("state call: " + ast.unparse(st))
                    args = {}
                    for kk, v in binds.items():
                        a, at = self.expr(v, env, hoist)
                        args[kk[2:]] = self.need(a, at, argtys[kk[2:]], hoist) if kk[2:] in argtys else a
                    env2 = dict(env)
                    for n in names:
                        env2[n] = self.var_type(n)
                    txt = "%s%s %s <- %s;\n" % (ind, self.M["bind"], self.bind_pat(names + svars), tmpl.format(**args))
                    return self.bind_hoist(hoist, txt, ind) + self.block(rest, env2, k, ind)
            for patn, svars, tmpl, vty, argtys in self.state_calls:
                binds = {}
                if isinstance(tgt, ast.Name) and self.unify(patn, st.value, binds):
                    if any(v not in env or env[v] == ("unit",) for v in svars) or self.var_type(tgt.id) != vty:
                        raise Unsupported("state call: " + ast.unparse(st))
                    args = {}
                    for kk, v in binds.items():
                        a, at = self.expr(v, env, hoist)
                        args[kk[2:]] = self.need(a, at, argtys[kk[2:]], hoist) if kk[2:] in argtys else a
                    env2 = dict(env)
                    env2[tgt.id] = vty
                    txt = "%s%s %s <- %s;\n" % (ind, self.M["bind"], self.bind_pat([tgt.id] + svars), tmpl.format(**args))
                    return self.bind_hoist(hoist, txt, ind) + self.block(rest, env2, k, ind)
            if isinstance(tgt, ast.Subscript) and isinstance(tgt.value, ast.Name):      # d[k] = v on a `dict T`
                d = tgt.value.id
                dt = env.get(d)
                if dt is not None and dt[0] == "list" and self.cfg.get("mask_store") is not None and self.M["type"] == "result":
                    # a[m] = v with m a boolean mask (cfg["mask_store"]); any other subscript falls through
                    probe = []
                    mm, mt = self.expr(tgt.slice, env, probe)
                    if mt == ("list", ("bool",)):
                        hoist.extend(probe)
                        vv, vt = self.expr(st.value, env, hoist)
                        if vt == dt:
                            term = self.cfg["mask_store"]["array"].format(a=d, m=mm, v=vv)
                        else:
                            term = self.cfg["mask_store"]["scalar"].format(a=d, m=mm, v=self.need(vv, vt, dt[1], hoist))
                        return self.bind_hoist(hoist, "%sdor %s <- %s;\n" % (ind, d, term), ind) + self.block(rest, env, k, ind)
                if dt is not None and dt[0] == "list" and dt[1][0] == "list" and self.cfg.get("index_error") is not None \
                        and self.M["type"] == "result" and isinstance(tgt.slice, ast.Tuple) and len(tgt.slice.elts) == 2:
                    # a[i, j] = v on a 2-d array (list of rows): IndexError (tag cfg["index_error"]) when either index is out of range
                    ii, it = self.expr(tgt.slice.elts[0], env, hoist)
                    jj, jt = self.expr(tgt.slice.elts[1], env, hoist)
                    vv, vt = self.expr(st.value, env, hoist)
                    txt = "%sdor %s <- list_set2 (%d) %s %s %s %s;\n" % (
                        ind, d, self.cfg["index_error"], d, self.need(ii, it, ("Z",), hoist), self.need(jj, jt, ("Z",), hoist),
                        self.need(vv, vt, dt[1][1], hoist))
                    return self.bind_hoist(hoist, txt, ind) + self.block(rest, env, k, ind)
                if dt is not None and dt[0] == "list" and self.cfg.get("index_error") is not None and self.M["type"] == "result":
                    # a[i] = v on a list / numpy array: IndexError (tag cfg["index_error"]) outside -len..len-1
                    ii, it = self.expr(tgt.slice, env, hoist)
                    vv, vt = self.expr(st.value, env, hoist)
                    txt = "%sdor %s <- list_set (%d) %s %s %s;\n" % (ind, d, self.cfg["index_error"], d, self.need(ii, it, ("Z",), hoist),
                                                                     self.need(vv, vt, dt[1], hoist))
                    return self.bind_hoist(hoist, txt, ind) + self.block(rest, env, k, ind)
                if dt is not None and dt[0] == "pairdict":      # d[(a, b)] = v on a pair-keyed dict
                    if not (isinstance(tgt.slice, ast.Tuple) and len(tgt.slice.elts) == 2):
                        raise Unsupported("store to a pair-keyed dict other than d[(a, b)] = v: " + ast.unparse(st))
                    ka, kat = self.expr(tgt.slice.elts[0], env, hoist)
                    kb, kbt = self.expr(tgt.slice.elts[1], env, hoist)
                    vv, vt = self.expr(st.value, env, hoist)
                    term = "(pdict_set %s %s %s %s)" % (d, self.need(ka, kat, ("Z",), hoist), self.need(kb, kbt, ("Z",), hoist),
                                                       self.need(vv, vt, dt[1], hoist))
                    return self.bind_hoist(hoist, "%slet %s := %s in\n" % (ind, d, term), ind) + self.block(rest, env, k, ind)
                if dt is not None and dt[0] == "kdict":      # d[k] = v on a `kdict K V`: an existing key keeps its place, a new one goes last
                    vv, vt = self.expr(st.value, env, hoist)      # Python evaluates the right-hand side first
                    kk, kt = self.expr(tgt.slice, env, hoist)
                    term = "(kdict_set %s %s %s %s)" % (self.key_eqb(dt[1]), d, self.need(kk, kt, dt[1], hoist), self.need(vv, vt, dt[2], hoist))
                    return self.bind_hoist(hoist, "%slet %s := %s in\n" % (ind, d, term), ind) + self.block(rest, env, k, ind)
                if dt is None or dt[0] not in ("dict", "dictof"):
                    raise Unsupported("subscript assignment: " + ast.unparse(st))
                kk, kt = self.expr(tgt.slice, env, hoist)
                vv, vt = self.expr(st.value, env, hoist)
                term = "(dict_set %s %s %s)" % (d, self.need(kk, kt, ("Z",), hoist),
                                                self.need(vv, vt, dt[1] if dt[0] == "dictof" else ("Z",), hoist))
                return self.bind_hoist(hoist, "%slet %s := %s in\n" % (ind, d, term), ind) + self.block(rest, env, k, ind)
            for patn, var, st_t, val_t, vty in self.effect_calls:
                binds = {}
                if isinstance(tgt, ast.Name) and self.unify(patn, st.value, binds):
                    if var not in env or self.var_type(tgt.id) != vty:
                        raise Unsupported("effect call: " + ast.unparse(st))
                    args = {kk[2:]: self.expr(v, env, hoist)[0] for kk, v in binds.items()}
                    args["state"] = var
                    env2 = dict(env)
                    env2[tgt.id] = vty
                    txt = "%slet %s : %s := %s in\n%slet %s := %s in\n" % (
                        ind, tgt.id, coq_type(vty), val_t.format(**args), ind, var, st_t.format(**args))
                    return self.bind_hoist(hoist, txt, ind) + self.block(rest, env2, k, ind)
            if self.cfg.get("nested_fields"):      # stores through a chain of declared fields (x.a.b = e, x.a.b[m] = v, tuple targets)
                if self.field_chain(tgt) is not None:
                    return self.chain_assign(tgt, st.value, env, hoist, rest, k, ind)
                if isinstance(tgt, ast.Subscript) and self.field_chain(tgt.value) is not None:
                    return self.chain_mask_store(tgt, st.value, env, hoist, rest, k, ind)
                if isinstance(tgt, ast.Tuple) and any(isinstance(x, ast.Attribute) for x in tgt.elts):
                    return self.tuple_field_assign(tgt, st.value, env, hoist, rest, k, ind)
            if isinstance(tgt, ast.Subscript) and self.field_target(tgt.value) is not None:
                return self.field_item_store(tgt, st.value, env, hoist, rest, k, ind)
            if self.field_target(tgt) is not None:
                return self.field_store(tgt.value.id, tgt.attr, st.value, False, env, hoist, rest, k, ind)
            if isinstance(tgt, ast.Name):
                ty = self.var_type(tgt.id)
                v, vt = self.expr(st.value, env, hoist)
                if ty[0] == "alt":     # declared `T1 | T2`: this assignment binds the variable at the alternative the value has
                    if vt not in ty[1]:
                        raise Unsupported("assignment of a %s to %s, declared %s" % (vt, tgt.id, ty))
                    ty = vt
                if tgt.id[:-len(SUFFIX)] in self.cfg.get("retype", {}) and vt != ty and vt not in (NONE_T, EMPTY_T):
                    # cfg["retype"]: a variable the source re-uses at another declared type (x = x[0])
                    alts = [parse_type(t) for t in self.cfg["retype"][tgt.id[:-len(SUFFIX)]]]
                    if vt not in alts:
                        raise Unsupported("assignment of a %s to %s, declared %s or %s" % (vt, tgt.id, ty, alts))
                    ty = vt
                v = self.need(v, vt, ty, hoist)
                env2 = dict(env)
                env2[tgt.id] = ty
                return self.bind_hoist(hoist, "%slet %s : %s := %s in\n" % (ind, tgt.id, coq_type(ty), v), ind) + self.block(rest, env2, k, ind)
            names = self.targets(tgt)
            v, vt = self.expr(st.value, env, hoist)
            tys = tuple(self.var_type(n) for n in names)
            if vt[0] == "list" and self.cfg.get("unpack_error") is not None and self.M["type"] == "result" \
                    and all(t == vt[1] for t in tys) and len(set(names)) == len(names):
                # cfg["unpack_error"] = tag: (a, b, ..) = e with e a LIST: ValueError (Err tag) unless it has exactly that many items
                env2 = dict(env)
                for n, t in zip(names, tys):
                    env2[n] = t
                txt = "%smatch %s with\n%s| [%s] =>\n%s%s| _ => Err (%d)\n%send\n" % (
                    ind, v, ind, "; ".join(names), self.block(rest, env2, k, ind + "    "), ind, self.cfg["unpack_error"], ind)
                return self.bind_hoist(hoist, txt, ind)
            if vt != ("tuple", tys):
                raise Unsupported("tuple assignment of a %s to %s" % (vt, tys))
            env2 = dict(env)
            for n, t in zip(names, tys):
                env2[n] = t
            return self.bind_hoist(hoist, "%slet %s := %s in\n" % (ind, tuple_pat(names), v), ind) + self.block(rest, env2, k, ind)
        if isinstance(st, ast.AugAssign):
            for patn, var, tmpl in self.assign_effects:      # an augmented store declared as an effect (cfg["assign_effects"])
                binds = {}
                if self.unify(patn, st, binds):
                    if var not in env or env[var] == ("unit",):
                        raise Unsupported("assignment effect on an unbound state variable: " + var)
                    args = {kk[2:]: self.expr(v, env, hoist)[0] for kk, v in binds.items()}
                    args["state"] = var
                    if tmpl.startswith("!"):
                        return self.bind_hoist(hoist, "%s%s %s <- %s;\n" % (ind, self.M["bind"], var, tmpl[1:].format(**args)), ind) + self.block(rest, env, k, ind)
                    return self.bind_hoist(hoist, "%slet %s := %s in\n" % (ind, var, tmpl.format(**args)), ind) + self.block(rest, env, k, ind)
            if self.field_target(st.target) is not None:      # x.attr op= e  is  x.attr = x.attr op e
                load = ast.Attribute(value=ast.Name(id=st.target.value.id, ctx=ast.Load()), attr=st.target.attr, ctx=ast.Load())
                return self.field_store(st.target.value.id, st.target.attr, ast.BinOp(left=load, op=st.op, right=st.value), False,
                                        env, hoist, rest, k, ind)
            if isinstance(st.target, ast.Name):
                n = st.target.id
                if n not in env or env[n] == ("unit",):
                    raise Unsupported("augmented assignment to an unbound variable: " + n)
                v, _ = self.expr(ast.BinOp(left=ast.Name(id=n, ctx=ast.Load()), op=st.op, right=st.value), env, hoist)
                return self.bind_hoist(hoist, "%slet %s := %s in\n" % (ind, n, v), ind) + self.block(rest, env, k, ind)
            if self.field_target(st.target) is not None:      # x.attr += e  is  x.attr = x.attr + e
                load = ast.Attribute(value=ast.Name(id=st.target.value.id, ctx=ast.Load()), attr=st.target.attr, ctx=ast.Load())
                return self.field_store(st.target.value.id, st.target.attr, ast.BinOp(left=load, op=st.op, right=st.value),
                                        False, env, hoist, rest, k, ind)
            d = st.target.value.id
            if env.get(d) != ("dict",) or not isinstance(st.op, ast.Add):
                raise Unsupported("augmented subscript: " + ast.unparse(st))
            kk, kt = self.expr(st.target.slice, env, hoist)
            vv, vt = self.expr(st.value, env, hoist)
            term = "(dict_incr %s %s %s)" % (d, self.need(kk, kt, ("Z",), hoist), self.need(vv, vt, ("Z",), hoist))
            return self.bind_hoist(hoist, "%slet %s := %s in\n" % (ind, d, term), ind) + self.block(rest, env, k, ind)
        if isinstance(st, ast.Expr) and self.typed_effect_of(st.value) is not None:
            # cfg["typed_effects"]: the holes are coerced to their declared types (a refusal when they do not fit)
            var, tmpl, binds, argtys = self.typed_effect_of(st.value)
            if var not in env or env[var] == ("unit",):
                raise Unsupported("effect on an unbound state variable: " + var)
            args = {}
            for kk, v in binds.items():
                if kk[2:] not in argtys:
                    raise Unsupported("typed effect with an untyped hole: " + kk)
                a, at = self.expr(v, env, hoist)
                args[kk[2:]] = self.need(a, at, argtys[kk[2:]], hoist)
            args["state"] = var
            if tmpl.startswith("!"):
                return self.bind_hoist(hoist, "%s%s %s <- %s;\n" % (ind, self.M["bind"], var, tmpl[1:].format(**args)), ind) + self.block(rest, env, k, ind)
            return self.bind_hoist(hoist, "%slet %s := %s in\n" % (ind, var, tmpl.format(**args)), ind) + self.block(rest, env, k, ind)
        if isinstance(st, ast.Expr):
            eff = self.effect_of(st.value)
            if eff:
                var, tmpl, binds = eff
                if var not in env:
                    raise Unsupported("effect on an unbound state variable: " + var)
                args = {kk[2:]: self.expr(v, env, hoist)[0] for kk, v in binds.items()}
                args["state"] = var
                if tmpl.startswith("!"):   # an effect that may raise: template denotes a `result state`
                    return self.bind_hoist(hoist, "%s%s %s <- %s;\n" % (ind, self.M["bind"], var, tmpl[1:].format(**args)), ind) + self.block(rest, env, k, ind)
                return self.bind_hoist(hoist, "%slet %s := %s in\n" % (ind, var, tmpl.format(**args)), ind) + self.block(rest, env, k, ind)
            c = st.value
            if self.field_append(c) is not None:
                x, attr, arg = self.field_append(c)
                return self.field_store(x, attr, arg, True, env, hoist, rest, k, ind)
            if self.dd_append(c) is not None:
                return self.dd_store(c, env, hoist, rest, k, ind)
            if not (isinstance(c, ast.Call) and isinstance(c.func, ast.Attribute) and isinstance(c.func.value, ast.Name)):
                raise Unsupported("expression statement: " + ast.unparse(st)[:80])     # e.g. np.random.seed(0), f(x)
            n = c.func.value.id
            if n not in env or len(c.args) != 1 or c.keywords:
                raise Unsupported("method call: " + ast.unparse(st))
            v, vt = self.expr(c.args[0], env, hoist)
            if c.func.attr == "append" and env[n][0] == "list":
                term = "(%s ++ [%s])" % (n, self.need(v, vt, env[n][1], hoist))
            elif c.func.attr == "add" and env[n] == ("set",):
                term = "(set_add %s %s)" % (n, self.need(v, vt, ("Z",), hoist))
            else:
                raise Unsupported("method call: " + ast.unparse(st))
            return self.bind_hoist(hoist, "%slet %s := %s in\n" % (ind, n, term), ind) + self.block(rest, env, k, ind)
        if isinstance(st, ast.Assert):
            # cfg["assert_error"]: `assert e` is `if e then <rest> else Err tag` (AssertionError)
            tag = self.cfg.get("assert_error")
            if tag is None or self.M["type"] != "result" or (st.msg is not None and not isinstance(st.msg, ast.Constant)):
                raise Unsupported("assert (without a declared assert_error tag, or with a computed message): " + ast.unparse(st)[:80])
            c = self.cond(st.test, env, hoist)
            tb = self.block(rest, env, k, ind + "  ")
            return self.bind_hoist(hoist, "%sif %s then\n%s%selse\n%s  Err (%d)\n" % (ind, c, tb, ind, ind, tag), ind)
        if isinstance(st, ast.Raise):
            return "%s%s\n" % (ind, self.raise_term(st, env))
        if isinstance(st, ast.Continue):
            return k(env, jump="continue")
        if isinstance(st, ast.Break):
            return k(env, jump="break")
        if isinstance(st, ast.While):
            return self.while_loop(st, rest, env, k, ind)
        if isinstance(st, ast.Return) and st.value is None and self.cfg.get("implicit_return") is not None:
            return k(env, jump=("return_implicit",))     # a bare `return` of a method that denotes its final state
        if isinstance(st, ast.Return):
            if st.value is None:
                st = ast.Return(value=ast.Constant(value=None))     # `return` is `return None`
            mark = len(hoist)
            v, vt = self.expr(st.value, env, hoist)
            if self.ret_type[0] == "tuple" and isinstance(st.value, ast.Tuple):
                del hoist[mark:]      # need_ret evaluates the components itself: do not bind their hoisted calls twice
            v = self.need_ret(v, vt, st.value, env, hoist)
            return self.bind_hoist(hoist, k(env, jump=("return", v)), ind)
        if isinstance(st, ast.If) and self.default_idiom(st, env) is not None:
            # if x is None: x = e   with x : opt T bound and declared at type T  ->  x : T afterwards
            x, ty = self.default_idiom(st, env)
            v, vt = self.expr(st.body[0].value, env, hoist)
            v = self.need(v, vt, ty, hoist)
            if hoist:
                raise Unsupported("default value that may raise: " + ast.unparse(st.body[0]))
            env2 = dict(env)
            env2[x] = ty
            return "%slet %s : %s := match %s with Some v__ => v__ | None => %s end in\n" % (ind, x, coq_type(ty), x, v) \
                + self.block(rest, env2, k, ind)
        if isinstance(st, ast.If) and self.narrow_test(st, env) is not None:
            return self.narrow_if(st, rest, env, k, ind)
        if isinstance(st, ast.If):
            c = self.cond(st.test, env, hoist)
            bj, oj = self.always_jumps(st.body), self.always_jumps(st.orelse)
            if bj or oj:
                # the rest of the block runs only after the branch that does not jump
                tb = self.block(st.body + ([] if bj else rest), env, k, ind + "  ")
                te = self.block(st.orelse + ([] if oj else rest), env, k, ind + "  ")
                return self.bind_hoist(hoist, "%sif %s then\n%s%selse\n%s" % (ind, c, tb, ind, te), ind)
            if self.has_jump(st.body + st.orelse, (ast.Continue, ast.Return, ast.Break)) and self.cfg.get("tail_dup"):
                # cfg["tail_dup"]: the statements after the `if` are the tail of BOTH branches (what Python executes on either path)
                tb = self.block(st.body + rest, env, k, ind + "  ")
                te = self.block(st.orelse + rest, env, k, ind + "  ")
                return self.bind_hoist(hoist, "%sif %s then\n%s%selse\n%s" % (ind, c, tb, ind, te), ind)
            if self.has_jump(st.body + st.orelse, (ast.Continue, ast.Return, ast.Break)):
                raise Unsupported("an if with a branch that may, but need not, continue/return/break: " + ast.unparse(st.test))
            if self.cfg.get("tail_dup_raise") and self.has_jump(st.body + st.orelse, (ast.Raise,)):
                # cfg["tail_dup_raise"]: as cfg["tail_dup"], for an `if` one of whose branches may raise: the statements after
                # the `if` become the tail of both branches, so a variable that every non-raising path assigns stays bound
                tb = self.block(st.body + rest, env, k, ind + "  ")
                te = self.block(st.orelse + rest, env, k, ind + "  ")
                return self.bind_hoist(hoist, "%sif %s then\n%s%selse\n%s" % (ind, c, tb, ind, te), ind)
            allv = self.assigned(st.body + st.orelse)
            vs = [v for v in allv if v in env and env[v] != ("unit",)]
            both = [v for v in allv if v not in vs and v in self.plainly_assigned(st.body) and v in self.plainly_assigned(st.orelse)]
            alts = [v for v in both if self.vars.get(v, ("",))[0] == "alt"]
            if alts:
                # declared `T1 | T2` and assigned on both paths: carried out of the `if` only when both branches leave it at the
                # SAME alternative (a probe translation of the branches, discarded, finds the types); otherwise not carried
                probe, saved = [], self.fresh
                pr = lambda env2, jump=None: (probe.append(env2), "")[1]
                try:
                    self.block(st.body, env, pr, ind)
                    self.block(st.orelse, env, pr, ind)
                finally:
                    self.fresh = saved
                both = [v for v in both if v not in alts or (len(probe) == 2 and probe[0].get(v) == probe[1].get(v))]
            vs = [v for v in allv if v in vs or v in both]     # assigned on both paths: bound afterwards
            dropped = [v for v in allv if v not in vs]
            ret = lambda env2, jump=None: "%s    %s %s\n" % (ind, self.M["ok"], tuple_term(vs)) if jump is None else self.unsupported("jump in if")
            ends, ret0 = [], ret
            ret = lambda env2, jump=None: (ends.append(env2), ret0(env2, jump))[1]
            tb = self.block(st.body, env, ret, ind + "    ")
            te = self.block(st.orelse, env, ret, ind + "    ")
            txt = "%s%s %s <- (if %s then\n%s%s  else\n%s%s  );\n" % (ind, self.M["bind"], self.bind_pat(vs), c, tb, ind, te, ind)
            env_after = dict(env)
            for v in both:
                env_after[v] = self.var_type(v)     # (an alt-typed one is refined to its end-of-branch type just below)
            for v in vs:
                if self.vars.get(v, ("",))[0] == "alt":     # declared `T1 | T2`: the type it has where the branches end
                    tys = set(e2.get(v) for e2 in ends)
                    if len(tys) != 1 or len(ends) != 2:
                        raise Unsupported("variable %s leaves the branches of `%s` at different types" % (v, ast.unparse(st.test)))
                    env_after[v] = tys.pop()
            for v in dropped:
                txt += "%slet %s := tt in\n" % (ind, v)   # poison: a later read is a type error
                env_after[v] = ("unit",)
            return self.bind_hoist(hoist, txt, ind) + self.block(rest, env_after, k, ind)
        if isinstance(st, ast.For):
            return self.loop(st, rest, env, k, ind)
        if isinstance(st, ast.Match):
            return self.block([self.match_to_if(st)] + rest, env, k, ind)
        if isinstance(st, ast.Try) and self.cfg.get("except_tag_lists") is not None:
            return self.try_catch_lists(st, rest, env, k, ind)
        if isinstance(st, ast.Try) and self.try_prims:
            return self.try_stmt(st, rest, env, k, ind)
        if isinstance(st, ast.Try) and self.cfg.get("except_tags") is not None:
            return self.try_catch(st, rest, env, k, ind)
        if isinstance(st, ast.With):
            x, ctx = self.with_item(st)
            if self.has_jump(st.body, (ast.Continue,) if self.cfg.get("with_return") else (ast.Continue, ast.Return)):
                raise Unsupported("continue/return inside a with block")
            tmpl, ty, binds, argtys = ctx
            if self.var_type(x) != ty:
                raise Unsupported("with target %s declared %s, context gives %s" % (x, self.var_type(x), ty))
            args = {}
            for kk, v in binds.items():
                a, at = self.expr(v, env, hoist)
                args[kk[2:]] = self.need(a, at, argtys[kk[2:]], hoist) if kk[2:] in argtys else a
            env2 = dict(env)
            env2[x] = ty
            txt = "%slet %s : %s := %s in\n" % (ind, x, coq_type(ty), tmpl.format(**args))
            return self.bind_hoist(hoist, txt, ind) + self.block(list(st.body) + rest, env2, k, ind)
        raise Unsupported("statement: " + ast.unparse(st)[:80])

    # ---- cfg["plain_contexts"], cfg["retype_effects"]
    def plain_with(self, st):
        """`with E:` without a target, E a declared cfg["plain_contexts"] pattern"""
        return len(st.items) == 1 and st.items[0].optional_vars is None \
            and any(self.unify(p, st.items[0].context_expr, {}) for p in self.plain_contexts)

    def retype_match(self, st):
        """(variable, template, type before, type after, hole types, bindings) when [st] is a declared cfg["retype_effects"] statement"""
        if not isinstance(st, (ast.Assign, ast.Delete)):
            return None
        for patn, var, tmpl, before, after, argtys in self.retype_effects:
            binds = {}
            if self.unify(patn, st, binds):
                return var, tmpl, before, after, argtys, binds
        return None

    def retype_store(self, st, rest, env, k, ind):
        var, tmpl, before, after, argtys, binds = self.retype_match(st)
        if env.get(var) != before:
            raise Unsupported("in-place update `%s` of %s, which is not bound at %s here" % (ast.unparse(st)[:60], var, before))
        declared = self.var_type(var)
        if after != declared and not (declared[0] == "alt" and after in declared[1]):
            raise Unsupported("in-place update rebinds %s at a type it is not declared at: %s" % (var, after))
        hoist, args = [], {}
        for kk, v in binds.items():
            a, at = self.expr(v, env, hoist)
            args[kk[2:]] = self.need(a, at, argtys[kk[2:]], hoist) if kk[2:] in argtys else a
        args["state"] = var
        env2 = dict(env)
        env2[var] = after
        if tmpl.startswith("!"):
            if self.M["type"] != "result":
                raise Unsupported("in-place update that may raise under a non-default monad")
            n = self.new("r")
            txt = "%sdor %s <- %s;\n%slet %s : %s := %s in\n" % (ind, n, tmpl[1:].format(**args), ind, var, coq_type(after), n)
        else:
            txt = "%slet %s : %s := %s in\n" % (ind, var, coq_type(after), tmpl.format(**args))
        return self.bind_hoist(hoist, txt, ind) + self.block(rest, env2, k, ind)
    # ---- try / except around one declared primitive (cfg["try_prims"])
    def try_stmt(self, st, rest, env, k, ind):
        """try: T = <declared primitive>; S2 ... except: B   ->   bind a <- template; match a with ok x => T = x; S2 ...; rest | _ => B; rest end"""
        if st.orelse or st.finalbody or len(st.handlers) != 1:
            raise Unsupported("try statement other than try / one except")
        h = st.handlers[0]
        named = [rn("Exception")] + [rn(c) for c in self.cfg.get("try_except_classes", [])]
        if h.name is not None or not (h.type is None or (isinstance(h.type, ast.Name) and h.type.id in named)):
            raise Unsupported("except clause other than a bare `except:` / `except Exception:` / a class of cfg[\"try_except_classes\"]")
        jumps = (ast.Continue, ast.Return, ast.Break, ast.Raise)
        if any(isinstance(n, jumps) for part in (st.body, h.body) for x in part for n in ast.walk(x)):
            raise Unsupported("continue / break / return / raise inside try / except")
        first = st.body[0]
        if not (isinstance(first, ast.Assign) and len(first.targets) == 1):
            raise Unsupported("try body that does not start with an assignment of a declared primitive")
        for patn, tmpl, argtys, okpat, vty in self.try_prims:
            binds = {}
            if self.unify(patn, first.value, binds):
                hoist, args = [], {}
                for kk, v in binds.items():
                    a, at = self.expr(v, env, hoist)
                    args[kk[2:]] = self.need(a, at, argtys[kk[2:]], hoist) if kk[2:] in argtys else a
                ans, val = self.new("a"), self.new("tryval")
                env_ok = dict(env)
                env_ok[val] = vty
                ok_first = ast.copy_location(ast.Assign(targets=first.targets, value=ast.Name(id=val, ctx=ast.Load())), first)
                t_ok = self.block([ok_first] + list(st.body[1:]) + rest, env_ok, k, ind + "    ")
                t_ex = self.block(list(h.body) + rest, env, k, ind + "    ")
                txt = "%s%s %s <- %s;\n%smatch %s with\n%s| %s =>\n%s%s| _ =>\n%s%send\n" % (
                    ind, self.M["bind"], ans, tmpl.format(**args), ind, ans, ind, okpat.format(x=val), t_ok, ind, t_ex, ind)
                return self.bind_hoist(hoist, txt, ind)
        raise Unsupported("try body whose first statement is not a declared primitive: " + ast.unparse(first)[:80])

    def try_catch(self, st, rest, env, k, ind):
        """cfg["except_tags"] = {exception class name: tag (a Gallina term of type Z)}:
               try: B   except E: H        (one handler naming a declared class, no `as`, no else / finally)
        where B and H both always return (or raise), B assigns no variable and no statement follows: PyRt.res_catch tag B H"""
        if st.orelse or st.finalbody or len(st.handlers) != 1 or rest or self.M["type"] != "result":
            raise Unsupported("try statement other than a final try / one except: " + ast.unparse(st)[:60])
        h = st.handlers[0]
        tags = self.cfg["except_tags"]
        if h.name is not None or not isinstance(h.type, ast.Name) or h.type.id[:-len(SUFFIX)] not in tags:
            raise Unsupported("except clause that does not name one declared exception class: " + ast.unparse(st)[:60])
        if not (self.returns_always(st.body) and self.returns_always(h.body)) or self.assigned(st.body) \
                or self.has_jump(st.body + h.body, (ast.Continue, ast.Break)):
            raise Unsupported("try / except whose parts do not both end in a return, or whose body assigns a variable")
        tb = self.block(list(st.body), env, k, ind + "    ")
        th = self.block(list(h.body), env, k, ind + "    ")
        return "%sres_catch (%s) (\n%s%s  ) (\n%s%s  )\n" % (ind, tags[h.type.id[:-len(SUFFIX)]], tb, ind, th, ind)

    def returns_always(self, stmts):
        """every path through [stmts] ends in a return or a raise"""
        for s_ in stmts:
            if isinstance(s_, (ast.Return, ast.Raise)):
                return True
            if isinstance(s_, ast.If) and s_.orelse and self.returns_always(s_.body) and self.returns_always(s_.orelse):
                return True
        return False
    # ---- try / except over exception classes given as sets of error tags (cfg["except_tag_lists"])
    def try_catch_lists(self, st, rest, env, k, ind):
        """try: B except E [as n]: H   with E declared in cfg["except_tag_lists"] = {class name: [tags]} and H ending in a raise:
             dor (vs) <- res_catch_tags [tags] (B; Ok (vs)) (H);  rest
        PyRt.res_catch_tags runs the handler exactly when B ends in an Err whose tag is listed for E; any other Err passes through."""
        table = self.cfg["except_tag_lists"]
        if st.orelse or st.finalbody or len(st.handlers) != 1 or self.M["type"] != "result":
            raise Unsupported("try statement other than try / one except (default monad)")
        h = st.handlers[0]
        cls = h.type.id[:-len(SUFFIX)] if isinstance(h.type, ast.Name) and h.type.id.endswith(SUFFIX) else None
        if cls not in table:
            raise Unsupported("except clause over an undeclared exception class: " + (ast.unparse(h.type) if h.type is not None else "<bare>"))
        if any(isinstance(n, (ast.Continue, ast.Return, ast.Break)) for part in (st.body, h.body) for x in part for n in ast.walk(x)) \
                or any(isinstance(n, (ast.Raise, ast.Try)) for x in st.body for n in ast.walk(x)):
            raise Unsupported("continue / break / return inside try / except, or raise / try inside a try body")
        if not (h.body and isinstance(h.body[-1], ast.Raise)):
            raise Unsupported("except handler that does not end in a raise")
        top = []
        for x in st.body:
            if isinstance(x, ast.Assign) and len(x.targets) == 1:
                t = x.targets[0]
                top += [t.id] if isinstance(t, ast.Name) else [y.id for y in t.elts] if self.tuple_comp_target(t) else []
        bound = lambda v: v in env and env[v] != ("unit",)
        allv = self.assigned(st.body)
        vs = [v for v in allv if bound(v) or v in top]
        ends = []

        def ret(env2, jump=None):
            if jump is not None:
                raise Unsupported("jump in try")
            ends.append(env2)
            return "%s    Ok %s\n" % (ind, tuple_term(vs))

        def ret_h(env2, jump=None):
            raise Unsupported("except handler that may end without raising")

        tb = self.block(list(st.body), env, ret, ind + "    ")
        th = self.block(list(h.body), env, ret_h, ind + "    ")
        if len(ends) != 1:
            raise Unsupported("try body with more than one normal end")
        tags = "[" + "; ".join("(%d)" % t for t in table[cls]) + "]"
        txt = "%sdor %s <- res_catch_tags %s (\n%s%s  ) (\n%s%s  );\n" % (ind, self.bind_pat(vs), tags, tb, ind, th, ind)
        env_after = dict(env)
        for v in vs:
            env_after[v] = ends[0][v]
        for v in allv:
            if v not in vs:
                txt += "%slet %s := tt in\n" % (ind, v)   # poison: a later read is a type error
                env_after[v] = ("unit",)
        return txt + self.block(rest, env_after, k, ind)

    # ---- with blocks (cfg["contexts"]) and statement-run primitives (cfg["stmt_prims"])
    def with_item(self, st):
        """`with E as x:` with E a declared context -> (x, (template, type, hole bindings, hole types))"""
        if len(st.items) != 1 or not isinstance(st.items[0].optional_vars, ast.Name):
            raise Unsupported("with statement other than `with E as x`: " + ast.unparse(st)[:80])
        for pat, tmpl, ty, argtys in self.contexts:
            binds = {}
            if self.unify(pat, st.items[0].context_expr, binds):
                return st.items[0].optional_vars.id, (tmpl, ty, binds, argtys)
        raise Unsupported("with over an undeclared context: " + ast.unparse(st.items[0].context_expr))

    def rewrite_runs(self, stmts):
        """replace, in place and recursively, every run of statements matching a cfg["stmt_prims"] pattern by
        `target = STMTPRIM:i(hole=..., **read names)`"""
        j = 0
        while j < len(stmts):
            for i, (pats, target, _, _, _) in enumerate(self.stmt_prims):
                binds = {}
                if j + len(pats) <= len(stmts) and all(self.unify(p, q, binds) for p, q in zip(pats, stmts[j:j + len(pats)])):
                    stored = set(n.id for p in pats for n in ast.walk(p) if isinstance(n, ast.Name) and isinstance(n.ctx, ast.Store))
                    reads = list(dict.fromkeys(
                        n.id for p in pats for n in ast.walk(p)
                        if isinstance(n, ast.Name) and isinstance(n.ctx, ast.Load) and not n.id.startswith("__")
                        and n.id not in stored and n.id not in self.globals))
                    call = ast.Call(func=ast.Name(id="STMTPRIM:%d" % i, ctx=ast.Load()), args=[],
                                    keywords=[ast.keyword(arg=h[2:], value=v) for h, v in binds.items()]
                                    + [ast.keyword(arg=None, value=ast.Name(id=r, ctx=ast.Load())) for r in reads]
                                    + [ast.keyword(arg=None, value=ast.Name(id=r, ctx=ast.Store())) for r in sorted(stored - {target})])
                    new = ast.Assign(targets=[ast.Name(id=target, ctx=ast.Store())], value=call)
                    stmts[j:j + len(pats)] = [ast.copy_location(new, stmts[j])]
                    break
            st = stmts[j]
            for field in ("body", "orelse"):
                if isinstance(getattr(st, field, None), list) and not isinstance(st, ast.Match):
                    self.rewrite_runs(getattr(st, field))
            j += 1

    # ---- object attributes (cfg["fields"])
    def field_target(self, t):
        """x.attr with attr declared and x a plain variable -> the variable's name, else None"""
        if isinstance(t, ast.Attribute) and t.attr in self.fields and isinstance(t.value, ast.Name):
            return t.value.id
        return None

    def field_append(self, call):
        """x.attr.append(e) -> (x, attr, e), else None"""
        if isinstance(call, ast.Call) and isinstance(call.func, ast.Attribute) and call.func.attr == "append" \
                and len(call.args) == 1 and not call.keywords and self.field_target(call.func.value) is not None:
            return call.func.value.value.id, call.func.value.attr, call.args[0]
        return None

    def field_store(self, x, attr, value, append, env, hoist, rest, k, ind):
        """x.attr = value  /  x.attr.append(value): the variable x is rebound to the updated object"""
        owner, fty, getter, setter = self.fields[attr]
        if env.get(x) != owner:
            raise Unsupported("store to attribute %s of %s, which is not a bound %s" % (attr, x, owner))
        v, vt = self.expr(value, env, hoist)
        if append:
            if fty[0] != "list":
                raise Unsupported("append to a field that is not a list: " + attr)
            v = "(%s ++ [%s])" % (getter.format(obj=x), self.need(v, vt, fty[1], hoist))
        else:
            v = self.need(v, vt, fty, hoist)
        txt = "%slet %s : %s := %s in\n" % (ind, x, coq_type(owner), setter.format(obj=x, val=v))
        return self.bind_hoist(hoist, txt, ind) + self.block(rest, env, k, ind)

    def field_item_store(self, tgt, value, env, hoist, rest, k, ind):
        """x.attr[i] = v with attr a declared list field: PyRt.list_set on the field's value (IndexError = Err cfg["index_error"]),
        the variable x is rebound to the updated object"""
        x, attr = tgt.value.value.id, tgt.value.attr
        owner, fty, getter, setter = self.fields[attr]
        tag = self.cfg.get("index_error")
        if env.get(x) != owner or fty[0] != "list" or tag is None or self.M["type"] != "result" \
                or isinstance(tgt.slice, (ast.Slice, ast.Tuple)):
            raise Unsupported("item store to attribute %s of %s: %s" % (attr, x, ast.unparse(tgt)))
        ii, it = self.expr(tgt.slice, env, hoist)
        vv, vt = self.expr(value, env, hoist)
        a = self.new("a")
        txt = "%sdor %s <- list_set (%d) (%s) %s %s;\n%slet %s : %s := %s in\n" % (
            ind, a, tag, getter.format(obj=x), self.need(ii, it, ("Z",), hoist), self.need(vv, vt, fty[1], hoist),
            ind, x, coq_type(owner), setter.format(obj=x, val=a))
        return self.bind_hoist(hoist, txt, ind) + self.block(rest, env, k, ind)

    # ---- stores through a chain of declared fields (cfg["nested_fields"])
    def field_chain(self, t):
        """x.a1.a2...an with n >= 2, every ai a declared field and x a plain variable -> (x, [a1, ..., an]), else None"""
        attrs = []
        while isinstance(t, ast.Attribute) and t.attr in self.fields:
            attrs.append(t.attr)
            t = t.value
        if isinstance(t, ast.Name) and len(attrs) >= 2:
            return t.id, attrs[::-1]
        return None

    def chain_roots(self, t):
        """the variables a target of the cfg["nested_fields"] forms rebinds, or None when [t] is not such a target"""
        if self.field_chain(t) is not None:
            return [self.field_chain(t)[0]]
        if isinstance(t, ast.Subscript) and self.field_chain(t.value) is not None:
            return [self.field_chain(t.value)[0]]
        if isinstance(t, ast.Tuple) and any(isinstance(x, ast.Attribute) for x in t.elts):
            out = []
            for x in t.elts:
                if isinstance(x, ast.Name):
                    if x.id != "_":
                        out.append(x.id)
                elif self.field_target(x) is not None:
                    out.append(self.field_target(x))
                elif self.field_chain(x) is not None:
                    out.append(self.field_chain(x)[0])
                else:
                    raise Unsupported("assignment target: " + ast.unparse(t))
            return out
        return None

    def chain_getters(self, x, attrs, env):
        """the terms x, x.a1, x.a1.a2, ... (each the getter of the next field applied to the previous term) and the type of the
        innermost field; every field must be declared for the type the previous one has"""
        cur, ty, terms = x, env.get(x), [x]
        for a in attrs:
            owner, fty, getter, _ = self.fields[a]
            if ty != owner:
                raise Unsupported("store through attribute %s of a %s (declared for %s)" % (a, ty, owner))
            cur, ty = "(" + getter.format(obj=cur) + ")", fty
            terms.append(cur)
        return terms, ty

    def chain_store(self, x, attrs, terms, val, env, ind):
        """text of `x.a1...an = val` (val a term of the innermost field's type): the objects along the chain are rebuilt from the
        inside out by the fields' setters and the variable x is rebound.  A setter template starting with `!` denotes a
        `result owner` (a checked store)."""
        txt, cur = "", val
        for i in range(len(attrs) - 1, -1, -1):
            owner, _, _, setter = self.fields[attrs[i]]
            s = setter.format(obj=terms[i], val=cur)
            tgt = x if i == 0 else self.new("o")
            if setter.startswith("!"):
                if self.M["type"] != "result":
                    raise Unsupported("checked field store outside the default monad: " + attrs[i])
                txt += "%sdor %s <- %s;\n" % (ind, tgt, setter[1:].format(obj=terms[i], val=cur))
            else:
                txt += "%slet %s : %s := %s in\n" % (ind, tgt, coq_type(owner), s)
            cur = tgt
        return txt

    def chain_assign(self, tgt, value, env, hoist, rest, k, ind):
        """x.a1...an = e"""
        x, attrs = self.field_chain(tgt)
        v, vt = self.expr(value, env, hoist)      # Python evaluates the right-hand side first
        terms, fty = self.chain_getters(x, attrs, env)
        txt = self.chain_store(x, attrs, terms, self.need(v, vt, fty, hoist), env, ind)
        return self.bind_hoist(hoist, txt, ind) + self.block(rest, env, k, ind)

    def chain_mask_store(self, tgt, value, env, hoist, rest, k, ind):
        """x.a1...an[m] = v with the innermost field a `list T`, m : list bool (numpy boolean-mask assignment, cfg["mask_store"])"""
        x, attrs = self.field_chain(tgt.value)
        if self.cfg.get("mask_store") is None or self.M["type"] != "result" or isinstance(tgt.slice, (ast.Slice, ast.Tuple)):
            raise Unsupported("item store through a chain of attributes: " + ast.unparse(tgt))
        vv, vt = self.expr(value, env, hoist)      # right-hand side first, then the target's object and index expressions
        terms, fty = self.chain_getters(x, attrs, env)
        mm, mt = self.expr(tgt.slice, env, hoist)
        if fty[0] != "list" or mt != ("list", ("bool",)):
            raise Unsupported("item store through a chain of attributes that is not a boolean-mask store: " + ast.unparse(tgt))
        if vt == fty:
            term = self.cfg["mask_store"]["array"].format(a=terms[-1], m=mm, v=vv)
        else:
            term = self.cfg["mask_store"]["scalar"].format(a=terms[-1], m=mm, v=self.need(vv, vt, fty[1], hoist))
        a = self.new("a")
        txt = "%sdor %s <- %s;\n" % (ind, a, term) + self.chain_store(x, attrs, terms, a, env, ind)
        return self.bind_hoist(hoist, txt, ind) + self.block(rest, env, k, ind)

    def tuple_field_assign(self, tgt, value, env, hoist, rest, k, ind):
        """(T1, ..., Tn) = e with every Ti a declared variable, `_`, or a (chain of) declared field(s) of a bound variable: the
        components are bound to fresh names, then the stores run from left to right, as in Python"""
        v, vt = self.expr(value, env, hoist)
        if vt[0] != "tuple" or len(vt[1]) != len(tgt.elts):
            raise Unsupported("tuple assignment of a %s to %s" % (vt, ast.unparse(tgt)))
        tmps = ["_" if isinstance(x, ast.Name) and x.id == "_" else self.new("t") for x in tgt.elts]
        txt = "%slet %s := %s in\n" % (ind, tuple_pat(tmps), v)
        env2 = dict(env)
        late = []      # unwraps needed by the components (bound after the tuple is taken apart)
        for x, tmp, ty in zip(tgt.elts, tmps, vt[1]):
            if isinstance(x, ast.Name) and x.id == "_":
                continue
            if isinstance(x, ast.Name):
                if self.var_type(x.id) != ty:
                    raise Unsupported("tuple assignment of a %s to %s, declared %s" % (ty, x.id, self.var_type(x.id)))
                env2[x.id] = ty
                txt += "%slet %s : %s := %s in\n" % (ind, x.id, coq_type(ty), tmp)
                continue
            chain = self.field_chain(x) or ((self.field_target(x), [x.attr]) if self.field_target(x) is not None else None)
            if chain is None:
                raise Unsupported("assignment target: " + ast.unparse(x))
            terms, fty = self.chain_getters(chain[0], chain[1], env2)
            val = self.need(tmp, ty, fty, late)
            txt += self.bind_hoist(late, "", ind) + self.chain_store(chain[0], chain[1], terms, val, env2, ind)
            del late[:]
        return self.bind_hoist(hoist, txt, ind) + self.block(rest, env2, k, ind)

    # ---- defaultdict(list) buckets (cfg["defaultdict_list"])
    def dd_append(self, call):
        """d[k].append(e) with d a variable, or a declared field x.attr, listed in cfg["defaultdict_list"]
        -> (the variable that is rebound, attr or None, k, e), else None"""
        names = self.cfg.get("defaultdict_list", [])
        if not (isinstance(call, ast.Call) and isinstance(call.func, ast.Attribute) and call.func.attr == "append"
                and len(call.args) == 1 and not call.keywords and isinstance(call.func.value, ast.Subscript)):
            return None
        d = call.func.value.value
        if isinstance(d, ast.Name) and d.id in [rn(n) for n in names]:
            return d.id, None, call.func.value.slice, call.args[0]
        if self.field_target(d) is not None and d.attr in names:
            return d.value.id, d.attr, call.func.value.slice, call.args[0]
        return None

    def dd_store(self, call, env, hoist, rest, k, ind):
        """d[k].append(e) on a defaultdict(list): PyRt.dict_append; the variable (the object) is rebound"""
        x, attr, key, arg = self.dd_append(call)
        if attr is None:
            dt, cur = env.get(x), x
        else:
            owner, dt, getter, setter = self.fields[attr]
            if env.get(x) != owner:
                raise Unsupported("bucket append to attribute %s of %s, which is not a bound %s" % (attr, x, owner))
            cur = "(" + getter.format(obj=x) + ")"
        if dt is None or dt[0] != "dictof" or dt[1][0] != "list":
            raise Unsupported("bucket append to something that is not a dict of lists: " + ast.unparse(call))
        kk, kt = self.expr(key, env, hoist)
        vv, vt = self.expr(arg, env, hoist)
        term = "(dict_append %s %s %s)" % (cur, self.need(kk, kt, ("Z",), hoist), self.need(vv, vt, dt[1][1], hoist))
        if attr is None:
            txt = "%slet %s := %s in\n" % (ind, x, term)
        else:
            txt = "%slet %s : %s := %s in\n" % (ind, x, coq_type(owner), setter.format(obj=x, val=term))
        return self.bind_hoist(hoist, txt, ind) + self.block(rest, env, k, ind)
    def narrow_test(self, st, env):
        """cfg["narrow_none"]: (x, T, body when x is not None, body when x is None) if [st] tests exactly `x is None` /
        `x is not None` for a variable bound at opt T and declared at T"""
        t = st.test
        if not self.cfg.get("narrow_none") or self.M["type"] != "result":
            return None
        if not (isinstance(t, ast.Compare) and len(t.ops) == 1 and isinstance(t.ops[0], (ast.Is, ast.IsNot)) and isinstance(t.left, ast.Name)
                and isinstance(t.comparators[0], ast.Constant) and t.comparators[0].value is None):
            return None
        x = t.left.id
        if not (x in env and env[x][0] == "opt" and self.vars.get(x) == env[x][1]):
            return None
        some, none = (st.orelse, st.body) if isinstance(t.ops[0], ast.Is) else (st.body, st.orelse)
        return x, env[x][1], list(some), list(none)

    def narrow_if(self, st, rest, env, k, ind):
        """match x with Some v => let x := v in <x is not None> | None => <x is None> end"""
        x, ty, some, none = self.narrow_test(st, env)
        v = self.new("v")
        env_some = dict(env)
        env_some[x] = ty
        head = "%s  | Some %s =>\n%s    let %s : %s := %s in\n" % (ind, v, ind, x, coq_type(ty), v)
        sj, nj = self.always_jumps(some), self.always_jumps(none)
        if sj or nj:
            ts = self.block(some + ([] if sj else rest), env_some, k, ind + "    ")
            tn = self.block(none + ([] if nj else rest), env, k, ind + "    ")
            return "%smatch %s with\n%s%s%s  | None =>\n%s%s  end\n" % (ind, x, head, ts, ind, tn, ind)
        if self.has_jump(some + none, (ast.Continue, ast.Return)):
            raise Unsupported("a None test with a branch that may, but need not, continue/return: " + ast.unparse(st.test))
        allv = self.assigned(some + none)
        vs = [w for w in allv if w in env and env[w] != ("unit",)]
        dropped = [w for w in allv if w not in vs]
        ends = []

        def ret(env2, jump=None):
            if jump is not None:
                raise Unsupported("jump in if")
            ends.append(env2)
            return "%s      %s %s\n" % (ind, self.M["ok"], tuple_term(vs))

        ts = self.block(some, env_some, ret, ind + "      ")
        tn = self.block(none, env, ret, ind + "      ")
        env_after = dict(env)
        for w in vs:
            tys = set(e2[w] for e2 in ends)
            if len(tys) != 1:
                raise Unsupported("variable %s leaves the branches of `%s` at different types" % (w, ast.unparse(st.test)))
            env_after[w] = tys.pop()
        # the bind notation takes a pattern (no quote), unlike `fun`
        pat = "_" if not vs else vs[0] if len(vs) == 1 else "(" + ", ".join(vs) + ")"
        txt = "%s%s %s <- (match %s with\n%s%s%s  | None =>\n%s%s  end);\n" % (ind, self.M["bind"], pat, x, head, ts, ind, tn, ind)
        for w in dropped:
            txt += "%slet %s := tt in\n" % (ind, w)   # poison: a later read is a type error
            env_after[w] = ("unit",)
        return txt + self.block(rest, env_after, k, ind)

    def default_idiom(self, st, env):
        """(x, T) if [st] is `if x is None: x = e` with x bound at type opt T and declared in cfg["vars"] at type T"""
        t = st.test
        if st.orelse or len(st.body) != 1 or not isinstance(st.body[0], ast.Assign) or len(st.body[0].targets) != 1:
            return None
        tgt = st.body[0].targets[0]
        if not (isinstance(t, ast.Compare) and len(t.ops) == 1 and isinstance(t.ops[0], ast.Is) and isinstance(t.left, ast.Name)
                and isinstance(t.comparators[0], ast.Constant) and t.comparators[0].value is None
                and isinstance(tgt, ast.Name) and tgt.id == t.left.id):
            return None
        x = tgt.id
        if x in env and env[x][0] == "opt" and self.vars.get(x) == env[x][1]:
            return x, env[x][1]
        return None

    def plainly_assigned(self, stmts):
        """names assigned by a plain `x = e` / `x: T = e` statement at the top level of [stmts] (assigned on every path through them)"""
        out = []
        for st in stmts:
            if isinstance(st, ast.Assign) and len(st.targets) == 1 and isinstance(st.targets[0], ast.Name):
                out.append(st.targets[0].id)
            if isinstance(st, ast.AnnAssign) and isinstance(st.target, ast.Name) and st.value is not None:
                out.append(st.target.id)
        return out

    def match_to_if(self, st):
        """match <subject>: case C1(): ... case C2(): ... case other: ...   ->   if/elif/else on the class tests
        declared in cfg["match_class"] (subject text -> {class name: Gallina bool}); tested in source order"""
        table = self.cfg.get("match_class", {}).get(ast.unparse(st.subject))
        if table is None:
            raise Unsupported("match on an undeclared subject: " + ast.unparse(st.subject))
        chain, tail = [], None
        for i, c in enumerate(st.cases):
            if c.guard is not None:
                raise Unsupported("match guard")
            p = c.pattern
            if isinstance(p, ast.MatchClass) and isinstance(p.cls, ast.Name) and not p.patterns and not p.kwd_patterns:
                name = p.cls.id[:-len(SUFFIX)] if p.cls.id.endswith(SUFFIX) else p.cls.id
                if name not in table:
                    raise Unsupported("match class without a declared test: " + name)
                marker = ast.Name(id="MATCHCLASS:" + table[name], ctx=ast.Load())
                chain.append((marker, c.body))
            elif isinstance(p, ast.MatchAs) and p.pattern is None and i == len(st.cases) - 1:
                tail = c.body     # wildcard / capture: the bound name may only be used in ignored or raise statements
            else:
                raise Unsupported("match pattern: " + ast.unparse(p))
        node = tail if tail is not None else []
        for marker, body in reversed(chain):
            node = [ast.If(test=marker, body=body, orelse=node)]
        if not chain:
            raise Unsupported("match without class cases")
        return node[0]

    def unsupported(self, msg):
        raise Unsupported(msg)

    def need_ret(self, v, vt, node, env, hoist):
        want = self.ret_type
        if want[0] == "tuple" and isinstance(node, ast.Tuple):
            parts = []
            for x, t in zip(node.elts, want[1]):
                xv, xt = self.expr(x, env, hoist)
                parts.append(self.need(xv, xt, t, hoist))
            if len(node.elts) != len(want[1]):
                raise Unsupported("return arity")
            return "(" + ", ".join(parts) + ")"
        return self.need(v, vt, want, hoist)

    def var_type(self, n):
        if n not in self.vars:
            raise Unsupported("variable without a declared type: " + n)
        return self.vars[n]

    def loop(self, st, rest, env, k, ind):
        hoist = []
        nest = isinstance(st.target, ast.Tuple) and any(isinstance(x, ast.Tuple) for x in st.target.elts)
        # a nested target `i, (a, b, c)`: its top-level components stand in until the element types are known
        tnames = self.targets(st.target) if not nest else ["nested:%d" % i for i in range(len(st.target.elts))]
        it = st.iter
        if isinstance(it, ast.Call) and isinstance(it.func, ast.Attribute) and it.func.attr == "items" and not it.args and not it.keywords \
                and isinstance(it.func.value, ast.Name) and env.get(it.func.value.id, ("unit",))[0] == "kdict":
            # `for k, v in d.items()` over a `kdict K V`: the list of its (key, value) pairs, in the dict's order
            it = ast.Name(id="KDICTITEMS:" + it.func.value.id, ctx=ast.Load())
        # what is iterated
        if isinstance(it, ast.Call) and isinstance(it.func, ast.Attribute) and it.func.attr == "items" and not it.args:
            d, dt = self.expr(it.func.value, env, hoist)
            if dt[0] == "strdict" and len(tnames) == 2:      # a string-keyed dict: its (key, value) entries in insertion order
                xs, elt = d, [("pystr",), dt[1]]
            elif dt != ("dict",) or len(tnames) != 2:
                raise Unsupported("items() of a non-dict: " + ast.unparse(it))
            else:
                xs, elt = "(dict_items %s)" % d, [("Z",), ("Z",)]
        elif isinstance(it, ast.Call) and isinstance(it.func, ast.Name) and it.func.id == rn("enumerate") and len(it.args) == 1:
            l, lt = self.expr(it.args[0], env, hoist)
            if lt[0] != "list" or len(tnames) != 2:
                raise Unsupported("enumerate of a non-list")
            xs, elt = "(enumerate_z %s)" % l, [("Z",), lt[1]]
        elif isinstance(it, ast.Call) and isinstance(it.func, ast.Name) and it.func.id in self.cfg["range_like"] and len(it.args) >= 1:
            n, nt = self.expr(it.args[0], env, hoist)
            if len(tnames) != 1:
                raise Unsupported("range target")
            extra = it.args[1:]
            if extra:
                raise Unsupported("range with more than one positional argument")
            xs, elt = "(zrange %s)" % self.need(n, nt, ("Z",), hoist), [("Z",)]
        else:
            l, lt = self.expr(it, env, hoist)
            if lt[0] != "list":
                raise Unsupported("iteration over a %s: %s" % (lt, ast.unparse(it)))
            if len(tnames) == 1:
                xs, elt = l, [lt[1]]
            elif lt[1][0] == "tuple" and len(lt[1][1]) == len(tnames):
                xs, elt = l, list(lt[1][1])
            else:
                raise Unsupported("loop target arity")
        groups = None
        if nest:      # expand the nested components: names and element types flattened, the binder pattern keeps the shape
            names2, elt2, groups = [], [], []
            for top, t in zip(st.target.elts, elt):
                if isinstance(top, ast.Tuple):
                    sub = self.targets(top)
                    if t[0] != "tuple" or len(t[1]) != len(sub):
                        raise Unsupported("nested loop target %s iterates %s" % (ast.unparse(top), t))
                    names2 += sub
                    elt2 += list(t[1])
                    groups.append(len(sub))
                else:
                    names2 += self.targets(top)
                    elt2.append(t)
                    groups.append(0)
            tnames, elt = names2, elt2
        for n, t in zip(tnames, elt):
            if n != "_" and self.var_type(n) != t:
                raise Unsupported("loop target %s declared %s, iterates %s" % (n, self.var_type(n), t))
        body_assigned = self.assigned(st.body)
        bound = lambda v: v in env and env[v] != ("unit",)
        # a target bound before the loop at another type: rebound inside the body, not carried, poisoned afterwards
        retyped = [n for n, t in zip(tnames, elt) if n != "_" and bound(n) and env[n] != t]
        carried = [v for v in (tnames + body_assigned) if bound(v) and v != "_" and v not in retyped]
        carried = list(dict.fromkeys(carried))
        dropped = [v for v in (tnames + body_assigned) if (not bound(v) or v in retyped) and v != "_"]
        dropped = list(dict.fromkeys(dropped))
        rv = None      # cfg["loop_return"]: the loop's state gains an optional return value
        if self.has_jump(st.body, (ast.Return,)):
            if not self.cfg.get("loop_return") or self.M["type"] != "result" or self.return_state \
                    or self.cfg.get("implicit_return") is not None:
                raise Unsupported("return inside a loop")
            rv = self.new("ret")
        env_body = dict(env)
        tvars = []
        for n, t in zip(tnames, elt):
            tv = self.new("it")
            tvars.append(tv)
        pre = ""
        for n, t, tv in zip(tnames, elt, tvars):
            if n != "_":
                env_body[n] = t
                if self.cfg.get("typed_loop_vars") or self.cfg.get("typed_targets"):     # the loop variable with its declared type (Coq cannot always infer it)
                    pre += "%s    let %s : %s := %s in\n" % (ind, n, coq_type(t), tv)
                    continue
                pre += "%s    let %s := %s in\n" % (ind, n, tv)

        brk = self.has_jump(st.body, (ast.Break,)) or rv is not None     # a `break` of THIS loop: the body answers (go on?, state)
        if brk and self.M["type"] != "result":
            raise Unsupported("break in a for loop under a non-default monad")
        snames = carried + ([rv] if rv is not None else [])      # the names of the loop's state

        def kbody(env2, jump=None):
            if rv is not None and isinstance(jump, tuple) and jump[0] == "return":      # `return e`: leave the loop with Some e
                return "%s    Ok (false, %s)\n" % (ind, tuple_term(carried + ["(Some %s)" % jump[1]]))
            if rv is not None and (jump is None or jump in ("continue", "break")):
                return "%s    Ok (%s, %s)\n" % (ind, "false" if jump == "break" else "true", tuple_term(snames))
            if brk and (jump is None or jump in ("continue", "break")):
                return "%s    Ok (%s, %s)\n" % (ind, "false" if jump == "break" else "true", tuple_term(carried))
            if jump is not None and jump != "continue":
                raise Unsupported("jump out of a loop body")
            return "%s    %s %s\n" % (ind, self.M["ok"], tuple_term(carried))

        body = self.block(st.body, env_body, kbody, ind + "    ")
        xpat = tvars[0] if len(tvars) == 1 else "'(" + ", ".join(tvars) + ")"
        if groups is not None:
            parts, i = [], 0
            for g in groups:
                parts.append(tvars[i] if g == 0 else "(" + ", ".join(tvars[i:i + g]) + ")")
                i += max(g, 1)
            xpat = "'(" + ", ".join(parts) + ")"
        spat = tuple_pat(carried) if carried else "(_ : unit)"
        if len(carried) == 1:
            spat = "(%s : %s)" % (carried[0], coq_type(env[carried[0]]))
        if rv is not None:
            spat = tuple_pat(snames) if carried else "(%s : %s)" % (rv, coq_type(("opt", self.ret_type)))
        txt = "%s%s %s <- %s (fun %s %s =>\n%s%s%s  ) %s %s;\n" % (
            ind, self.M["bind"], self.bind_pat(snames), "res_fold_brk" if brk else self.M["fold"], spat, xpat, pre, body, ind, xs,
            tuple_term(carried + (["(None : %s)" % coq_type(("opt", self.ret_type))] if rv is not None else [])))
        env_after = dict(env)
        for v in dropped:
            txt += "%slet %s := tt in\n" % (ind, v)   # poison: a later read is a type error
            env_after[v] = ("unit",)
        if rv is not None:
            # after the loop: a value returned inside it is the function's (or the enclosing loop's) return, else go on
            rvv = self.new("v")
            t_ret = k(env_after, jump=("return", rvv))
            t_go = self.block(rest, env_after, k, ind + "  ")
            return self.bind_hoist(hoist, txt, ind) + "%smatch %s with\n%s| Some %s =>\n%s%s| None =>\n%s%send\n" % (
                ind, rv, ind, rvv, t_ret, ind, t_go, ind)
        return self.bind_hoist(hoist, txt, ind) + self.block(rest, env_after, k, ind)

    def while_loop(self, st, rest, env, k, ind):
        """`while True:` left only by `break` (or an exception): PyRt.res_while on the explicit fuel cfg["while_fuel"];
        `while T:` is `while True: if not T: break; ...` (the test is evaluated on the current state at every iteration)"""
        fuel = self.cfg.get("while_fuel")
        if st.orelse:
            raise Unsupported("while loop with an else clause")
        if isinstance(st.test, ast.Constant) and st.test.value is not True:
            raise Unsupported("while loop over a constant other than True: " + ast.unparse(st.test))
        if self.cfg.get("while_cond") and not (isinstance(st.test, ast.Constant) and st.test.value is True):
            # cfg["while_cond"]: `while c: body` is `while True: if not c: break; body` (same meaning as the general-test
            # rendering below; two links were proved against the two renderings)
            leave = ast.If(test=ast.UnaryOp(op=ast.Not(), operand=st.test), body=[ast.Break()], orelse=[])
            st = ast.While(test=ast.Constant(value=True), body=[ast.copy_location(leave, st)] + list(st.body), orelse=[])
        plain = isinstance(st.test, ast.Constant) and st.test.value is True
        if fuel is None or env.get(fuel) != ("nat",) or (self.M["type"] != "result" and not self.M.get("while")):
            raise Unsupported("while loop without a declared fuel parameter of type nat")
        if self.has_jump(st.body, (ast.Return,)):
            raise Unsupported("return inside a loop")
        body_assigned = self.assigned(st.body)
        bound = lambda v: v in env and env[v] != ("unit",)
        carried = [v for v in body_assigned if bound(v)]
        dropped = [v for v in body_assigned if not bound(v)]

        def kbody(env2, jump=None):
            if jump is None or jump == "continue":
                return "%s    %s (true, %s)\n" % (ind, self.M["ok"], tuple_term(carried))
            if jump == "break":
                return "%s    %s (false, %s)\n" % (ind, self.M["ok"], tuple_term(carried))
            raise Unsupported("jump out of a loop body")

        if plain:
            body = self.block(st.body, dict(env), kbody, ind + "    ")
        else:     # a general test: evaluated first, on the state the iteration starts with; false leaves the loop
            thoist = []
            c = self.cond(st.test, dict(env), thoist)
            inner = self.block(st.body, dict(env), kbody, ind + "      ")
            body = self.bind_hoist(thoist, "%s    if %s then\n%s%s    else\n%s      %s (false, %s)\n" % (
                ind, c, inner, ind, ind, self.M["ok"], tuple_term(carried)), ind + "    ")
        spat = tuple_pat(carried) if carried else "(_ : unit)"
        if len(carried) == 1:
            spat = "(%s : %s)" % (carried[0], coq_type(env[carried[0]]))
        txt = "%s%s %s <- %s %s (fun %s =>\n%s%s  ) %s;\n" % (
            ind, self.M["bind"], self.bind_pat(carried), self.M.get("while", "res_while"), fuel, spat, body, ind, tuple_term(carried))
        env_after = dict(env)
        for v in dropped:
            txt += "%slet %s := tt in\n" % (ind, v)   # poison: a later read is a type error
            env_after[v] = ("unit",)
        return txt + self.block(rest, env_after, k, ind)

    # ---- whole function
    def function(self, f):
        cfg = self.cfg
        env = {}
        params = []
        for n, t in cfg["params"]:
            env[n] = parse_type(t)
            params.append("(%s : %s)" % (n, coq_type(env[n])))
        pyparams = [a.arg for a in f.args.args]
        if pyparams != cfg["pyparams"]:
            raise Unsupported("parameters of %s changed: %r" % (f.name, pyparams))
        if "pydefaults" in cfg and [ast.unparse(d) for d in f.args.defaults] != cfg["pydefaults"]:
            raise Unsupported("default values of %s changed: %r" % (f.name, [ast.unparse(d) for d in f.args.defaults]))
        for unused in cfg.get("unused_params", []):
            for node in ast.walk(f):
                if isinstance(node, ast.Name) and node.id == unused:
                    raise Unsupported("parameter %s is declared unused but is read" % unused)
        ind = "  "
        pre = ""
        for n, v in cfg.get("predefine", {}).items():
            env[n] = self.var_type(n)
            pre += "%slet %s : %s := %s in\n" % (ind, n, coq_type(env[n]), v)

        def kfun(env2, jump=None):
            if isinstance(jump, tuple) and jump[0] == "return" and self.return_state:
                if any(v not in env2 or env2[v] == ("unit",) for v in self.return_state):
                    raise Unsupported("return_state variable not bound at a return")
                return "%s  %s (%s)\n" % (ind, self.M["ok"], ", ".join([jump[1]] + self.return_state))
            if isinstance(jump, tuple) and jump[0] == "return":
                return "%s  %s %s\n" % (ind, self.M["ok"], jump[1])
            if (jump is None or jump == ("return_implicit",)) and cfg.get("implicit_return") is not None:
                return "%s  %s %s\n" % (ind, self.M["ok"], cfg["implicit_return"].format(**{v[:-len(SUFFIX)]: v for v in env2 if v.endswith(SUFFIX)}))
            raise Unsupported("function may end without a return" if jump is None else "continue outside a loop")

        rtype = coq_type(self.ret_type)
        if self.return_state:
            if cfg.get("implicit_return") is not None or any(v not in env for v in self.return_state):
                raise Unsupported("return_state needs declared state parameters and explicit returns")
            rtype = "(%s)" % " * ".join([rtype] + [coq_type(env[v]) for v in self.return_state])
        self.rewrite_runs(f.body)
        for node in ast.walk(f):      # cfg["expr_state_calls"] are refused inside these
            if isinstance(node, (ast.ListComp, ast.SetComp, ast.DictComp, ast.GeneratorExp, ast.Lambda, ast.IfExp)):
                self.no_state_nodes.update(id(sub) for sub in ast.walk(node))
        body = self.block(list(f.body), env, kfun, ind)
        return "Definition %s %s : %s %s :=\n%s%s." % (cfg["name"], " ".join(params), self.M["type"], rtype, pre, body.rstrip("\n"))


ALLOWED_DECORATORS = ("property", "classmethod", "staticmethod", "abstractmethod", "abc.abstractmethod")
TRANSLATED = set()     # (file, class or None, function) of every configuration of this run (set by harness/gen_consts.py)


def find_function(tree, name, cls=None, cfg=None):
    """the ONE definition of the function: Python runs the LAST `def` of a name in a scope, through its decorators, and a subclass
    or a later assignment may replace it - each of these would make the translated text something other than what runs, so each is
    refused: a second definition of the name in the same scope, a decorator outside ALLOWED_DECORATORS + cfg["decorators"]
    (`@x.setter` of the same name counts as a second definition), an assignment `Class.name = ...` / `name = ...` at module level,
    and (for a method) a class of this file deriving from `cls` that defines `name`, unless that override is itself translated
    (TRANSLATED) or listed in cfg["overrides_ok"]."""
    cfg = cfg or {}
    found = []
    if cls is not None:
        classes = [n for n in ast.walk(tree) if isinstance(n, ast.ClassDef) and n.name == cls]
        if len(classes) > 1:
            raise Unsupported("class %s is defined %d times" % (cls, len(classes)))
        for c in classes:
            found = [n for n in c.body if isinstance(n, (ast.FunctionDef, ast.AsyncFunctionDef)) and n.name == name]
            for n in c.body:
                if isinstance(n, (ast.Assign, ast.AnnAssign)):
                    tg = n.targets if isinstance(n, ast.Assign) else [n.target]
                    if any(isinstance(t, ast.Name) and t.id == name for t in tg):
                        raise Unsupported("%s.%s is also assigned in the class body" % (cls, name))
    else:
        found = [n for n in tree.body if isinstance(n, (ast.FunctionDef, ast.AsyncFunctionDef)) and n.name == name]
        if not found:
            found = [n for n in ast.walk(tree) if isinstance(n, ast.FunctionDef) and n.name == name]
    if not found:
        raise Unsupported("function %s not found" % name)
    if len(found) > 1:
        raise Unsupported("%s%s is defined %d times (the last definition is the one that runs)" % ((cls + ".") if cls else "", name, len(found)))
    f = found[0]
    if isinstance(f, ast.AsyncFunctionDef):
        raise Unsupported("async function")
    allowed = set(ALLOWED_DECORATORS) | set(cfg.get("decorators", []))
    for d in f.decorator_list:
        if ast.unparse(d) not in allowed:
            raise Unsupported("decorator @%s on %s (what runs is the decorated function, not this body)" % (ast.unparse(d)[:60], name))
    for n in tree.body:      # module-level rebinding
        if isinstance(n, (ast.Assign, ast.AugAssign, ast.AnnAssign)):
            tg = n.targets if isinstance(n, ast.Assign) else [n.target]
            for t in tg:
                if cls is not None and isinstance(t, ast.Attribute) and isinstance(t.value, ast.Name) and t.value.id == cls and t.attr == name:
                    raise Unsupported("%s.%s is rebound at module level" % (cls, name))
                if cls is None and isinstance(t, ast.Name) and t.id == name:
                    raise Unsupported("%s is rebound at module level" % name)
    if cls is not None:
        # overrides in classes of this file that derive (transitively) from cls
        derived, grew = {cls}, True
        klasses = [n for n in ast.walk(tree) if isinstance(n, ast.ClassDef)]
        while grew:
            grew = False
            for c in klasses:
                if c.name not in derived and any(ast.unparse(b).split(".")[-1] in derived for b in c.bases):
                    derived.add(c.name)
                    grew = True
        for c in klasses:
            if c.name != cls and c.name in derived and any(isinstance(n, ast.FunctionDef) and n.name == name for n in c.body):
                if c.name in cfg.get("overrides_ok", []) or (cfg.get("file"), c.name, name) in TRANSLATED:
                    continue
                raise Unsupported("%s.%s is overridden in the subclass %s, which is not translated (objects of that class run the override)" % (cls, name, c.name))
    return f


SUFFIX = "'"   # every Python identifier is emitted with this suffix, so it cannot capture a Coq name


def rn(name):
    return name if name.startswith("__") or name == "_" else name + SUFFIX


class Rename(ast.NodeTransformer):
    def visit_Name(self, node):
        node.id = rn(node.id)
        return node

    def visit_arg(self, node):
        node.arg = rn(node.arg)
        return node


def rename_cfg(cfg):
    c = dict(cfg)
    c["vars"] = {rn(k): v for k, v in cfg["vars"].items()}
    c["pyparams"] = [rn(x) for x in cfg["pyparams"]]
    c["unused_params"] = [rn(x) for x in cfg.get("unused_params", [])]
    attr = set(cfg.get("attr_vars", {}).values())
    c["params"] = [(rn(n) if (n in cfg["pyparams"] or n in attr) else n, t) for n, t in cfg["params"]]
    if cfg.get("live_vars"):     # parameters of a body slice that are Python locals
        c["params"] = [(rn(n) if n in cfg["live_vars"] else n2, t) for (n, t), (n2, _) in zip(cfg["params"], c["params"])]
    c["predefine"] = {rn(k): v for k, v in cfg.get("predefine", {}).items()}
    c["match_class"] = {rn(k): v for k, v in cfg.get("match_class", {}).items()}
    c["range_like"] = tuple(rn(x) for x in cfg.get("range_like", ("range",)))
    return c


class AttrVars(ast.NodeTransformer):
    """cfg["attr_vars"]: {"self.thetas": "thetas"} - an attribute expression that is the method's state is read and
    written as a variable of that name (declared in cfg["vars"] / cfg["params"] like any other)"""

    def __init__(self, table):
        self.table = table

    def visit_Attribute(self, node):
        txt = ast.unparse(node)
        if txt in self.table:
            return ast.copy_location(ast.Name(id=self.table[txt], ctx=node.ctx), node)
        self.generic_visit(node)
        return node


class AnnToAssign(ast.NodeTransformer):
    """`x: T = e` in a function body is `x = e`: the annotation of a local or attribute target is not evaluated there.
    A bare declaration `x: T` is left alone (and refused as an unsupported statement)."""

    def visit_AnnAssign(self, node):
        if node.value is None:
            return node
        return ast.copy_location(ast.Assign(targets=[node.target], value=node.value), node)


class YieldToAppend(ast.NodeTransformer):
    """a generator function (cfg["generator"] = element type) denotes the list of the values it yields, in order:
    `yield e` is `yielded.append(e)` on an implicit list variable that starts empty and is the function's result.
    (Laziness is not represented: the configuration's author uses this only where the consumer's observable behaviour
    is a function of that list - e.g. islice / list over a generator without side effects.)"""

    def visit_Expr(self, node):
        if isinstance(node.value, ast.Yield) and node.value.value is not None:
            call = ast.Call(func=ast.Attribute(value=ast.Name(id="yielded", ctx=ast.Load()), attr="append", ctx=ast.Load()),
                            args=[node.value.value], keywords=[])
            return ast.copy_location(ast.Expr(value=call), node)
        return node
class LoopReturn(ast.NodeTransformer):
    """cfg["loop_return_rewrite"] = True: `return e` inside a `for` loop that is a TOP-LEVEL statement of the function (not inside a nested
    loop, a `with` or a `try`) is rewritten, before translation, into
        loop_ret = None; for ...: ... loop_ret = e; break ...; if loop_ret is not None: return loop_ret
    where loop_ret is a fresh variable of type `opt T`, T the function's return type (so a returned None is `Some None`: the
    test after the loop distinguishes "returned" from "fell off the end").  `break` then means what it meant (the loop is left);
    a loop that already contains a `break` of its own, or a `return` nested deeper, is refused."""

    def __init__(self):
        self.n = 0

    def rewrite_body(self, stmts):
        out = []
        for st in stmts:
            if isinstance(st, ast.Return):
                out.append(ast.copy_location(ast.Assign(targets=[ast.Name(id="loop_ret", ctx=ast.Store())],
                                                        value=st.value if st.value is not None else ast.Constant(value=None)), st))
                out.append(ast.copy_location(ast.Break(), st))
            elif isinstance(st, ast.If):
                st.body = self.rewrite_body(st.body)
                st.orelse = self.rewrite_body(st.orelse)
                out.append(st)
            else:
                if any(isinstance(n, ast.Return) for n in ast.walk(st)):
                    raise Unsupported("return nested in a loop / with / try inside a for loop")
                out.append(st)
        return out

    def visit_FunctionDef(self, f):
        body = []
        for st in f.body:
            if isinstance(st, ast.For) and any(isinstance(n, ast.Return) for n in ast.walk(st)):
                if any(isinstance(n, ast.Break) for n in ast.walk(st)) or st.orelse or self.n:
                    raise Unsupported("return inside a for loop that also breaks / has an else clause / a second such loop")
                self.n += 1
                st.body = self.rewrite_body(st.body)
                body.append(ast.copy_location(ast.Assign(targets=[ast.Name(id="loop_ret", ctx=ast.Store())], value=ast.Constant(value=None)), st))
                body.append(st)
                test = ast.Compare(left=ast.Name(id="loop_ret", ctx=ast.Load()), ops=[ast.IsNot()], comparators=[ast.Constant(value=None)])
                body.append(ast.copy_location(ast.If(test=test, body=[ast.Return(value=ast.Name(id="loop_ret", ctx=ast.Load()))], orelse=[]), st))
            else:
                body.append(st)
        f.body = body
        return f


def check_inherits(tree, cfg):
    """cfg["inherits"] = [(subclass, base, [method names])]: the subclass has that single base and defines none of the methods"""
    for sub, base, names in cfg.get("inherits", []):
        cls = [n for n in ast.walk(tree) if isinstance(n, ast.ClassDef) and n.name == sub]
        if len(cls) != 1 or [ast.unparse(b) for b in cls[0].bases] != [base] or cls[0].keywords:
            raise Unsupported("class %s is not a plain subclass of %s" % (sub, base))
        own = [n.name for n in cls[0].body if isinstance(n, ast.FunctionDef) and n.name in names]
        if own:
            raise Unsupported("class %s defines its own %s" % (sub, ", ".join(own)))
def check_dataclass(tree, cfg):
    """cfg["dataclass"] = {"owner": type, "bases": [base class names], "fields": [field names in order]}: checked, not translated -
    the class cfg["cls"] is decorated with exactly `@dataclass`, has exactly the declared bases, its annotated class-level names
    (the dataclass fields, none with a default value) are exactly the declared fields in that order, it has no un-annotated
    class attribute and defines none of __init__ / __post_init__ / __new__ / __slots__ / __setattr__ / __getattr__ /
    __getattribute__; a keyword call `cls(...)` declared in cfg["kwcalls"] must take exactly the fields as parameters"""
    dc = cfg.get("dataclass")
    if not dc:
        return
    cls = [n for n in ast.walk(tree) if isinstance(n, ast.ClassDef) and n.name == cfg.get("cls")]
    if len(cls) != 1:
        raise Unsupported("dataclass %s not found exactly once" % cfg.get("cls"))
    c = cls[0]
    if [ast.unparse(d) for d in c.decorator_list] != ["dataclass"] or c.keywords:
        raise Unsupported("class %s is not decorated with exactly @dataclass" % c.name)
    if [ast.unparse(b) for b in c.bases] != list(dc["bases"]):
        raise Unsupported("bases of dataclass %s changed: %r" % (c.name, [ast.unparse(b) for b in c.bases]))
    fields = []
    for n in c.body:
        if isinstance(n, ast.AnnAssign):
            if not isinstance(n.target, ast.Name) or n.value is not None:
                raise Unsupported("dataclass field with a default value / a non-name target: " + ast.unparse(n)[:80])
            fields.append(n.target.id)
        elif isinstance(n, ast.FunctionDef):
            if n.name in ("__init__", "__post_init__", "__new__", "__setattr__", "__getattr__", "__getattribute__"):
                raise Unsupported("dataclass %s defines %s" % (c.name, n.name))
        elif isinstance(n, ast.Expr) and isinstance(n.value, ast.Constant) and isinstance(n.value.value, str):
            pass
        else:
            raise Unsupported("statement in the body of dataclass %s: %s" % (c.name, ast.unparse(n)[:80]))
    if fields != list(dc["fields"]):
        raise Unsupported("fields of dataclass %s changed: %r" % (c.name, fields))
    if "cls" in cfg.get("kwcalls", {}) and [p for p, _, _ in cfg["kwcalls"]["cls"][2]] != fields:
        raise Unsupported("the declared parameters of cls(...) are not the fields of dataclass %s" % c.name)
    if "cls" in cfg.get("kwcalls", {}):      # `cls` is the class only in a classmethod whose first parameter it is
        fn = [n for n in c.body if isinstance(n, ast.FunctionDef) and n.name == cfg["func"]]
        if len(fn) != 1 or [ast.unparse(d) for d in fn[0].decorator_list] != ["classmethod"] \
                or [a.arg for a in fn[0].args.args][:1] != ["cls"]:
            raise Unsupported("cls(...) outside a plain @classmethod of dataclass %s" % c.name)
def slice_body(f, markers):
    """cfg["body_slice"]: the top-level statements of f from the one whose first line is markers[0] to the one whose first
    line is markers[1], inclusive"""
    first, last = markers
    heads = [ast.unparse(st).split("\n")[0] for st in f.body]
    if heads.count(first) != 1 or heads.count(last) != 1 or heads.index(first) > heads.index(last):
        raise Unsupported("body slice of %s not found exactly once: %r .. %r" % (f.name, first, last))
    return f.body[heads.index(first):heads.index(last) + 1]


def check_outside_names(f, run, allowed):
    """cfg["outside_names"] (with cfg["body_slice"]): the statements of f OUTSIDE the translated run are not translated,
    but they may mention only the listed identifiers - bare names as they are, attribute names with a leading dot (`.shape`);
    anything else (`rng`, `.random`, `default_rng`, a new helper) is refused.  The configuration TRUSTS that each listed
    name is what it is today (e.g. numpy array functions); the point is that a NEW name cannot appear unnoticed."""
    allowed = set(allowed)
    for st in f.body:
        if any(st is r for r in run):
            continue
        for n in ast.walk(st):
            name = n.id if isinstance(n, ast.Name) else "." + n.attr if isinstance(n, ast.Attribute) else None
            if name is not None and name not in allowed:
                raise Unsupported("statement outside the translated run mentions an undeclared name %s: %s"
                                  % (name, ast.unparse(st).split("\n")[0][:80]))
            if isinstance(n, (ast.Import, ast.ImportFrom, ast.Global, ast.Nonlocal, ast.FunctionDef, ast.Lambda, ast.ClassDef)):
                raise Unsupported("statement outside the translated run: " + ast.unparse(st).split("\n")[0][:80])


def translate(source_text, cfg):
    tree = ast.parse(source_text)
    check_inherits(tree, cfg)
    check_dataclass(tree, cfg)
    f = find_function(tree, cfg["func"], cfg.get("cls"), cfg)
    if cfg.get("generator"):
        if any(isinstance(n, (ast.YieldFrom, ast.Return)) for n in ast.walk(f)):
            raise Unsupported("generator with `yield from` or `return`")
        f = YieldToAppend().visit(f)
        if any(isinstance(n, ast.Yield) for n in ast.walk(f)):
            raise Unsupported("`yield` used as an expression")
        cfg = dict(cfg)
        cfg["vars"] = dict(cfg["vars"], yielded="list " + cfg["generator"])
        cfg["predefine"] = dict(cfg.get("predefine", {}), yielded="[]")
        cfg["implicit_return"] = "{yielded}"
    if cfg.get("loop_return_rewrite"):      # `return` inside a top-level for loop: rewritten into a flag variable + break (LoopReturn)
        if any(n.id == "loop_ret" for n in ast.walk(f) if isinstance(n, ast.Name)):
            raise Unsupported("the function uses the name loop_ret itself")
        f = LoopReturn().visit(f)
        ast.fix_missing_locations(f)
        cfg = dict(cfg)
        cfg["vars"] = dict(cfg["vars"], loop_ret="opt " + cfg["returns"])
    if cfg.get("body_slice") and cfg.get("outside_names") is not None:
        check_outside_names(f, slice_body(f, cfg["body_slice"]), cfg["outside_names"])
    if cfg.get("body_slice"):
        f.body = slice_body(f, cfg["body_slice"])      # before renaming: the markers are source text
    f = AnnToAssign().visit(f)
    if cfg.get("attr_vars"):
        f = AttrVars(cfg["attr_vars"]).visit(f)
    f = Rename().visit(f)
    return Tr(rename_cfg(cfg)).function(f)
