"""Fail-closed translator of straight-line integer Python (assignments, augmented assignments,
if/else, + - * // %, comparisons, calls to other translated functions) into Gallina over Z.
Python's // and % are floor division / modulo with the sign of the divisor, which is exactly
Coq's Z.div / Z.modulo; division by zero (an exception in Python) is NOT represented: the
hand-written models guard it explicitly and the linking theorems are stated on the guarded side.
Anything outside the supported fragment raises Unsupported (the build then fails)."""
import ast


class Unsupported(Exception):
    pass


BINOPS = {ast.Add: "+", ast.Sub: "-", ast.Mult: "*", ast.FloorDiv: "/", ast.Mod: "mod"}
CMPOPS = {ast.Lt: "<?", ast.LtE: "<=?", ast.Gt: ">?", ast.GtE: ">=?", ast.Eq: "=?"}


def expr(e, calls):
    if isinstance(e, ast.Name):
        return e.id
    if isinstance(e, ast.Constant) and isinstance(e.value, int) and not isinstance(e.value, bool):
        return "(%d)" % e.value
    if isinstance(e, ast.BinOp) and type(e.op) in BINOPS:
        return "(%s %s %s)" % (expr(e.left, calls), BINOPS[type(e.op)], expr(e.right, calls))
    if isinstance(e, ast.UnaryOp) and isinstance(e.op, ast.USub):
        return "(- %s)" % expr(e.operand, calls)
    if isinstance(e, ast.Compare) and len(e.ops) == 1 and type(e.ops[0]) in CMPOPS:
        return "(%s %s %s)" % (expr(e.left, calls), CMPOPS[type(e.ops[0])], expr(e.comparators[0], calls))
    if isinstance(e, ast.Call) and isinstance(e.func, ast.Name) and e.func.id in calls and not e.keywords:
        return "(%s %s)" % (calls[e.func.id], " ".join(expr(a, calls) for a in e.args))
    raise Unsupported("expression: " + ast.unparse(e))


def assigned(stmts):
    out = []
    for st in stmts:
        if isinstance(st, ast.Assign) and len(st.targets) == 1 and isinstance(st.targets[0], ast.Name):
            v = [st.targets[0].id]
        elif isinstance(st, ast.AugAssign) and isinstance(st.target, ast.Name):
            v = [st.target.id]
        elif isinstance(st, ast.If):
            v = assigned(st.body) + assigned(st.orelse)
        elif isinstance(st, ast.Assert):
            v = []
        else:
            raise Unsupported("statement: " + ast.unparse(st)[:80])
        for x in v:
            if x not in out:
                out.append(x)
    return out


def block(stmts, result, calls, indent="  "):
    """let-chain for stmts ending in [result] (a Gallina term over the variables)"""
    lines = []
    for st in stmts:
        if isinstance(st, ast.Assert):
            continue
        if isinstance(st, ast.Assign):
            lines.append("%slet %s := %s in" % (indent, st.targets[0].id, expr(st.value, calls)))
        elif isinstance(st, ast.AugAssign):
            if type(st.op) not in BINOPS:
                raise Unsupported("augmented op: " + ast.unparse(st))
            lines.append("%slet %s := (%s %s %s) in" % (indent, st.target.id, st.target.id, BINOPS[type(st.op)], expr(st.value, calls)))
        elif isinstance(st, ast.If):
            vs = sorted(assigned(st.body) + [v for v in assigned(st.orelse) if v not in assigned(st.body)])
            if not vs:
                raise Unsupported("if without assignments")
            tup = vs[0] if len(vs) == 1 else "(" + ", ".join(vs) + ")"
            pat = vs[0] if len(vs) == 1 else "'(" + ", ".join(vs) + ")"
            lines.append("%slet %s :=" % (indent, pat))
            lines.append("%s  if %s then" % (indent, expr(st.test, calls)))
            lines.append(block(st.body, tup, calls, indent + "    "))
            lines.append("%s  else" % indent)
            lines.append(block(st.orelse, tup, calls, indent + "    "))
            lines.append("%sin" % indent)
        else:
            raise Unsupported("statement: " + ast.unparse(st)[:80])
    lines.append("%s%s" % (indent, result))
    return "\n".join(lines)


def definition(name, params, stmts, outputs, calls):
    res = outputs[0] if len(outputs) == 1 else "(" + ", ".join(outputs) + ")"
    ty = "Z" if len(outputs) == 1 else " * ".join(["Z"] * len(outputs))
    return "Definition %s %s : %s :=\n%s." % (name, " ".join("(%s : Z)" % p for p in params), ty, block(stmts, res, calls))


def bool_definition(name, params, test, calls):
    return "Definition %s %s : bool :=\n  %s." % (name, " ".join("(%s : Z)" % p for p in params), expr(test, calls))
