"""C20 — evaluation metrics and synergy values equal their definitions."""
import itertools
import math
import os
import shutil
import tempfile
import warnings
from fractions import Fraction

import numpy as np

import common
from common import ImplError, frac, impl_call, s2l, short, unfrac

ID = "C20"
LEVEL = "proof"
RULE = ("size regions: eval with 257 posterior samples in three unequal chains (thorough: 1000), evalio round trips of 7x64 and 3000x3 evaluations "
        "(thorough: 3x1000, 4099x2) and of Fortran-ordered prediction matrices (what evaluate_model.main hands over).  kinds: eval (prediction matrices up to 5x6, plus a few with 4099 ... 16389 experiments (thorough: up to 65539) "
        "of multiples of 1/64; mostly short dyadic values, chain labellings: one chain / equal / "
        "unequal lengths / interleaved / non-contiguous labels; degenerate 0-row and 0-column matrices; constructor shape "
        "mismatches) through the real ModelEvaluation; evalio (real save_h5 + load_h5 in a temp dir); emap / earr / syn "
        "(id arrays of arity 2 and 3 with repeated single-agent measurements, control in any column, missing single-agent "
        "measurements, strict and lenient mode; plus all-control rows, ragged results, arity 1 and length mismatches as a "
        "malformed stream) through create_single_treatment_effect_map / _array / calculate_synergy; earr_screen (ids produced "
        "by the real Screen from names and doses, Screen.single_treatment_effects); cmse (real Screen + stub thetas through "
        "retrospective.calculate_mse); space / corr (real Screen incl. several control rows in the mapping, stub thetas whose "
        "prediction is a table of (sample id, treatment ids)) through generate_full_combinatoric_space / correlation_matrix; "
        "report (the REPORTING site: cli/analyze_model_evaluation.main() run in-process on a temp dir holding a real screen file, 1-3 "
        "ThetaHolder files of 1-12 real SparseDrugComboMCMCSample objects in a shuffled --thetas order and a ModelEvaluation file; the "
        "five plotting functions are replaced by recorders, correlation_matrix by a recorder that forwards; predicate: the three numbers of "
        "summary_statistics.json = the loop definitions on the saved evaluation, the similarity matrix is computed once, on the --screen "
        "screen and on ALL posterior samples in chain-major argument order, and is the one plotted; every plot is drawn from the loaded "
        "evaluation into the output directory). "
        "Non-trivial: at least one experiment and one theta / one row; distinct by canonical case description.")
THEOREMS = {
    "C20_mse_def": "mse = (1/(n*m)) * sum over all (experiment i, posterior sample j) of (P[i][j]-o[i])^2 for every accepted evaluation, n,m >= 1; NaN (Err) when n = 0 or m = 0",
    "C20_mse_variance_def": "mse_variance = population variance (ddof 0) ACROSS EXPERIMENTS of the per-experiment mean squared error",
    "C20_inter_chain_def": "inter_chain_mse_variance = population variance over the distinct chain ids of the per-chain MSE (any labelling: unequal lengths, interleaved, non-contiguous)",
    "C20_inter_chain_one_chain": "one chain => inter-chain variance 0",
    "C20_mean_predictions_def": "mean_predictions[i] = (1/m) * sum_j P[i][j]",
    "C20_eval_save_load": "load_h5(save_h5(e)) = e for EVERY evaluation the constructor accepts (0 experiments / 0 posterior samples included)",
    "C20_calculate_mse_def": "calculate_mse = (1/n) * sum_i ((1/T) * sum_theta p[theta][i] - o[i])^2; NaN when T = 0 or n = 0",
    "C20_single_effect_def": "effect dict: for every sample s and id t occurring in the arrays, 1 if t is control, else the mean of the observations of s's rows in which t occurs and every other column is control; no entry if there is none; no other entries (ids >= -1, arity >= 2, any column)",
    "C20_effect_map_rejects": "arity < 2 -> ValueError; mask/array length mismatch -> IndexError",
    "C20_effect_array_def": "effect array entry (i,j) = that effect of (sample_i, id_ij); KeyError iff some entry has none",
    "C20_synergy_def": "calculate_synergy = for every row that is not a single-agent row, in order: (sample, non-control ids, product over all columns of the single effects - observation); rows lacking a single-agent measurement skipped, Err in strict mode; ragged id rows refused",
    "C20_combs_every_subset_once": "itertools.combinations(rows, k) = the rows at every strictly increasing k-tuple of positions, each exactly once",
    "C20_space_all_combinations": "the space's id rows are the ids, looked up in the screen's own mapping, of every arity-combination of mapping rows; its sample id is the requested one",
    "C20_corr_symmetric": "correlation matrix entry (i,j) = entry (j,i), for ANY sqrt oracle",
    "C20_corr_unit_diag": "diagonal entry i is 1 when sample i's average predictions differ somewhere from the across-sample mean (S_i != 0), given sqrt(S_i)^2 = S_i (pointwise hypothesis; the global one has no rational model)",
    "C20_corr_nan_diag": "diagonal entry i is NaN (None) when S_i = 0",
    "C20_corr_unit_diag_nonconstant_rows_refuted": "REFUTED clause: a non-constant row is not enough for a unit diagonal; the code centres on the across-sample mean, a single sample gives NaN",
    "C20_corr_entry_def": "entry (i,j) = sum_k X[i][k]*X[j][k] / (sqrt S_i * sqrt S_j) with X = P - column mean; NaN when S_i or S_j = 0",
    "C20_corr_over_full_space": "the matrix is corr_of the average (over thetas) predictions at every combination of the full space, one row per distinct sample id in increasing order",
    "C20_model_is_source_create_single_treatment_effect_map": "the Gallina translation of the WHOLE function batchie.data.create_single_treatment_effect_map, regenerated from /repo's current data.py on this run (Generated/SrcSynergy.v), equals the model effect_map for all inputs (arity = treatment_ids.shape[1]): the arity raise, the mask `np.sum(ids == CONTROL, axis=1) == shape[1] - 1` with the sentinel read from common.py, the three masked arrays (IndexError on a length mismatch), np.sort(...)[:, -1] = row maximum, both loops over np.unique, the control entry 1.0 + continue, the `&` mask, np.any + continue, the mean, the dict stores in insertion order",
    "C20_model_is_source_create_single_treatment_effect_array": "the translation of the whole function create_single_treatment_effect_array (call of the translated map, np.ones_like, both enumerate loops, dict read with its KeyError, result[idx, treatment_idx] = ...) equals the model effect_array for all inputs",
    "C20_model_is_source_calculate_synergy": "the translation of the WHOLE function batchie.synergy.calculate_synergy, regenerated from /repo's current synergy.py on this run, equals the model calculate_synergy for all inputs and both modes: the three raises, the call of the translated effect map, the mask and `~mask` selections, the loop over the multi-treatment rows (enumerate(zip(...)), the loop variable `observation` rebinding the parameter), the non-control ids, the inner loop with the strict raise / lenient continue, the length comparison + continue, np.prod(single_effects) - observation, the three appends, np.array of the three result lists (ragged id rows refused)",
    "C20_model_is_source_mse": "the translation of ModelEvaluation.mse (through the translated properties predictions / observations: `((P - o[:, None]) ** 2).mean()`), regenerated from /repo's models/main.py on this run (Generated/SrcMetrics.v), equals the model ev_mse for every evaluation object the constructor builds",
    "C20_model_is_source_mse_variance": "the translation of ModelEvaluation.mse_variance (`np.var(((P - o[:, None]) ** 2).mean(axis=1))`) equals ev_mse_variance for every constructed evaluation",
    "C20_model_is_source_inter_chain_mse_variance": "the translation of ModelEvaluation.inter_chain_mse_variance (the loop over np.unique(chain_ids), the mask chain_ids == chain_id, the column selection P[:, mask], the per-chain mean, the append, np.var(np.array(mses))) equals ev_inter_chain for every constructed evaluation",
    "C20_model_is_source_init": "the translation of ModelEvaluation.__init__ (four dtype guards - true of the arrays the wire carries -, the four shape checks with their raises, the four attribute stores) equals the model constructor mk_eval, whatever the fresh instance held; so `mk_eval ... = Ok e` in the other links means: e is what the translated constructor returns",
    "C20_model_is_source_mean_predictions": "the translation of the property ModelEvaluation.mean_predictions (`self.predictions.mean(axis=1)`) equals ev_mean_predictions for every constructed evaluation",
    "C20_model_is_source_predict_viability_avg": "the translation of the whole function models/main.py predict_viability_avg (zeros, the range loop with get_theta / predict_viability, the NaN raise, result = result + sub_result, result / n_thetas), thetas seen as the list of their prediction vectors, equals: ValueError if a prediction has another length than the screen, else the model predict_avg (NaN for no theta on a non-empty screen)",
    "C20_model_is_source_calculate_mse": "the translation of the whole function retrospective.calculate_mse (call of the translated predict_viability_avg, np.mean((preds - observations) ** 2)) equals the model calculate_mse for all inputs",
    "C20_model_is_source_combination_count": "the translation of models/main.py combination_count (math.factorial raising on a negative argument, //) equals the model combination_count on naturals",
    "C20_model_is_source_generate_full_combinatoric_space": "the translation of the WHOLE function generate_full_combinatoric_space, regenerated from /repo on this run (Generated/SrcSpace.v), on mapping rows ((name, dose), id), equals the model full_space on the rows (key, id), for every numbering key of the (name, dose) pairs that is injective on the mapping's pairs: the size guard and its raise, zip of the mapping's name and dose columns, itertools.combinations of ALL rows with the screen's arity, the two projections, dict(zip(ids, names))[sample_id], the replicated sample name, and Screen(...) called with the screen's OWN sample_mapping and treatment_mapping",
    "C20_source_synergy_def": "hence, on well-formed input, the TRANSLATED calculate_synergy equals the row-by-row definition synergy_def (C20_synergy_def composed with the link)",
    "C20_source_effect_array_def": "hence, on well-formed input, the TRANSLATED create_single_treatment_effect_array equals effect_array_def",
    "C20_model_is_source_save_h5": "the translation of the WHOLE method ModelEvaluation.save_h5, regenerated from /repo's models/main.py on this run (Generated/SrcEvalIO.v), denotes the raw HDF5 content it writes; read back by name (the representation map evraw_close) that content is exactly the model's file ev_save e, the 2-d predictions carrying shape[1] = ncols - for all evaluations: which four datasets are created, under which names, from which property of the object (predictions / observations / chain_ids / sample_names, the properties translated too), the sample names passing through the translated encode_string_array",
    "C20_model_is_source_load_h5": "the translation of the WHOLE classmethod ModelEvaluation.load_h5 on EVERY raw file that holds the four datasets equals the model's ev_load of the represented file when the stored predictions.shape[1] is the number of stored chain ids, and the constructor's ValueError otherwise (no hypothesis on the content): which dataset is read into which local, the translated decode_string_array on the names, and which keyword of cls(...) = the translated __init__ receives which",
    "C20_model_is_source_string_codec": "the translations of batchie.data.encode_string_array / decode_string_array (the `arr.size == 0` guard, np.empty of the same shape, np.char.encode / decode) are the identity on every 1-d string array, with or without elements (without the guard: an error on arrays without elements, the defect repaired in /repo 6d95451)",
    "C20_model_is_source_predict_viability_avg_nan": "predict_viability_avg, re-translated with NaN as a VALUE (floats are option Qc, every numpy operator lifted; Generated/SrcCorr.v), on the model's thetas f and a screen with one sample id and one id row per experiment gives, entry by entry, the model's avg_pred; without thetas every entry is 0 / 0 = NaN",
    "C20_model_is_source_correlation_matrix": "the translation of the WHOLE function models/main.py correlation_matrix, regenerated from /repo on this run (Generated/SrcCorr.v), equals the model correlation_matrix wrapped as the DataFrame (index, columns, values) with the sample names on both axes, for all screens and thetas: dict(zip(sample_ids, sample_names)), the loop over unique_sample_ids in increasing order (the TRANSLATED generate_full_combinatoric_space per sample, the TRANSLATED predict_viability_avg on that space, both appends, the name read from the dict), np.stack (ValueError without samples), np.mean(axis=0, keepdims) = the across-sample mean per combination, X = predictions - mu, np.sqrt(np.sum(np.square(X), axis=1, keepdims)) through the sqrt oracle, X / norm with 0 / 0 = NaN for a whole row, np.einsum('ik, jk->ij') of the normalised rows.  Hypotheses: the oracle's sqrt vanishes exactly at 0 on non-negative arguments (true of the real and the IEEE square root), key injective on the mapping's (name, dose) pairs",
    "C20_source_corr_symmetric": "hence, for the TRANSLATED correlation_matrix: the DataFrame's columns are its index and its values are symmetric (C20_corr_symmetric composed with the link)",
    "C20_model_is_source_cli_analyze": "the translation of the WHOLE function cli/analyze_model_evaluation.main (Generated/SrcCliAnalyze.v), for every record of library functions and all parsed arguments, equals the model CliAnalyze.cli_analyze: the run as the ordered list of its effects on the output directory",
    "C20_source_report_contents": "a run of the translated main() whose loads succeed creates the directory, plots the similarity matrix computed on the loaded --screen and the concatenation of ALL --thetas files in argument order, draws the four evaluation plots (the two regplot-drawing ones with seed=--seed, 99th percentile for the last) from the loaded --model-evaluation, and writes {mse: me.mse(), mse_variance: me.mse_variance(), inter_chain_mse_variance: me.inter_chain_mse_variance()} of that evaluation",
    "C20_source_reported_summary_def": "the REPORTED numbers are the definitions: with the translated ModelEvaluation.mse / mse_variance / inter_chain_mse_variance as the library's methods, any summary the translated main() writes for a constructed evaluation holds the mean squared error over all (experiment, sample) pairs, its variance across experiments, and the variance of the per-chain MSEs (NaN without experiments or samples)",
    "C20_source_eval_save_load": "hence C20_eval_save_load holds of the translated source: for every evaluation the constructor builds (m = predictions.shape[1]; zero experiments, zero thetas, square matrices included) the translated load_h5 applied to what the translated save_h5 wrote returns the evaluation unchanged",
}
ASSUMPTIONS = [
    "floating point rounding is not modelled: the model computes the real-number value over exact rationals; comparison tolerance 1e-9",
    "h5py dataset write/read is the identity on float64/int64/bytes arrays incl. empty shapes; batchie.data.encode_string_array/decode_string_array (UTF-8) is the identity on string arrays (exercised by every evalio case, incl. non-ASCII names and arrays without elements)",
    "sqrt is an oracle (libm on the nearest double) in the model",
    "thetas are stubs whose prediction is a function of (theta index, sample id, treatment ids of the row)",
    "pandas merge(how='left') on unique keys is a keyed lookup (Screen constructor with an existing mapping)",
    "dtype checks of the constructors are not modelled (the wire carries only floats / ints / strings)",
]
EXPLANATION = ("Model: Model/Metrics.v, Model/Synergy.v, Model/Corr.v; definitions (loop form) in Proofs/C20Spec.v. "
               "NaN results of numpy (mean of an empty array, 0/0) are explicit Err 6 / None in the model. Observed on the unchanged tree: "
               "(an evaluation with zero experiments used to save but not load; repaired in /repo 6d95451, kept as corpus case); "
               "the correlation matrix of a single-sample screen (or of samples with identical average predictions) is NaN; where a "
               "sample's average predictions equal the across-sample mean only up to rounding, the implementation returns normalised rounding "
               "noise instead of NaN (such entries, 0/0 over the reals, are not compared; feature fp-noise-where-undefined). "
               "Not modelled: the CLI wrappers other than analyze_model_evaluation.main, predict_* other than predict_viability_avg. "
               "The reporting site analyze_model_evaluation.main is modelled (Model/CliAnalyze.v: a run = the ordered list of its effects: mkdir, five plots - the two scatter plots with the seed= keyword main() gives them -, "
               "the JSON summary) and linked (CLI_ANALYZE -> Generated/SrcCliAnalyze.v, Proofs/C20SourceCli_Analyze.v).  Trusted there, one call each: "
               "get_args() = the record of parsed arguments; ThetaHolder(n_thetas=1) only reaches load_h5 / concat; ThetaHolder.load_h5 / concat, "
               "Screen.load_h5, ModelEvaluation.load_h5, correlation_matrix and the three metric methods = the components of the library record "
               "(the theorems hold for every such record; C20_source_reported_summary_def instantiates the metric methods with their translations); "
               "os.path.join(dir, <one of the six literal file names>) = the pair (dir, name); os.makedirs(d, exist_ok=True), the five plotting calls and "
               "json.dump(d, f, indent=4) into open(path, 'w') = one event each; the dict literal with exactly the keys mse / mse_variance / "
               "inter_chain_mse_variance = the summary record.  The report cases run the real main() and compare its events with the model's (wire op 8).  "
               "SOURCE LINK (C20_model_is_source_*): calculate_synergy (synergy.py), create_single_treatment_effect_map and "
               "create_single_treatment_effect_array (data.py) are re-translated as WHOLE functions into Gallina on every run "
               "(harness/py2gal.py, configurations C20_* of harness/src_functions.py -> coq/theories/Generated/SrcSynergy.v; a function "
               "outside the translated fragment, a changed parameter list or default, an undeclared variable or an unmatched call stops "
               "the build) and the theorems prove the hand-written models of Model/Synergy.v EQUAL to the translations for all inputs, "
               "without side condition; C20_source_synergy_def / C20_source_effect_array_def restate the definitional theorems about "
               "the translations.  Loops, branches, the raises (message fragment -> ValueError tag 1), continue, the pair-keyed dict "
               "(store, membership, read with KeyError), list appends, the rebinding of `observation` by the loop, `x - y` on floats "
               "(exact rationals), the keyword call of create_single_treatment_effect_map (= the translated callee) come from the "
               "translation.  Trusted: the translator (incl. its Lib/PyRt.v run-time: res_fold, pdict_*, list_set2, enumerate_z) and "
               "these primitives, one numpy / builtin call each (end of Model/Synergy.v): CONTROL_SENTINEL_VALUE = the constant "
               "gen_consts reads from common.py; treatment_ids.shape[1] = the explicit arity; a.shape[0] / len(a) = length; "
               "`a == v` / `a != v` elementwise against a scalar (1-d, 2-d, scalar); np.sum(m, axis=1) = True count per row; `~m`; "
               "`a & b` (equal lengths, else Err); `a[m]` / `a[m, :]` = the rows where the mask is True, IndexError unless the mask "
               "has the array's length; np.sort(a, axis=1) = each row sorted; `a[:, -1]` = last entry of each row, IndexError when "
               "shape[1] = 0; np.unique = sorted distinct values; a.flatten() = concatenated rows; np.any; np.mean of a 1-d array "
               "(NaN = Err 6 on an empty one); np.prod of a list of floats (1.0 for []); zip (stops at the shortest); np.array of a "
               "list of ints / floats = the list, of a list of id arrays = the rows if they have one length else ValueError; "
               "np.ones_like(a, dtype=float); the literal 1.0; logger.warning ignored.  The links prove that none of the raising "
               "primitives raises where the model does not (equal lengths wherever `&` and a mask are applied, a non-empty selection "
               "wherever the mean is taken).  The differential cases emap / earr / syn exercise exactly these primitives on numpy. "
               "ModelEvaluation.mse / mse_variance / inter_chain_mse_variance and the properties predictions / observations / chain_ids "
               "(models/main.py) are likewise re-translated (configurations C20_EV_*, Generated/SrcMetrics.v) and proved equal to ev_mse / "
               "ev_mse_variance / ev_inter_chain for every evaluation the constructor builds (hypothesis mk_eval ... = Ok e, a fact about "
               "every reachable ModelEvaluation; m = predictions.shape[1]); the loop, the append and the property reads come from the "
               "translation.  Trusted primitives there (end of Model/Metrics.v), one numpy call each, NaN = Err 6: self._predictions / "
               "_observations / _chain_ids = the object's stored arrays; `o[:, None]` = the (n, 1) view; `P - column` broadcast along "
               "rows (equal row counts, else Err); `x ** 2` elementwise; x.mean() = mean of all entries (NaN when none); "
               "x.mean(axis=1) = per-row means (NaN for an empty row, [] for no rows); np.var = population variance (NaN when empty); "
               "np.unique; `a == c` elementwise; `P[:, mask]` = the masked columns of every row, IndexError unless the mask has "
               "shape[1] entries; np.array of a list of floats = the list.  "
               "combination_count and generate_full_combinatoric_space (models/main.py; configurations C20_COMBINATION_COUNT / C20_SPACE, "
               "Generated/SrcSpace.v) are re-translated too and proved equal to combination_count / full_space composed with the explicit "
               "representation map key_rows (end of Model/Corr.v): the translation sees mapping rows ((name, dose), id) with integers for "
               "the strings / floats, the model rows (key, id); hypothesis: key is injective on the mapping's (name, dose) pairs (true of the "
               "harness's numbering of distinct pairs).  Which mapping rows are combined, with which arity, that BOTH of the screen's own "
               "mappings are handed to Screen(...), and the name looked up by id through dict(zip(...)) are read from the source.  Trusted "
               "primitives there: screen.treatment_space_size = number of mapping rows; screen.treatment_arity; treatment_mapping[0] / [1] "
               "and sample_mapping[0] / [1] = the columns; math.factorial (ValueError when negative); 1e7 = 10000000 compared exactly; zip; "
               "itertools.combinations = Corr.combs (ValueError on k < 0); list(...) / np.array(..., dtype=object) = the same nested list; "
               "c[:, :, j] = the j-th component of every pair, IndexError unless the array is 3-d (non-empty list of k-tuples, k >= 1); "
               "c.shape[0]; `[x] * n`; np.array of a list; dict(pairs) (later pair wins) and d[k] (KeyError); .astype(str / float) = same "
               "values; and ONE large one: Screen(names, doses, sample names, plate names, sample_mapping, treatment_mapping) with both "
               "mappings supplied = keyed lookup of every sample name and every (name, dose) pair in the supplied mapping, ValueError on "
               "a miss (Corr.space_screen; the pandas-merge assumption above), returning (sample_ids, treatment_ids); plate names unmodelled. "
               "predict_viability_avg (models/main.py) and retrospective.calculate_mse are re-translated (C20_PREDICT_AVG, C20_CALC_MSE) and "
               "proved equal to predict_avg / calculate_mse for all inputs; there a theta is the prediction vector it gives on the screen and "
               "the observed screen is its observations.  Trusted primitives: screen.size; np.zeros((n,)); thetas.n_thetas = number of thetas; "
               "thetas.get_theta(i) = the i-th (Python list indexing); theta.predict_viability(screen) = that theta's vector; np.isnan = "
               "nowhere on exact rationals, m.any(); `a + b` / `a - b` on equal-length vectors (else Err); `v / n` entrywise, n = 0: NaN "
               "for zero entries (inf, unmodelled tag 96, for others - proved not to occur); `x ** 2`; np.mean (NaN when empty); "
               "screen.observations; Screen.size = len(observations) at the call of predict_viability_avg.  "
               "mean_predictions is linked like mse (C20_EV_MEAN_PREDICTIONS).  "
               "ModelEvaluation.__init__ is linked to mk_eval (C20_EV_INIT; trusted there: the four np.issubdtype guards are true, len(predictions.shape) = 2 "
               "iff every row has shape[1] entries, a.shape[0] = length).  "
               "ModelEvaluation.save_h5 / load_h5 are linked (C20_EVIO_SAVE / C20_EVIO_LOAD, with the property sample_names and the helpers "
               "encode_string_array / decode_string_array of data.py translated too: C20_EV_SAMPLE_NAMES, C20_EVIO_CODEC; Generated/SrcEvalIO.v; "
               "proofs Proofs/C20SourceIO.v).  The translations work on the raw HDF5 content `evraw` (datasets by name in creation order, last "
               "part of Model/Metrics.v): save_h5 denotes what it writes, load_h5 reads such a content; the explicit representation map to "
               "the model's file is evraw_close (the four datasets present under their names with their kinds, the 2-d predictions carrying "
               "shape[1]).  The `with` block, the order and arguments of the four create_dataset calls, the reads into the four locals, the "
               "codec calls, the keyword call cls(...) = the translated __init__ on a blank instance and the return inside the `with` come "
               "from the translation.  Trusted primitives there, one h5py / numpy call each: h5py.File(fn, 'w') = a new empty file and "
               "h5py.File(fn, 'r') = the content handed in (entering / leaving the context changes nothing else); "
               "f.create_dataset(NAME, data=d, compression='gzip') for the four literal names = append (NAME, d) of the kind 2-d float / 1-d float / "
               "1-d int / 1-d bytes, an existing name raises; f[NAME][:] for the four literal names = the stored array (KeyError tag 30 when "
               "absent, tag 32 when of another kind); self.predictions / .observations / .chain_ids / .sample_names = the translated properties, "
               "the predictions' shape[1] being the explicit ncols; inside the codec helpers arr.size == 0, np.empty(arr.shape, dtype=...) "
               "(= arr itself where it has no element, unmodelled tag 34 elsewhere) and np.char.encode(arr) / np.char.decode(arr, 'utf-8') "
               "(the identity on the strings of an array with elements - the h5py / UTF-8 assumption above -, tag 33 on an array without "
               "elements, which numpy answers with a float64 array); str and bytes arrays are distinct type names for the translator, so a "
               "missing or doubled codec call is refused.  "
               "correlation_matrix is linked (C20_CORR, with predict_viability_avg translated once more in a NaN-carrying vocabulary: "
               "C20_PREDICT_AVG_NAN; Generated/SrcCorr.v; proofs Proofs/C20SourceCorr.v; vocabulary: last part of Model/Corr.v).  There a float "
               "is option Qc (None = NaN), every numpy operator is LIFTED (a NaN operand gives NaN), x / 0 with x != 0 (inf) is the unmodelled "
               "tag 96 (proved not to occur); the screen is (tm, sm, arity) as in the generate_full_combinatoric_space link plus `rows` = the "
               "(sample id, sample name) pairs of its experiments; the thetas are the model's function f (theta index, sample id, treatment ids).  "
               "The two list initialisations, the dict, the loop with both appends, the re-binding of `predictions`, the statement order of the "
               "numeric core and the final DataFrame call come from the translation; the callees generate_full_combinatoric_space and "
               "predict_viability_avg run their own translations.  The link proves that with at least one theta every intermediate value is a "
               "number and the lifted operators are the model's Qc operators, that a zero row norm turns the row into NaN (0 / 0), and that "
               "without thetas everything is NaN.  Hypotheses of the link: key injective on the mapping's (name, dose) pairs; the sqrt oracle is 0 "
               "exactly at 0 on non-negative arguments (the model tests the sum of squares, numpy divides by its root).  Trusted primitives "
               "there, one attribute / numpy / pandas call each: screen.sample_ids / screen.sample_names = the columns of rows; "
               "screen.unique_sample_ids = np.unique(sample_ids) = sorted distinct ids; zip; dict(pairs) (later pair wins) and d[k] (KeyError); "
               "generate_full_combinatoric_space(s, screen) = its translation on (tm, sm, arity); predict_viability_avg(space, thetas) = its "
               "translation with Screen.size = the number of the space's sample ids and theta.predict_viability(space) = f row by row "
               "(Corr.thetas_on; predictions are row-wise functions, property C09); inside predict_viability_avg: screen.size, np.zeros((n,)), "
               "thetas.n_thetas, thetas.get_theta(i) (Python list indexing), np.isnan / .any(), `a + b` on equal-length vectors (else Err), "
               "`v / n` entrywise with 0 / 0 = NaN; np.stack(l) = the rows (ValueError when l is empty or the lengths differ); "
               "np.mean(P, axis=0, keepdims=True) = the mean of every column as a (1, m) row (a matrix without rows: unmodelled tag 96, never "
               "returned by np.stack); `P - mu` = mu subtracted from every row (other lengths refused); np.square elementwise; "
               "np.sum(X, axis=1, keepdims=True) = the row sums as an (n, 1) column; np.sqrt on that column = the oracle (NaN for a negative "
               "entry); `X / c` = every row divided by its entry of the column (another number of rows refused); np.einsum('ik, jk->ij', A, B) = "
               "all sums over k of A[i][k] * B[j][k] (differing k dimensions refused); pandas.DataFrame(values, index=i, columns=c) = the "
               "triple.  The corr cases of the correspondence exercise exactly these on numpy / pandas.  "
               "Not linked (left to the correspondence): predict_viability_all / predict_mean_all / predict_variance_all / predict_mean_avg "
               "in THIS vocabulary (they are linked in C09's, Generated/SrcPredict.v).")

TAGS = {1: "ValueError", 4: "IndexError", 5: "KeyError"}
NAN = "nan"
TOL = 1e-9


# --------------------------------------------------------------------------- comparison helpers


def _res(m, i, inner):
    """model result sexp vs implementation value (ImplError / NAN / value)"""
    if isinstance(m, str):
        return "model driver failure: " + m
    if not (isinstance(m, list) and len(m) == 2 and m[0] in (0, 1)):
        return "model output is not a result: %s" % short(m)
    if isinstance(i, ImplError):
        if m[0] != 1:
            return "implementation raised %r, model returned %s" % (i, short(m[1]))
        if TAGS.get(m[1]) != i.cls:
            return "implementation raised %s, model error tag %s" % (i.cls, m[1])
        return None
    if isinstance(i, str) and i == NAN:
        return None if m == [1, 6] else "implementation is NaN, model %s" % short(m)
    if m[0] == 1:
        return "model refuses (tag %s), implementation returned %s" % (m[1], short(i))
    return inner(m[1], i)


def _q(what):
    def f(m, i):
        return None if common.close(m, i, TOL) else "%s differs: model %r impl %r" % (what, float(unfrac(m)), i)
    return f


def _qs(what):
    def f(m, i):
        if len(m) != len(i):
            return "%s: lengths differ: model %d impl %d" % (what, len(m), len(i))
        for k, (a, b) in enumerate(zip(m, i)):
            if not common.close(a, b, TOL):
                return "%s[%d] differs: model %r impl %r" % (what, k, float(unfrac(a)), b)
        return None
    return f


def _qm(what):
    def f(m, i):
        if len(m) != len(i):
            return "%s: row counts differ: model %d impl %d" % (what, len(m), len(i))
        for k, (a, b) in enumerate(zip(m, i)):
            d = _qs("%s[%d]" % (what, k))(a, b)
            if d:
                return d
        return None
    return f


def _fl(x):
    x = float(x)
    return NAN if math.isnan(x) else x


def _fls(a):
    a = [float(x) for x in a]
    return NAN if any(math.isnan(x) for x in a) else a


def _near(x, y, tol=TOL):
    return abs(float(x) - float(y)) <= tol * max(1.0, abs(float(y)))


def _tmpdir():
    os.makedirs(common.WORK, exist_ok=True)
    return tempfile.mkdtemp(dir=common.WORK)


# --------------------------------------------------------------------------- generators


def _val(rng, lo=-2.0, hi=2.0):
    r = rng.random()
    if r < 0.78:
        return rng.randint(int(lo * 8), int(hi * 8)) / 8.0
    if r < 0.9:
        return rng.randint(int(lo * 32), int(hi * 32)) / 32.0
    return rng.uniform(lo, hi)


NAMES = ["a", "b", "s1", "é", "日本", "x y", "", "\U0001F600z"]


def _chains(rng, m):
    mode = rng.choice(["one", "equal", "unequal", "unequal", "interleaved", "labels", "random"])
    if m == 0:
        return [], "one"
    if mode == "one":
        c = rng.choice([0, 1, 7, -3])
        return [c] * m, mode
    if mode == "equal":
        k = rng.choice([d for d in (1, 2, 3) if m % d == 0])
        return [j // (m // k) for j in range(m)], mode
    if mode == "unequal":
        cut = sorted(rng.sample(range(1, m), min(m - 1, rng.choice([1, 2])))) if m > 1 else []
        out, c = [], 0
        for j in range(m):
            if c < len(cut) and j >= cut[c]:
                c += 1
            out.append(c)
        return out, mode
    if mode == "interleaved":
        return [j % 2 for j in range(m)], mode
    if mode == "labels":
        labs = rng.sample([-2, 0, 3, 5, 9, 12], rng.randint(1, 3))
        return [rng.choice(labs) for _ in range(m)], mode
    return [rng.randint(0, 2) for _ in range(m)], mode


def _gen_eval(rng, kind):
    r = rng.random()
    if r < 0.06:
        n, m = rng.choice([(0, 0), (0, 3), (2, 0), (0, 1), (1, 0)])
    else:
        n, m = rng.randint(1, 5), rng.randint(1, 6)
    preds = [[_val(rng, 0, 1.5) for _ in range(m)] for _ in range(n)]
    obs = [_val(rng, 0, 1.5) for _ in range(n)]
    if rng.random() < 0.1 and n > 0:  # identical rows: variance across experiments 0
        preds = [list(preds[0]) for _ in range(n)]
        obs = [obs[0]] * n
    chains, mode = _chains(rng, m)
    names = [rng.choice(NAMES) for _ in range(n)]
    d = dict(kind=kind, m=m, preds=preds, obs=obs, chains=chains, names=names, chain_mode=mode)
    if rng.random() < 0.07:  # constructor mismatch
        which = rng.choice(["obs", "names", "chains"])
        if which == "obs":
            d["obs"] = obs + [0.5]
        elif which == "names":
            d["names"] = names + ["q"]
        else:
            d["chains"] = chains + [0]
        d["chain_mode"] = "mismatch-" + which
    return d


def _gen_ids(rng, kind):
    arity = rng.choice([2, 2, 2, 3])
    ns = rng.choice([1, 1, 2, 2, 3])
    nt = rng.randint(1, 4)
    slabels = rng.choice([[0, 1, 2], [0, 1, 2], [4, 2, 9]])
    tlabels = rng.choice([[0, 1, 2, 3, 4], [0, 1, 2, 3, 4], [3, 0, 7, 5, 11]])
    n = rng.randint(1, 12)
    mal = rng.random() < 0.12
    p_single = rng.choice([0.4, 0.6, 0.75])
    rows = []
    for _ in range(n):
        s = slabels[rng.randrange(ns)]
        r = rng.random()
        if r < p_single:
            row = [-1] * arity
            row[rng.randrange(arity)] = tlabels[rng.randrange(nt)]
        elif mal and r > 0.85:
            row = [-1] * arity
        else:
            row = [tlabels[rng.randrange(nt)] for _ in range(arity)]
            if arity == 3 and (kind != "syn" or mal) and rng.random() < 0.4:
                row[rng.randrange(arity)] = -1
        rows.append((s, row, _val(rng, 0, 1.25)))
    if rng.random() < 0.25 and rows:  # repeat a measurement verbatim ids, new value
        for _ in range(rng.randint(1, 3)):
            s, row, _v = rng.choice(rows)
            rows.append((s, list(row), _val(rng, 0, 1.25)))
    d = dict(kind=kind, arity=arity, sids=[r[0] for r in rows], tids=[r[1] for r in rows], obs=[r[2] for r in rows])
    if kind == "syn":
        d["strict"] = rng.random() < 0.4
    if mal:
        r = rng.random()
        if r < 0.2:
            d["arity"] = 1
            d["tids"] = [[row[0]] for row in d["tids"]]
        elif r < 0.35:
            d["obs"] = d["obs"] + [0.5]
        elif r < 0.5:
            d["sids"] = d["sids"][:-1]
        elif r < 0.6:
            d["sids"], d["tids"], d["obs"] = [], [], []
        d["malformed"] = True
    return d


DRUGS = ["a", "b", "c", "dd"]
DOSES = [1.0, 2.0, 0.5]
SAMPLES = ["s1", "s2", "é", "w"]


def _gen_screen(rng, arity=None, nmax=8, ndrugs=None, min_samples=1):
    arity = arity or rng.choice([2, 2, 3])
    ndrugs = ndrugs or rng.randint(1, 3 if arity == 2 else 2)
    ndoses = rng.randint(1, 2)
    ns = rng.randint(min_samples, max(3, min_samples))
    n = rng.randint(max(1, min_samples), nmax)
    names, doses, samples = [], [], []
    for i in range(n):
        rn, rd = [], []
        single = rng.random() < 0.5
        keep = rng.randrange(arity)
        for j in range(arity):
            if (single and j != keep) or rng.random() < 0.1:
                if rng.random() < 0.5:
                    rn.append("")
                    rd.append(0.0)
                else:
                    rn.append(rng.choice(DRUGS[:ndrugs]))
                    rd.append(0.0)
            else:
                rn.append(rng.choice(DRUGS[:ndrugs]))
                rd.append(rng.choice(DOSES[:ndoses]))
        names.append(rn)
        doses.append(rd)
        samples.append(SAMPLES[i] if i < min_samples else rng.choice(SAMPLES[:ns]))
    return dict(arity=arity, names=names, doses=doses, samples=samples)


def _gen_remap(rng):
    if rng.random() < 0.4:
        return None
    return dict(extra=rng.random() < 0.5, tkeys=[rng.randint(0, 9) for _ in range(12)],
                rkeys=[rng.randint(0, 9) for _ in range(12)], skeys=[rng.randint(0, 9) for _ in range(6)])


# the evaluation with 0 experiments that did not reload before /repo commit 6d95451 (regression case, also in
# corpus/C20/empty_evaluation.json) and the vm_compute witness of the *_refuted theorem, replayed in every run
WITNESS_EMPTY_EVAL = dict(kind="evalio", m=2, preds=[], obs=[], chains=[0, 0], names=[], chain_mode="one")
WITNESS_SINGLE_SAMPLE_CORR = dict(kind="corr", arity=2, names=[["a", "b"], ["a", "c"]], doses=[[1.0, 1.0], [1.0, 1.0]],
                                  samples=["s1", "s1"], nthetas=1, mode="random", remap=None,
                                  A=[[0, 0, 0, 0]] * 3, B=[[0, 0, 1, 2, 3, 4, 5, 6, 7]] * 4)


def gen(rng, tier):
    k = 1 if tier == "quick" else 12
    yield WITNESS_EMPTY_EVAL
    yield WITNESS_SINGLE_SAMPLE_CORR
    for _ in range(170 * k):
        yield _gen_eval(rng, "eval")
    for _ in range(40 * k):
        yield _gen_eval(rng, "evalio")
    for n in ([4099, 8195, 16389, 9001] if k == 1 else [4099, 8195, 16389, 9001, 8192, 8193, 12289, 20001, 32771, 65539]):
        yield dict(kind="eval", big=[n, rng.choice([1, 2, 3]), rng.randrange(10 ** 6)])
    # size regions: many posterior samples (three unequal chains), round trips of big evaluations, Fortran-ordered predictions
    for n, m in ([(3, 257)] if k == 1 else [(3, 257), (3, 1000), (2, 65)]):
        yield dict(kind="eval", big=[n, m, rng.randrange(10 ** 6)])
    for n, m in ([(7, 64), (3000, 3)] if k == 1 else [(7, 64), (3000, 3), (3, 1000), (4099, 2)]):
        yield dict(kind="evalio", big=[n, m, rng.randrange(10 ** 6)], order=rng.choice(["F", "F", "C"]))
    for _ in range(12 * k):
        d = _gen_eval(rng, "evalio")
        d["order"] = "F"
        yield d
    for _ in range(90 * k):
        yield _gen_ids(rng, "emap")
    for _ in range(60 * k):
        yield _gen_ids(rng, "earr")
    for _ in range(150 * k):
        yield _gen_ids(rng, "syn")
    for _ in range(40 * k):
        d = _gen_screen(rng)
        d.update(kind="earr_screen", obs=[_val(rng, 0, 1.25) for _ in d["samples"]])
        yield d
    for _ in range(40 * k):
        d = _gen_screen(rng, nmax=6)
        nth = rng.choice([0, 1, 1, 2, 3, 4])
        d.update(kind="cmse", obs=[_val(rng, 0, 1.25) for _ in d["samples"]],
                 per_theta=[[_val(rng, 0, 1.25) for _ in d["samples"]] for _ in range(nth)])
        yield d
    for _ in range(45 * k):
        d = _gen_screen(rng, nmax=5)
        d.update(kind="space", sample_id=rng.choice([0, 0, 0, 1, 2, 5]), remap=_gen_remap(rng))
        yield d
    for _ in range(70 * k):
        d = _gen_screen(rng, nmax=6, min_samples=rng.choice([1, 2, 2, 3, 3, 4]))
        mode = rng.choice(["random", "random", "random", "random", "identical", "additive"])
        d.update(kind="corr", nthetas=rng.choice([0, 1, 1, 2, 2, 3]), mode=mode, scale_exp=rng.choice([0, 0, 0, 0, 20, 30, 40]),
                 A=[[rng.randint(0, 8) for _ in range(4)] for _ in range(3)],
                 B=[[rng.randint(0, 8) for _ in range(9)] for _ in range(4)], remap=_gen_remap(rng))
        yield d
    # the reporting site: analyze_model_evaluation.main() on real files
    for _ in range(24 * k):
        yield _gen_report(rng)


def _gen_report(rng):
    """a run of the analysis command: a real screen, 1..3 chain files of real posterior samples in some argument order, an
    evaluation file (any prediction matrix / chain labelling the constructor accepts, at least one experiment and one column)"""
    scr = _gen_screen(rng, arity=2, nmax=7, min_samples=rng.choice([2, 2, 3]))
    while True:
        ev = _gen_eval(rng, "report")
        if ev["preds"] and ev["m"] > 0 and not ev["chain_mode"].startswith("mismatch"):
            break
    nch = rng.choice([1, 2, 2, 3])
    chains = [rng.choice([1, 2, 3, rng.randint(1, 12)]) for _ in range(nch)]
    order = list(range(nch))
    rng.shuffle(order)
    return dict(kind="report", screen=scr, scr_obs=[_val(rng, 0, 1.25) for _ in scr["samples"]],
                m=ev["m"], preds=ev["preds"], obs=ev["obs"], chains=ev["chains"], names=ev["names"], chain_mode=ev["chain_mode"],
                theta_chains=chains, order=order, D=rng.choice([1, 2, 3]), vseed=rng.getrandbits(32), seed_arg=rng.choice([None, 0, 7]))


# --------------------------------------------------------------------------- implementation adapters


class _StubTheta:
    def __init__(self, fn):
        self.fn = fn

    def predict_viability(self, screen):
        return self.fn(screen)


class _StubThetas:
    def __init__(self, fns):
        self.n_thetas = len(fns)
        self.fns = fns

    def get_theta(self, i):
        return _StubTheta(self.fns[i])


def _screen(desc, obs=None):
    from batchie.data import Screen
    n = len(desc["samples"])
    a = desc["arity"]
    kw = dict(
        treatment_names=np.array(desc["names"], dtype=str).reshape(n, a),
        treatment_doses=np.array(desc["doses"], dtype=float).reshape(n, a),
        sample_names=np.array(desc["samples"], dtype=str),
        plate_names=np.array(["p%d" % (i % 2) for i in range(n)], dtype=str),
        observations=None if obs is None else np.array(obs, dtype=float),
    )
    scr = Screen(**kw)
    rm = desc.get("remap")
    if not rm:
        return scr
    # the same experiments under a supplied, non-canonical mapping: non-control ids permuted, rows
    # shuffled, optionally one extra (unused) condition / sample  -> "the screen's own ids" are
    # not what a fresh encoding would give
    tn, td, ti = [list(x) for x in scr.treatment_mapping]
    if rm["extra"]:
        tn.append("zz")
        td.append(3.0)
        ti.append(max([int(x) for x in ti] + [-1]) + 1)
    nc = sorted(int(x) for x in ti if int(x) != -1)
    perm = sorted(nc, key=lambda i: (rm["tkeys"][i % len(rm["tkeys"])], i))
    ren = dict(zip(nc, perm))
    ti = [ren.get(int(x), -1) for x in ti]
    order = sorted(range(len(tn)), key=lambda i: (rm["rkeys"][i % len(rm["rkeys"])], i))
    tmap = (np.array([tn[i] for i in order], dtype=object), np.array([td[i] for i in order], dtype=float),
            np.array([ti[i] for i in order], dtype=int))
    sn, si = [list(x) for x in scr.sample_mapping]
    if rm["extra"]:
        sn.append("zz")
        si.append(len(si))
    sperm = sorted(range(len(si)), key=lambda i: (rm["skeys"][i % len(rm["skeys"])], i))
    smap = (np.array(sn, dtype=object), np.array([sperm[int(i)] for i in si], dtype=int))
    return Screen(treatment_mapping=tmap, sample_mapping=smap, **kw)


def _F(x):
    return Fraction(float(x))


def _mean(l):
    return sum(l, Fraction(0)) / len(l)


def _var(l):
    mu = _mean(l)
    return sum(((x - mu) ** 2 for x in l), Fraction(0)) / len(l)


def _run_eval(desc):
    from batchie.models.main import ModelEvaluation
    m = desc["m"]
    preds, obs, chains, names = desc["preds"], desc["obs"], desc["chains"], desc["names"]
    n = len(preds)
    wire = [0 if desc["kind"] == "eval" else 1, m, [[frac(x) for x in r] for r in preds], [frac(x) for x in obs],
            chains, [s2l(x) for x in names]]
    feats = [desc["kind"], "chains:" + desc["chain_mode"], "shape:%s" % ("empty" if n == 0 or m == 0 else "nonempty")]
    if desc["chain_mode"].startswith("mismatch") or (desc["kind"] == "eval" and (n == 0 or m == 0)):
        feats.append("trivial")
    if len(set(chains)) > 1 and len({chains.count(c) for c in set(chains)}) > 1:
        feats.append("unequal-chain-lengths")
    P = np.array(preds, dtype=float).reshape(n, m)
    if desc.get("order") == "F":       # what the one producer (evaluate_model.main: predict_viability_all(...).T) hands over
        P = np.ascontiguousarray(P.T).T
        feats.append("predictions-F-ordered")
    o = np.array(obs, dtype=float)
    c = np.array(chains, dtype=int)
    nm = np.array(names, dtype=str) if names else np.array([], dtype=str)

    def mk():
        return ModelEvaluation(predictions=P, observations=o, chain_ids=c, sample_names=nm)

    with warnings.catch_warnings():
        warnings.simplefilter("ignore")
        if desc["kind"] == "eval":
            return _run_eval_metrics(desc, mk, wire, feats, n, m)
        return _run_eval_io(desc, mk, wire, feats, n, m)


def _run_eval_metrics(desc, mk, wire, feats, n, m):
    preds, obs, chains = desc["preds"], desc["obs"], desc["chains"]
    e = impl_call(mk)
    if isinstance(e, ImplError):
        return dict(wire=wire, impl=e, pred=None, features=feats, cmp=lambda mo, i: _res(mo, i, None))
    impl = [_fl(e.mse()), _fl(e.mse_variance()), _fl(e.inter_chain_mse_variance()), _fls(e.mean_predictions)]
    pred = None
    if n > 0 and m > 0:
        # the property's definitions, by plain loops over exact rationals
        sq = [[(_F(preds[i][j]) - _F(obs[i])) ** 2 for j in range(m)] for i in range(n)]
        tot = Fraction(0)
        for i in range(n):
            for j in range(m):
                tot += sq[i][j]
        mse_def = tot / (n * m)
        per_exp = []
        for i in range(n):
            acc = Fraction(0)
            for j in range(m):
                acc += sq[i][j]
            per_exp.append(acc / m)
        var_def = _var(per_exp)
        per_chain = []
        for cid in sorted(set(chains)):
            acc, cnt = Fraction(0), 0
            for i in range(n):
                for j in range(m):
                    if chains[j] == cid:
                        acc += sq[i][j]
                        cnt += 1
            per_chain.append(acc / cnt)
        ic_def = _var(per_chain)
        mp_def = []
        for i in range(n):
            acc = Fraction(0)
            for j in range(m):
                acc += _F(preds[i][j])
            mp_def.append(acc / m)
        if impl[0] == NAN or not _near(impl[0], mse_def):
            pred = "mse %r is not the mean squared error over all (experiment, sample) pairs %r" % (impl[0], float(mse_def))
        elif impl[1] == NAN or not _near(impl[1], var_def):
            pred = "mse_variance %r is not the variance across experiments of the per-experiment MSE %r" % (impl[1], float(var_def))
        elif impl[2] == NAN or not _near(impl[2], ic_def):
            pred = "inter_chain_mse_variance %r is not the variance of the per-chain MSEs %r" % (impl[2], float(ic_def))
        elif impl[3] == NAN or len(impl[3]) != n or any(not _near(a, b) for a, b in zip(impl[3], mp_def)):
            pred = "mean_predictions are not the averages over posterior samples"

    def cmp(mo, i):
        def inner(mv, iv):
            for k, (what, f) in enumerate([("mse", _q("mse")), ("mse_variance", _q("mse_variance")),
                                           ("inter_chain", _q("inter_chain")), ("mean_predictions", _qs("mean_predictions"))]):
                d = _res(mv[k], iv[k], f)
                if d:
                    return what + ": " + d
            return None
        return _res(mo, i, inner)
    return dict(wire=wire, impl=impl, pred=pred, features=feats, cmp=cmp)


def _run_eval_io(desc, mk, wire, feats, n, m):
    from batchie.models.main import ModelEvaluation
    e = impl_call(mk)
    if isinstance(e, ImplError):
        return dict(wire=wire, impl=e, pred=None, features=feats, cmp=lambda mo, i: _res(mo, i, None))
    d = _tmpdir()
    try:
        def go():
            fn = os.path.join(d, "eval.h5")
            e.save_h5(fn)
            return ModelEvaluation.load_h5(fn)
        e2 = impl_call(go)
    finally:
        shutil.rmtree(d, ignore_errors=True)
    pred = None
    if isinstance(e2, ImplError):
        impl = e2
        pred = "evaluation with %d experiment(s) does not reload: %r" % (n, e2)
    else:
        impl = [e2.predictions.tolist(), e2.observations.tolist(), [int(x) for x in e2.chain_ids], [str(x) for x in e2.sample_names]]
        same = (e2.predictions.shape == e.predictions.shape and e2.predictions.dtype == e.predictions.dtype
                and e2.observations.shape == e.observations.shape and e2.observations.dtype == e.observations.dtype
                and e2.chain_ids.shape == e.chain_ids.shape and e2.sample_names.shape == e.sample_names.shape
                and np.issubdtype(e2.sample_names.dtype, str)
                and [[x.hex() for x in r] for r in e2.predictions.tolist()] == [[x.hex() for x in r] for r in e.predictions.tolist()]
                and [x.hex() for x in e2.observations.tolist()] == [x.hex() for x in e.observations.tolist()]
                and e2.chain_ids.tolist() == e.chain_ids.tolist() and e2.chain_ids.dtype == e.chain_ids.dtype
                and [str(x) for x in e2.sample_names] == [str(x) for x in e.sample_names])
        if not same:
            pred = "reloaded evaluation differs from the saved one"
        if any(ord(ch) > 127 for s in desc["names"] for ch in s):
            feats.append("non-ascii-names")
        if n == 0:
            feats.append("empty-eval-reloads")

    def cmp(mo, i):
        def inner(mv, iv):
            if [[unfrac(x) for x in r] for r in mv[0]] != [[Fraction(x) for x in r] for r in iv[0]]:
                return "reloaded predictions differ from the model's"
            if [unfrac(x) for x in mv[1]] != [Fraction(x) for x in iv[1]]:
                return "reloaded observations differ from the model's"
            if mv[2] != iv[2]:
                return "reloaded chain ids differ: model %r impl %r" % (mv[2], iv[2])
            if [common.l2s(x) for x in mv[3]] != iv[3]:
                return "reloaded names differ"
            return None
        return _res(mo, i, inner)
    return dict(wire=wire, impl=impl, pred=pred, features=feats, cmp=cmp)


# ---- single effects / synergy: the property's definitions by plain loops


def _is_single_of(row, t):
    """t occurs in the row and every other column is control"""
    for j in range(len(row)):
        if row[j] == t and all(row[k] == -1 for k in range(len(row)) if k != j):
            return True
    return False


def _single_effect_def(sids, tids, obs, s, t):
    if t == -1:
        return Fraction(1)
    acc = [_F(obs[i]) for i in range(len(tids)) if sids[i] == s and _is_single_of(tids[i], t)]
    if not acc:
        return None
    return sum(acc, Fraction(0)) / len(acc)


def _ids_features(desc, sids, tids):
    feats = [desc["kind"], "arity:%d" % desc["arity"]]
    singles = [(sids[i], max(r)) for i, r in enumerate(tids) if i < len(sids) and sum(1 for t in r if t == -1) == len(r) - 1 and len(r) >= 2]
    if len(singles) != len(set(singles)):
        feats.append("repeated-single-agent")
    if any(r[0] == -1 and any(t != -1 for t in r) for r in tids):
        feats.append("control-first-column")
    if any(r[-1] == -1 and any(t != -1 for t in r) for r in tids):
        feats.append("control-last-column")
    if desc.get("malformed"):
        feats.append("malformed")
    if not tids:
        feats.append("trivial")
    return feats


def _arrays(desc, sids, tids, obs):
    a = desc["arity"]
    return (np.array(sids, dtype=int), np.array(tids, dtype=int).reshape(len(tids), a), np.array(obs, dtype=float))


def _consistent(desc, sids, tids, obs):
    return desc["arity"] >= 2 and len(sids) == len(tids) == len(obs)


def _run_emap(desc):
    from batchie.data import create_single_treatment_effect_map
    sids, tids, obs = desc["sids"], desc["tids"], desc["obs"]
    S, T, O = _arrays(desc, sids, tids, obs)
    with warnings.catch_warnings():
        warnings.simplefilter("ignore")
        out = impl_call(create_single_treatment_effect_map, S, T, O)
    feats = _ids_features(desc, sids, tids)
    pred = None
    if isinstance(out, ImplError):
        impl = out
        if _consistent(desc, sids, tids, obs):
            pred = "well-formed input refused: %r" % (out,)
    else:
        impl = [[[int(k[0]), int(k[1])], float(v)] for k, v in out.items()]
        got = {(int(k[0]), int(k[1])): float(v) for k, v in out.items()}
        if _consistent(desc, sids, tids, obs):
            want = {}
            for s in set(sids):
                for t in {t for r in tids for t in r}:
                    v = _single_effect_def(sids, tids, obs, s, t)
                    if v is not None:
                        want[(s, t)] = v
            if set(got) != set(want):
                pred = "effect dict keys %r differ from the (sample, treatment) pairs having a single-agent measurement %r" % (sorted(got), sorted(want))
            else:
                for k in want:
                    if not _near(got[k], want[k]):
                        pred = "effect of %r is %r, mean of its single-agent observations is %r" % (k, got[k], float(want[k]))

    def cmp(mo, i):
        def inner(mv, iv):
            if [kv[0] for kv in mv] != [kv[0] for kv in iv]:
                return "dict keys/order differ: model %s impl %s" % (short([kv[0] for kv in mv]), short([kv[0] for kv in iv]))
            return _qs("effect")([kv[1] for kv in mv], [kv[1] for kv in iv])
        return _res(mo, i, inner)
    return dict(wire=[2, desc["arity"], sids, tids, [frac(x) for x in obs]], impl=impl, pred=pred, features=feats, cmp=cmp)


def _earr_pred(desc, sids, tids, obs, out):
    if not _consistent(desc, sids, tids, obs):
        return None
    want, missing = [], False
    for i, row in enumerate(tids):
        wr = []
        for t in row:
            v = _single_effect_def(sids, tids, obs, sids[i], t)
            if v is None:
                missing = True
            wr.append(v)
        want.append(wr)
    if isinstance(out, ImplError) or out is None:
        if not missing:
            return "effect array refused although every entry has a single-agent measurement: %r" % (out,)
        return None
    if missing:
        return "effect array returned although some (sample, treatment) has no single-agent measurement"
    got = out.tolist()
    if len(got) != len(want) or any(len(a) != len(b) for a, b in zip(got, want)):
        return "effect array has the wrong shape"
    for i in range(len(want)):
        for j in range(len(want[i])):
            if not _near(got[i][j], want[i][j]):
                return "effect array entry (%d,%d) is %r, definition gives %r" % (i, j, got[i][j], float(want[i][j]))
    return None


def _run_earr(desc):
    from batchie.data import create_single_treatment_effect_array
    sids, tids, obs = desc["sids"], desc["tids"], desc["obs"]
    S, T, O = _arrays(desc, sids, tids, obs)
    with warnings.catch_warnings():
        warnings.simplefilter("ignore")
        out = impl_call(create_single_treatment_effect_array, S, T, O)
    feats = _ids_features(desc, sids, tids)
    pred = _earr_pred(desc, sids, tids, obs, out)
    impl = out if isinstance(out, ImplError) else out.tolist()
    if isinstance(out, ImplError) and out.cls == "KeyError":
        feats.append("missing-single-agent")
    return dict(wire=[3, desc["arity"], sids, tids, [frac(x) for x in obs]], impl=impl, pred=pred, features=feats,
                cmp=lambda mo, i: _res(mo, i, _qm("effect array")))


def _run_earr_screen(desc):
    import logging
    logging.disable(logging.CRITICAL)
    try:
        with warnings.catch_warnings():
            warnings.simplefilter("ignore")
            scr = _screen(desc, obs=desc["obs"])
            out = scr.single_treatment_effects  # None on KeyError
    finally:
        logging.disable(logging.NOTSET)
    sids = [int(x) for x in scr.sample_ids]
    tids = [[int(x) for x in r] for r in scr.treatment_ids]
    d2 = dict(desc, kind="earr_screen")
    feats = _ids_features(d2, sids, tids) + ["via-Screen"]
    if any(n == "" for r in desc["names"] for n in r) and any(n != "" and ds == 0.0 for r, rd in zip(desc["names"], desc["doses"]) for n, ds in zip(r, rd)):
        feats.append("control-by-name-and-by-dose")
    pred = _earr_pred(d2, sids, tids, desc["obs"], out)
    impl = ImplError(KeyError("single_treatment_effects is None")) if out is None else out.tolist()
    if out is None:
        feats.append("missing-single-agent")
    return dict(wire=[3, desc["arity"], sids, tids, [frac(x) for x in desc["obs"]]], impl=impl, pred=pred, features=feats,
                cmp=lambda mo, i: _res(mo, i, _qm("effect array")))


def _run_syn(desc):
    import logging
    from batchie.synergy import calculate_synergy
    sids, tids, obs, strict = desc["sids"], desc["tids"], desc["obs"], desc["strict"]
    S, T, O = _arrays(desc, sids, tids, obs)
    logging.disable(logging.CRITICAL)
    try:
        with warnings.catch_warnings():
            warnings.simplefilter("ignore")
            out = impl_call(calculate_synergy, S, T, O, strict)
    finally:
        logging.disable(logging.NOTSET)
    feats = _ids_features(desc, sids, tids) + ["strict" if strict else "lenient"]
    pred = None
    in_quantifier = _consistent(desc, sids, tids, obs) and desc["arity"] == 2 and all(any(t != -1 for t in r) for r in tids)
    want = None
    if _consistent(desc, sids, tids, obs):
        # definition: every row that is not a single-agent row, in order
        want, lacking = [], False
        for i, row in enumerate(tids):
            if sum(1 for t in row if t != -1) == 1:
                continue
            effs = [_single_effect_def(sids, tids, obs, sids[i], t) for t in row]
            if any(v is None for v in effs):
                lacking = True
                if strict:
                    break
                continue
            prod = Fraction(1)
            for v in effs:
                prod *= v
            want.append((sids[i], [t for t in row if t != -1], prod - _F(obs[i])))
        if lacking:
            feats.append("lacks-single-agent")
        if want:
            feats.append("has-synergy-rows")
        ragged = len({len(w[1]) for w in want}) > 1
        if isinstance(out, ImplError):
            if not (strict and lacking) and not ragged:
                pred = "well-formed input refused: %r" % (out,)
        else:
            if strict and lacking:
                pred = "strict mode did not refuse a combination lacking a single-agent measurement"
            elif not ragged:
                gs, gt, gv = [int(x) for x in out[0]], [[int(x) for x in r] for r in out[1].tolist()], [float(x) for x in out[2]]
                if gs != [w[0] for w in want] or gt != [w[1] for w in want]:
                    pred = "synergy rows %r / %r are not the combination rows with all single-agent measurements %r" % (gs, gt, [(w[0], w[1]) for w in want])
                else:
                    for k, w in enumerate(want):
                        if not _near(gv[k], w[2]):
                            pred = "synergy %r of row %r differs from product of single effects - observation %r" % (gv[k], (w[0], w[1]), float(w[2]))
        if not in_quantifier:
            feats.append("outside-quantifier")
    if isinstance(out, ImplError):
        impl = out
    else:
        impl = [[int(x) for x in out[0]], [[int(x) for x in r] for r in out[1].tolist()], [float(x) for x in out[2]]]

    def cmp(mo, i):
        def inner(mv, iv):
            if mv[0] != iv[0]:
                return "sample ids differ: model %r impl %r" % (mv[0], iv[0])
            if mv[1] != iv[1]:
                return "treatment id rows differ: model %r impl %r" % (mv[1], iv[1])
            return _qs("synergy")(mv[2], iv[2])
        return _res(mo, i, inner)
    return dict(wire=[4, strict, desc["arity"], sids, tids, [frac(x) for x in obs]], impl=impl, pred=pred, features=feats, cmp=cmp)


def _run_cmse(desc):
    from batchie.retrospective import calculate_mse
    obs, per_theta = desc["obs"], desc["per_theta"]
    with warnings.catch_warnings():
        warnings.simplefilter("ignore")
        scr = _screen(desc, obs=obs)
        th = _StubThetas([(lambda screen, row=row: np.array(row, dtype=float)) for row in per_theta])
        out = impl_call(calculate_mse, scr, th)
    feats = ["cmse", "nthetas:%d" % len(per_theta)]
    pred = None
    n, T = len(obs), len(per_theta)
    if isinstance(out, ImplError):
        impl = out
        pred = "calculate_mse refused: %r" % (out,)
    else:
        impl = _fl(out)
        if T > 0:
            acc = Fraction(0)
            for i in range(n):
                a = Fraction(0)
                for t in range(T):
                    a += _F(per_theta[t][i])
                acc += (a / T - _F(obs[i])) ** 2
            want = acc / n
            if impl == NAN or not _near(impl, want):
                pred = "calculate_mse %r is not the mean over experiments of (average prediction - observation)^2 %r" % (impl, float(want))
        else:
            feats.append("trivial")
    return dict(wire=[5, [[frac(x) for x in r] for r in per_theta], [frac(x) for x in obs]], impl=impl, pred=pred,
                features=feats, cmp=lambda mo, i: _res(mo, i, _q("calculate_mse")))


def _mapping_wire(scr):
    names, doses, ids = [list(x) for x in scr.treatment_mapping]
    keys = []
    for i in range(len(names)):
        k = i
        for j in range(i):
            if names[j] == names[i] and float(doses[j]) == float(doses[i]):
                k = j
                break
        keys.append(k)
    mapping = [[keys[i], int(ids[i])] for i in range(len(names))]
    snames, sidv = [list(x) for x in scr.sample_mapping]
    skey = {}
    for nm in snames:
        skey.setdefault(str(nm), len(skey))
    smap = [[skey[str(nm)], int(i)] for nm, i in zip(snames, sidv)]
    return mapping, smap, skey


def _subsets(n, k):
    """every strictly increasing k-tuple of positions < n, lexicographic, by plain recursion"""
    if k == 0:
        return [[]]
    out = []
    for first in range(n):
        for rest in _subsets(n - first - 1, k - 1):
            out.append([first] + [first + 1 + r for r in rest])
    return out


def _run_space(desc):
    from batchie.models.main import generate_full_combinatoric_space
    with warnings.catch_warnings():
        warnings.simplefilter("ignore")
        scr = _screen(desc)
        mapping, smap, skey = _mapping_wire(scr)
        out = impl_call(generate_full_combinatoric_space, desc["sample_id"], scr)
    a = desc["arity"]
    nmap = len(mapping)
    feats = ["space", "arity:%d" % a] + (["supplied-mapping"] if desc.get("remap") else [])
    if sum(1 for r in mapping if r[1] == -1) >= 2:
        feats.append("several-control-rows")
    known_sample = desc["sample_id"] in [r[1] for r in smap]
    pred = None
    if isinstance(out, ImplError):
        impl = out
        if known_sample and a <= nmap:
            pred = "space refused: %r" % (out,)
        else:
            feats.append("trivial")
    else:
        impl = [[int(x) for x in out.sample_ids], [[int(x) for x in r] for r in out.treatment_ids]]
        mnames, mdoses, mids = [list(x) for x in scr.treatment_mapping]
        want = [[int(mids[p]) for p in sub] for sub in _subsets(nmap, a)]
        if impl[1] != want:
            pred = "space id rows are not the ids of every unordered arity-subset of mapping rows exactly once"
        elif impl[0] != [desc["sample_id"]] * len(want):
            pred = "space sample ids are not the requested sample's id"
        elif [list(x) for x in out.treatment_mapping[:2]] != [mnames, mdoses] or [int(x) for x in out.treatment_mapping[2]] != [int(x) for x in mids]:
            pred = "space does not carry the screen's own treatment mapping"
        else:
            for row, sub in zip(range(len(want)), _subsets(nmap, a)):
                if [str(x) for x in out.treatment_names[row]] != [str(mnames[p]) for p in sub] or \
                        [float(x) for x in out.treatment_doses[row]] != [float(mdoses[p]) for p in sub]:
                    pred = "space row %d is not the combination of mapping rows %r" % (row, sub)
                    break

    def cmp(mo, i):
        def inner(mv, iv):
            return None if mv == iv else "space differs: model %s impl %s" % (short(mv), short(iv))
        return _res(mo, i, inner)
    return dict(wire=[6, mapping, smap, a, desc["sample_id"]], impl=impl, pred=pred, features=feats, cmp=cmp)


def _stub_value(desc, th, sid, ids):
    """the stub thetas' prediction for one experiment: an exact dyadic number (scaled by 2^-scale_exp: samples that are
    nearly indistinguishable still have a well-defined similarity - correlation does not depend on the scale)"""
    return _stub_value0(desc, th, sid, ids) / (1 << desc.get("scale_exp", 0))


def _stub_value0(desc, th, sid, ids):
    A, B, mode = desc["A"], desc["B"], desc["mode"]
    if mode == "identical":
        return Fraction(A[th % 3][0] + sum((c + 1) * B[0][(t + 1) % 9] for c, t in enumerate(ids)), 8)
    if mode == "additive":
        return Fraction(A[th % 3][sid % 4] + sum((c + 1) * B[0][(t + 1) % 9] for c, t in enumerate(ids)), 8)
    return Fraction(A[th % 3][sid % 4] + sum((c + 1) * B[sid % 4][(t + 1) % 9] for c, t in enumerate(ids)), 8)


def _run_corr(desc):
    from batchie.models.main import correlation_matrix
    nth, a = desc["nthetas"], desc["arity"]

    def mkfn(th):
        def fn(screen):
            return np.array([float(_stub_value(desc, th, int(s), [int(t) for t in row]))
                             for s, row in zip(screen.sample_ids, screen.treatment_ids)], dtype=float)
        return fn
    with warnings.catch_warnings():
        warnings.simplefilter("ignore")
        scr = _screen(desc)
        mapping, smap, skey = _mapping_wire(scr)
        out = impl_call(correlation_matrix, scr, _StubThetas([mkfn(t) for t in range(nth)]))
    nmap = len(mapping)
    sids = sorted({int(x) for x in scr.sample_ids})
    rows = [[int(s), skey[str(nm)]] for s, nm in zip(scr.sample_ids, scr.sample_names)]
    allids = sorted({r[1] for r in mapping})
    table = [[[s, list(ids)], [frac(float(_stub_value(desc, t, s, list(ids)))) for t in range(nth)]]
             for s in [r[1] for r in smap] for ids in itertools.product(allids, repeat=a)]
    feats = ["corr", "arity:%d" % a, "nthetas:%d" % nth, "samples:%d" % len(sids), "mode:" + desc["mode"]] \
        + (["tiny-scale:2^-%d" % desc["scale_exp"]] if desc.get("scale_exp") else []) \
        + (["supplied-mapping"] if desc.get("remap") else [])
    if sum(1 for r in mapping if r[1] == -1) >= 2:
        feats.append("several-control-rows")
    pred = None
    deg = set()  # rows whose similarity is undefined over the reals (exact S_i = 0)
    if isinstance(out, ImplError):
        impl = out
        if a <= nmap:
            pred = "correlation_matrix refused: %r" % (out,)
        else:
            feats.append("trivial")
    else:
        vals = out.values.tolist()
        impl = [[skey[str(x)] for x in out.index], [[None if math.isnan(v) else float(v) for v in r] for r in vals]]
        n = len(sids)
        name_of = {int(s): str(nm) for s, nm in zip(scr.sample_ids, scr.sample_names)}
        if [str(x) for x in out.index] != [name_of[s] for s in sids] or [str(x) for x in out.columns] != [name_of[s] for s in sids]:
            pred = "index/columns are not the sample names in id order"
        elif nth > 0:
            # definition by loops: average predictions over every unordered combination of mapping rows
            mids = [r[1] for r in mapping]
            subs = _subsets(nmap, a)
            P = []
            for s in sids:
                prow = []
                for sub in subs:
                    acc = Fraction(0)
                    for t in range(nth):
                        acc += _stub_value(desc, t, s, [mids[p] for p in sub])
                    prow.append(acc / nth)
                P.append(prow)
            ncol = len(subs)
            mu = [sum((P[i][k] for i in range(n)), Fraction(0)) / n for k in range(ncol)]
            X = [[P[i][k] - mu[k] for k in range(ncol)] for i in range(n)]
            S = [sum((x * x for x in X[i]), Fraction(0)) for i in range(n)]
            if any(s == 0 for s in S):
                feats.append("nan-degenerate")
            deg.update(i for i in range(n) if S[i] == 0)
            for i in range(n):
                for j in range(n):
                    g = impl[1][i][j]
                    if S[i] == 0 or S[j] == 0:
                        # the similarity is 0/0 over the reals; in floating point the implementation yields NaN
                        # when the deviations cancel exactly and normalised rounding noise otherwise
                        if g is not None and "fp-noise-where-undefined" not in feats:
                            feats.append("fp-noise-where-undefined")
                        continue
                    w = float(sum((X[i][k] * X[j][k] for k in range(ncol)), Fraction(0))) / (math.sqrt(S[i]) * math.sqrt(S[j]))
                    if g is None or not _near(g, w):
                        pred = "entry (%d,%d) is %r, definition over the full combinatoric space gives %r" % (i, j, g, w)
                    elif impl[1][j][i] is None or not _near(g, impl[1][j][i], 1e-12):
                        pred = "matrix not symmetric at (%d,%d)" % (i, j)
                    elif i == j and not _near(g, 1.0):
                        pred = "diagonal entry %d is %r, not 1" % (i, g)
            if n < 2:
                feats.append("trivial")
        else:
            feats.append("trivial")

    def cmp(mo, i):
        def inner(mv, iv):
            if mv[0] != iv[0]:
                return "index differs: model %r impl %r" % (mv[0], iv[0])
            if len(mv[1]) != len(iv[1]):
                return "matrix sizes differ"
            for r, (a_, b_) in enumerate(zip(mv[1], iv[1])):
                if len(a_) != len(b_):
                    return "matrix row sizes differ"
                for c, (x, y) in enumerate(zip(a_, b_)):
                    if x == [] and y is not None and (r in deg or c in deg):
                        continue  # 0/0 over the reals, rounding noise in floating point
                    if (x == []) != (y is None):
                        return "entry (%d,%d): model %s impl %r (NaN mismatch)" % (r, c, short(x), y)
                    if y is not None and not common.close(x[0], y, TOL):
                        return "entry (%d,%d) differs: model %r impl %r" % (r, c, float(unfrac(x[0])), y)
            return None
        return _res(mo, i, inner)
    return dict(wire=[7, mapping, smap, a, nth, rows, table], impl=impl, pred=pred, features=feats, cmp=cmp)


# ---- the reporting site: cli/analyze_model_evaluation.main() run in-process on real files


def _report_thetas(desc, scr):
    """per chain file: real SparseDrugComboMCMCSample objects sized for the screen, moderate dyadic parameters"""
    import random as _random
    from batchie.core import ThetaHolder
    from batchie.models.sparse_combo import SparseDrugComboMCMCSample
    g = _random.Random(desc["vseed"])
    ns = max([int(x) for x in scr.sample_mapping[1]] + [0]) + 1
    nt = max([int(x) for x in scr.treatment_mapping[2]] + [0]) + 1
    D = desc["D"]

    def arr(*shape):
        n = int(np.prod(shape))
        return np.array([g.randint(-24, 24) / 16.0 for _ in range(n)], dtype=np.float64).reshape(shape)
    holders = []
    for n in desc["theta_chains"]:
        h = ThetaHolder(n)
        for _ in range(n):
            h.add_theta(SparseDrugComboMCMCSample(W=arr(ns, D), W0=arr(ns), V2=arr(nt, D), V1=arr(nt, D), V0=arr(nt),
                                                  alpha=g.randint(-8, 8) / 16.0, precision=g.randint(1, 64) / 8.0))
        holders.append(h)
    return holders


def _theta_key(t):
    return tuple((k, np.asarray(getattr(t, k), dtype=np.float64).shape, np.asarray(getattr(t, k), dtype=np.float64).tobytes())
                 for k in ("W", "W0", "V2", "V1", "V0", "alpha", "precision"))


def _screen_key(s):
    return ([int(x) for x in s.sample_ids], [[int(x) for x in r] for r in s.treatment_ids], [str(x) for x in s.sample_names],
            [[str(x) for x in r] for r in s.treatment_names], [[float(x) for x in r] for r in s.treatment_doses],
            [[str(x) for x in s.treatment_mapping[0]], [float(x) for x in s.treatment_mapping[1]], [int(x) for x in s.treatment_mapping[2]]],
            [[str(x) for x in s.sample_mapping[0]], [int(x) for x in s.sample_mapping[1]]])


def _eval_key(e):
    return (np.asarray(e.predictions, dtype=float).shape, np.asarray(e.predictions, dtype=float).tobytes(),
            np.asarray(e.observations, dtype=float).tobytes(), [int(x) for x in e.chain_ids], [str(x) for x in e.sample_names])


PLOTS = [("plot_correlation_heatmap", "sample_prediction_correlation.pdf", None),
         ("predicted_vs_observed_scatterplot", "predicted_vs_observed_scatterplot.pdf", None),
         ("predicted_vs_observed_scatterplot_per_sample", "predicted_vs_observed_by_sample_scatterplot.pdf", None),
         ("per_sample_violin_plot", "per_sample_violin_plot.pdf", None),
         ("per_sample_violin_plot", "per_sample_violin_plot__99th_percentiles.pdf", 99)]


def _default_seed(ame):
    """what args.seed holds when --seed is not given (C18_source_parser_analyze_model_evaluation_seed: a non-negative int literal)"""
    v = ame.get_parser().get_default("seed")
    return v if isinstance(v, int) and not isinstance(v, bool) else 0


def _run_report(desc):
    import contextlib
    import inspect
    import io
    import json
    import logging
    import sys
    from batchie.cli import analyze_model_evaluation as ame
    from batchie.core import ThetaHolder
    from batchie.models.main import ModelEvaluation
    from batchie.models import main as models_main
    real_corr = models_main.correlation_matrix
    m, preds, obs, chains, names = desc["m"], desc["preds"], desc["obs"], desc["chains"], desc["names"]
    n = len(preds)
    order = desc["order"]
    feats = ["report", "chains:" + desc["chain_mode"], "theta-files:%d" % len(order)]
    if order != sorted(order):
        feats.append("shuffled-argument-order")
    if len(set(chains)) > 1 and len({chains.count(c) for c in set(chains)}) > 1:
        feats.append("unequal-chain-lengths")
    base, nxt = [], 0
    for nth in desc["theta_chains"]:
        base.append(nxt)
        nxt += nth
    wire = [8, m, [[frac(x) for x in r] for r in preds], [frac(x) for x in obs], chains, [s2l(x) for x in names],
            [[base[c] + j for j in range(desc["theta_chains"][c])] for c in order],
            desc["seed_arg"] if desc.get("seed_arg") is not None else _default_seed(ame)]       # the parsed --seed
    d = _tmpdir()
    rec = dict(corr_calls=[], plots=[])
    try:
        with warnings.catch_warnings():
            warnings.simplefilter("ignore")
            scr = _screen(desc["screen"], obs=desc["scr_obs"])
            holders = _report_thetas(desc, scr)
            scr.save_h5(os.path.join(d, "screen.h5"))
            files = []
            for c, h in enumerate(holders):
                fn = os.path.join(d, "chain_%d.h5" % c)
                h.save_h5(fn)
                files.append(fn)
            ev = ModelEvaluation(predictions=np.array(preds, dtype=float).reshape(n, m), observations=np.array(obs, dtype=float),
                                 chain_ids=np.array(chains, dtype=int), sample_names=np.array(names, dtype=str))
            ev.save_h5(os.path.join(d, "me.h5"))
        outdir = os.path.join(d, "out", "analysis")     # does not exist yet: main() must create it
        argv = ["analyze_model_evaluation", "--model-evaluation", os.path.join(d, "me.h5"), "--screen", os.path.join(d, "screen.h5"),
                "--thetas"] + [files[c] for c in order] + ["--output-dir", outdir]
        if desc.get("seed_arg") is not None:
            argv += ["--seed", str(desc["seed_arg"])]

        def corr_recorder(*a, **kw):
            out = real_corr(*a, **kw)
            rec["corr_calls"].append((a, kw, out))
            return out

        def plot_recorder(name):
            def f(*a, **kw):
                rec["plots"].append((name, a, kw))
            return f

        def go():
            lg = logging.getLogger("batchie")
            old_handlers, old_level, old_argv = lg.handlers[:], lg.level, sys.argv
            saved = {nm: getattr(ame.plotting, nm) for nm in {p[0] for p in PLOTS}}
            saved_corr = ame.correlation_matrix
            sys.argv = argv
            try:
                for nm in saved:
                    setattr(ame.plotting, nm, plot_recorder(nm))
                ame.correlation_matrix = corr_recorder
                with contextlib.redirect_stderr(io.StringIO()), contextlib.redirect_stdout(io.StringIO()), warnings.catch_warnings():
                    warnings.simplefilter("ignore")
                    ame.main()
            finally:
                sys.argv = old_argv
                ame.correlation_matrix = saved_corr
                for nm, fn in saved.items():
                    setattr(ame.plotting, nm, fn)
                lg.handlers[:] = old_handlers
                lg.setLevel(old_level)
            with open(os.path.join(outdir, "summary_statistics.json")) as f:
                return json.load(f)
        out = impl_call(go)
        pred = None
        if isinstance(out, ImplError):
            impl = out
            # a screen the LIBRARY's correlation_matrix itself refuses (fewer distinct treatments than the arity: combination_count
            # raises) is outside what the report can be asked for: the refusal is the library's, the case is dropped
            from batchie.core import ThetaHolder as _TH
            lib = impl_call(lambda: real_corr(scr, _TH.concat([holders[c] for c in order])))
            if isinstance(lib, ImplError) and lib.cls == out.cls:
                return dict(wire=None, impl=None, pred=None, features=feats + ["correlation_matrix_refuses_screen", "trivial"])
            pred = "analyze_model_evaluation.main() did not write its report on well-formed files: %r" % (out,)
        else:
            impl = [_fl(out.get("mse", float("nan"))), _fl(out.get("mse_variance", float("nan"))),
                    _fl(out.get("inter_chain_mse_variance", float("nan")))]
            # the run as the list of its events (the model's vocabulary, Model/CliAnalyze.v)
            number = {}
            for c, h in enumerate(holders):
                for j, t in enumerate(h.thetas):
                    number.setdefault(_theta_key(t), base[c] + j)
            codes = {p_[1]: i for i, p_ in enumerate(PLOTS)}
            tags = {"predicted_vs_observed_scatterplot": 2, "predicted_vs_observed_scatterplot_per_sample": 3}
            events = [[0]] if os.path.isdir(outdir) else []
            for nm_, a_, kw_ in rec["plots"]:
                code = codes.get(os.path.basename(str(a_[1])) if len(a_) > 1 else None, -1)
                if nm_ == "plot_correlation_heatmap":
                    src = [cc for cc in rec["corr_calls"] if a_ and cc[2] is a_[0]]
                    try:
                        th_ = inspect.signature(real_corr).bind(*src[0][0], **src[0][1]).arguments["thetas"]
                        nums = [number.get(_theta_key(th_.get_theta(i)), -1) for i in range(th_.n_thetas)]
                    except Exception:       # noqa: BLE001
                        nums = [-1]
                    events.append([1, code, nums])
                elif nm_ in tags:       # the regplot-drawing plots: with the seed= keyword main() gave them (absent = [])
                    events.append([tags[nm_], code, [kw_["seed"]] if "seed" in kw_ else []])
                else:
                    events.append([4, code, [kw_["percentile"]] if "percentile" in kw_ else []])
            events.append([5, 5] + impl)
            # the property's definitions by plain loops over exact rationals, on the evaluation that was saved
            sq = [[(_F(preds[i][j]) - _F(obs[i])) ** 2 for j in range(m)] for i in range(n)]
            tot = Fraction(0)
            for i in range(n):
                for j in range(m):
                    tot += sq[i][j]
            mse_def = tot / (n * m)
            var_def = _var([sum(sq[i], Fraction(0)) / m for i in range(n)])
            per_chain = []
            for cid in sorted(set(chains)):
                cols = [j for j in range(m) if chains[j] == cid]
                per_chain.append(sum((sq[i][j] for i in range(n) for j in cols), Fraction(0)) / (n * len(cols)))
            ic_def = _var(per_chain)
            want_thetas = [_theta_key(t) for c in order for t in holders[c].thetas]
            if sorted(out.keys()) != ["inter_chain_mse_variance", "mse", "mse_variance"]:
                pred = "the report's keys are %r" % (sorted(out.keys()),)
            elif impl[0] == NAN or not _near(impl[0], mse_def):
                pred = "reported mse %r is not the mean squared error over all (experiment, sample) pairs %r" % (impl[0], float(mse_def))
            elif impl[1] == NAN or not _near(impl[1], var_def):
                pred = "reported mse_variance %r is not the variance across experiments of the per-experiment MSE %r" % (impl[1], float(var_def))
            elif impl[2] == NAN or not _near(impl[2], ic_def):
                pred = "reported inter_chain_mse_variance %r is not the variance of the per-chain MSEs %r" % (impl[2], float(ic_def))
            elif len(rec["corr_calls"]) != 1:
                pred = "the similarity matrix was computed %d times" % len(rec["corr_calls"])
            else:
                a, kw, cm = rec["corr_calls"][0]
                bound = inspect.signature(real_corr).bind(*a, **kw).arguments
                cs, ct = bound.get("screen"), bound.get("thetas")
                try:
                    got_thetas = [_theta_key(ct.get_theta(i)) for i in range(ct.n_thetas)]
                except Exception as e:      # noqa: BLE001
                    got_thetas = "unreadable: %r" % (e,)
                if cs is None or _screen_key(cs) != _screen_key(scr):
                    pred = "the similarity matrix is not computed on the screen named by --screen (with its own ids)"
                elif got_thetas != want_thetas:
                    pred = ("the similarity matrix is not computed from all posterior samples of all --thetas files in chain-major argument "
                            "order (%s samples instead of %d)" % (len(got_thetas) if isinstance(got_thetas, list) else got_thetas, len(want_thetas)))
                else:
                    heat = [pl for pl in rec["plots"] if pl[0] == "plot_correlation_heatmap"]
                    if len(heat) != 1 or not heat[0][1] or heat[0][1][0] is not cm:
                        pred = "the plotted similarity matrix is not the one computed by correlation_matrix"
            if pred is None:
                ek = _eval_key(ev)
                for nm, fname, pct in PLOTS:
                    hit = [pl for pl in rec["plots"] if pl[0] == nm and len(pl[1]) >= 2 and os.path.basename(str(pl[1][1])) == fname]
                    if len(hit) != 1 or os.path.dirname(str(hit[0][1][1])) != outdir:
                        pred = "the report does not contain %s exactly once in the output directory" % fname
                        break
                    if nm != "plot_correlation_heatmap":
                        if not isinstance(hit[0][1][0], ModelEvaluation) or _eval_key(hit[0][1][0]) != ek:
                            pred = "%s is not drawn from the evaluation named by --model-evaluation" % fname
                            break
                        if hit[0][2].get("percentile") != pct and not (pct is None and "percentile" not in hit[0][2]):
                            pred = "%s drawn with percentile %r" % (fname, hit[0][2].get("percentile"))
                            break
    finally:
        shutil.rmtree(d, ignore_errors=True)

    def cmp(mo, i):
        def inner(mv, iv):
            if [e[:2] for e in mv] != [e[:2] for e in iv]:
                return "events of the run differ: model %s impl %s" % (short([e[:2] for e in mv]), short([e[:2] for e in iv]))
            for me_, ie in zip(mv, iv):
                if me_[0] == 5:
                    for k, what in enumerate(["mse", "mse_variance", "inter_chain"]):
                        dd = _res(me_[2 + k], ie[2 + k], _q(what))
                        if dd:
                            return "reported " + what + ": " + dd
                elif me_[2:] != ie[2:]:
                    return "event %s: model %s impl %s" % (me_[:2], short(me_[2:]), short(ie[2:]))
            return None
        return _res(mo, i, inner)
    return dict(wire=wire, impl=impl if isinstance(impl, ImplError) else events, pred=pred, features=feats, cmp=cmp)



def _expand_big(desc):
    """big = [n, m, seed]: an evaluation with thousands of experiments, written compactly; values are multiples of 1/64
    (exact in binary and cheap as rationals)"""
    import random as _random
    n, m, seed = desc["big"]
    g = _random.Random(seed)
    preds = [[g.randrange(0, 97) / 64.0 for _ in range(m)] for _ in range(n)]
    obs = [g.randrange(0, 97) / 64.0 for _ in range(n)]
    chains = [j % 2 for j in range(m)] if m > 1 else [0] * m
    mode = "interleaved" if m > 1 else "one"
    if m >= 64:        # many posterior samples: three chains of unequal length, in chain-major order
        c1, c2 = m // 4, m // 4 + m // 2 + 1
        chains = [0 if j < c1 else (1 if j < c2 else 2) for j in range(m)]
        mode = "unequal"
    return dict(kind=desc["kind"], m=m, preds=preds, obs=obs, chains=chains, names=["s%d" % (i % 7) for i in range(n)],
                chain_mode=mode, big=desc["big"], order=desc.get("order"))


def run(desc):
    k = desc["kind"]
    if "big" in desc and "preds" not in desc:
        r = _run_eval(_expand_big(desc))
        n_, m_, _s = desc["big"]
        r["features"] = list(r["features"]) + (["thousands-of-experiments"] if n_ >= 1000 else []) + (["posterior-samples>=%d" % (64 if m_ < 257 else 257)] if m_ >= 64 else [])
        return r
    if k in ("eval", "evalio"):
        return _run_eval(desc)
    if k == "emap":
        return _run_emap(desc)
    if k == "earr":
        return _run_earr(desc)
    if k == "earr_screen":
        return _run_earr_screen(desc)
    if k == "syn":
        return _run_syn(desc)
    if k == "cmse":
        return _run_cmse(desc)
    if k == "space":
        return _run_space(desc)
    if k == "corr":
        return _run_corr(desc)
    if k == "report":
        return _run_report(desc)
    raise ValueError(k)


def shrink(desc):
    k = desc["kind"]
    if k in ("emap", "earr", "syn") and len(desc["sids"]) == len(desc["tids"]) == len(desc["obs"]):
        for i in range(len(desc["tids"])):
            yield dict(desc, sids=desc["sids"][:i] + desc["sids"][i + 1:], tids=desc["tids"][:i] + desc["tids"][i + 1:],
                       obs=desc["obs"][:i] + desc["obs"][i + 1:])
    if "big" in desc and "preds" not in desc:
        n, m, seed = desc["big"]
        for n2 in (n // 2, n - 1):
            if n2 >= 1:
                yield dict(desc, big=[n2, m, seed])
        return
    if k in ("eval", "evalio") and len(desc["preds"]) == len(desc["obs"]) == len(desc["names"]) and len(desc["preds"]) > 1:
        for i in range(len(desc["preds"])):
            yield dict(desc, preds=desc["preds"][:i] + desc["preds"][i + 1:], obs=desc["obs"][:i] + desc["obs"][i + 1:],
                       names=desc["names"][:i] + desc["names"][i + 1:])
    if k in ("earr_screen", "cmse", "space", "corr") and len(desc["samples"]) > 1:
        for i in range(len(desc["samples"])):
            d = dict(desc, names=desc["names"][:i] + desc["names"][i + 1:], doses=desc["doses"][:i] + desc["doses"][i + 1:],
                     samples=desc["samples"][:i] + desc["samples"][i + 1:])
            if "obs" in desc:
                d["obs"] = desc["obs"][:i] + desc["obs"][i + 1:]
            if "per_theta" in desc:
                d["per_theta"] = [r[:i] + r[i + 1:] for r in desc["per_theta"]]
            yield d


def signature(desc, res):
    text = res.get("pred") or res.get("disagree") or ""
    if desc.get("kind") == "report":       # one report per clause, not one per reported value
        import re
        text = re.sub(r"[-+]?[0-9][0-9.e+-]*", "#", text)
    return "%s:%s" % (desc.get("kind"), text[:40])
