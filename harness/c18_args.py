"""C18, argument-handling glue of the command-line wrappers (kind "cli_args"): differential correspondence of
cli/argument_parsing.py (str_to_bool, cast_dict_to_type, KVAppendAction.__call__) and introspection.py (get_class,
get_required_init_args_with_annotations) with the models of Model/Cli.v (ops 7..12 of Run/RunC18.v), and the property's own
predicates on the implementation's output.

The library primitives of the models (s.lower(), int(s), float(s), the call of another annotation object, inspect.signature,
pkgutil.walk_packages, importlib.import_module, getattr, issubclass) are evaluated HERE, on the real libraries, and handed to the
model as answer tables - so the comparison exercises what the linking theorems trust about them, and the structural part (which
converter meets which key, order, first failure, the split on '=', the module loop) is compared exactly."""
import argparse
import hashlib
import importlib
import inspect
import math
import os
import pkgutil
import shutil
import sys
import tempfile

import common
from common import s2l

TRUE_WORDS = ["true", "t", "yes", "y", "1"]
FALSE_WORDS = ["false", "f", "no", "n", "0"]
# exception class expected for a model error tag
TAG_CLASS = {20: "AssertionError", 21: "ArgumentError", 22: "ValueError", 23: "ValueError", 24: "ValueError", 25: "KeyError",
             26: "TypeError", 27: "ValueError", 28: "ValueError", 29: "TypeError", 31: "ValueError", 32: "ImportError", 33: "TypeError",
             40: "TypeError", 41: "ValueError"}
NAN_KEY = 2 ** 63


def fkey(x):
    return NAN_KEY if math.isnan(x) else common.float_key(x)


# the "other" annotation objects (anything that is not bool / int / float / str / None): called on the string
def _hex(s):
    return int(s, 16)


OTHERS = [len, _hex, ord]


def _res(f, *a, conv=lambda x: x, tags=None):
    try:
        return [0, conv(f(*a))]
    except Exception as e:  # noqa
        for cls, tag in (tags or {}).items():
            if type(e).__name__ == cls:
                return [1, tag]
        return [1, 41 if isinstance(e, ValueError) else 40]


ANN_OBJ = {"bool": bool, "int": int, "float": float, "str": str, "none": None}


def ann_code(a, others):
    if a is bool:
        return [0]
    if a is int:
        return [1]
    if a is float:
        return [2]
    if a is str:
        return [3]
    if a is None:
        return [4]
    if a is inspect.Parameter.empty:
        return [6]
    for i, o in enumerate(others):
        if o is a:
            return [5, i]
    others.append(a)
    return [5, len(others) - 1]


def pval(v):
    """a converted value with its exact type"""
    if type(v) is bool:
        return [0, int(v)]
    if type(v) is int:
        return [1, v]
    if type(v) is float:
        return [2, fkey(v)]
    if type(v) is str:
        return [3, s2l(v)]
    return ["?", repr(v)]


# ------------------------------------------------------------------------------------------------ cases
def _word(rng, alphabet="abk=_ 1.é"):
    return "".join(rng.choice(alphabet) for _ in range(rng.randint(0, 5)))


def _spelling(rng):
    w = rng.choice(TRUE_WORDS + FALSE_WORDS + ["on", "off", "nope", "", "tru", "yes ", " no", "2", "ｙ", "İ", "none", "ja"])
    return "".join(c.upper() if rng.random() < 0.4 else c for c in w)


VALUES = ["3", "-7", " 12 ", "1_000", "0x10", "3.5", "1e3", "-0.0", "inf", "nan", "true", "No", "Y", "abc", "", "10", "ff", "é", "1.0", "٣"]


def gen_cases(rng, tier):
    n = 40 if tier == "quick" else 400
    for w in TRUE_WORDS + FALSE_WORDS:      # every documented spelling, in three letter cases
        for s in (w, w.upper(), w.title()):
            yield dict(kind="cli_args", op="bool", s=s)
    for i in range(n):
        yield dict(kind="cli_args", op="bool", s=_spelling(rng))
    for i in range(n):
        keys = ["k%d" % j for j in range(rng.randint(0, 4))]
        rng.shuffle(keys)
        types = {k: rng.choice(["bool", "bool", "bool", "int", "int", "float", "str", "none", "other0", "other1", "other2"]) for k in keys}
        items = [[k, rng.choice(VALUES)] for k in keys]
        if rng.random() < 0.2:
            items.insert(rng.randint(0, len(items)), ["zz", rng.choice(VALUES)])      # a KEY that is not a required argument
        if rng.random() < 0.3:
            types["unused"] = "int"
        # mostly-valid: half of the time every value fits its type
        if rng.random() < 0.5:
            fit = {"bool": ["true", "No", "Y", "0", "no", "F", "yes", "n", "1", "FALSE"], "int": ["3", "-7", " 12 ", "1_000"], "float": ["3.5", "1e3", "inf", "nan", "-0.0"],
                   "str": VALUES, "none": VALUES, "other0": VALUES, "other1": ["10", "ff"], "other2": ["3", "é"]}
            items = [[k, rng.choice(fit[types[k]]) if k in types else v] for k, v in items]
        yield dict(kind="cli_args", op="cast", items=items, types=[[k, t] for k, t in types.items()])
    for i in range(n):
        m = rng.randint(0, 4)
        words = []
        for j in range(m):
            r = rng.random()
            if r < 0.6:
                words.append(rng.choice(["a", "b", "key", "", "é"]) + "=" + rng.choice(["1", "x y", "", "v", "é"]))
            elif r < 0.8:
                words.append(rng.choice(["a", "b"]) + "=" + rng.choice(["x=y", "=", "==", "p=q=r"]))
            else:
                words.append(_word(rng))
        yield dict(kind="cli_args", op="kv", words=words)
    for i in range(n):
        yield dict(kind="cli_args", op="split", s=_word(rng, "ab=="), sep=rng.choice(["=", "==", "a", "ab", "=", "=", ""]), n=rng.randint(-2, 3))
    for i in range(len(_required_classes()) * (1 if tier == "quick" else 3)):
        yield dict(kind="cli_args", op="required", cls=i % len(_required_classes()))
    for i in range(n // 2):
        k = rng.randint(0, 4)
        mods = [dict(name="m%d" % rng.randrange(100), attr=rng.choice(["absent", "absent", "sub", "sub", "other_class", "falsy", "non_class", "none"]),
                     fails=(rng.random() < 0.08)) for _ in range(k)]
        seen, out = set(), []
        for m in mods:
            if m["name"] not in seen:
                seen.add(m["name"])
                out.append(m)
        yield dict(kind="cli_args", op="get_class", modules=out, tag=i)
    yield from gen_get_args(rng, tier)
    yield from gen_parser(rng, tier, wire=True)
    yield from gen_parser_synth(rng, tier)


# ------------------------------------------------------------------------------------------------ get_args() of the four wrappers
# class-valued options: (option, attribute prefix, {class name: {required argument: a fitting value}})
_GA_OPTS = {
    "calculate_scores": [("--scorer", "scorer", {"RandomScorer": {}, "SizeScorer": {}, "GaussianDBALScorer": {}})],
    "select_next_plate": [("--policy", "policy", {"KPerSamplePlatePolicy": {"k": ["1", "3", " 2 "]}})],
    "train_model": [("--model", "model", {"SparseDrugCombo": {"n_embedding_dimensions": ["2", "5"]},
                                           "SparseDrugComboInteraction": {"n_embedding_dimensions": ["3"]}})],
    "prepare_retrospective_simulation": [
        ("--plate-generator", "plate_generator", {"PairwisePlateGenerator": {"subset_size": ["4", "6"], "anchor_size": ["1", "2"]},
                                                  "PlatePermutationPlateGenerator": {},
                                                  "SampleSegregatingPermutationPlateGenerator": {"max_plate_size": ["5", "9"]}}),
        ("--initial-plate-generator", "initial_plate_generator",
         {"SparseCoverPlateGenerator": {"reveal_single_treatment_experiments": ["true", "No", "Y", "0"]}}),
        ("--plate-smoother", "plate_smoother", {"MergeMinPlateSmoother": {"min_size": ["3", "7"]}, "FixedSizeSmoother": {"plate_size": ["4"]},
                                                "MergeTopBottomPlateSmoother": {"n_iterations": ["1", "2"]},
                                                "BatchieEnsemblePlateSmoother": {"min_size": ["2"], "n_iterations": ["1"],
                                                                                 "min_n_cell_line_plates": ["1", "2"]}})],
}
_GA_REQUIRED = {
    "calculate_scores": ["--data", "d.h5", "--thetas", "t.h5", "--distance-matrix", "m.h5", "--output", "o.h5"],
    "select_next_plate": ["--data", "d.h5", "--scores", "s.h5", "--output", "o.txt"],
    "train_model": ["--data", "d.h5", "--output", "o.h5"],
    "prepare_retrospective_simulation": ["--data", "d.h5", "--training-output", "tr.h5", "--test-output", "te.h5"],
}
_GA_MANDATORY = {"calculate_scores": ["--scorer"], "train_model": ["--model"]}


def gen_get_args(rng, tier, only=None):
    """command lines for get_args() of the four wrappers (of the wrapper `only` when given: used by the harnesses of C06 / C04 / C03)"""
    for i in range((24 if only is None else 12) * (1 if tier == "quick" else 10)):
        cli = only or rng.choice(sorted(_GA_OPTS))
        argv = list(_GA_REQUIRED[cli])
        chosen = []
        for opt, attr, classes in _GA_OPTS[cli]:
            if opt not in _GA_MANDATORY.get(cli, []) and rng.random() < 0.3:
                continue
            name = rng.choice(sorted(classes))
            params = [[k, rng.choice(vs)] for k, vs in classes[name].items()]
            rng.shuffle(params)
            chosen.append([opt, attr, name, params])
        rng.shuffle(chosen)      # the order of the options on the command line is free
        for opt, attr, name, params in chosen:
            argv += [opt, name]
            for k, v in params:
                argv += [opt + "-param", "%s=%s" % (k, v)]
        frac = None
        if cli == "prepare_retrospective_simulation" and rng.random() < 0.7:
            frac = rng.choice(["0.1", "0.25", "0.5", "1", "1.0", "0", "0.75", "1e-2"])
            argv += ["--holdout-fraction", frac]
        yield dict(kind="cli_args", op="get_args", cli=cli, argv=argv, chosen=[[a, n, p] for _o, a, n, p in chosen], frac=frac)
    if only is not None:      # the harnesses of C06 / C04 / C03: the real parser of their wrapper on generated command lines (predicate only)
        yield from gen_parser(rng, tier, commands=[only])


def _run_get_args(d, feats):
    from unittest import mock

    from batchie import introspection
    from batchie.core import (BayesianModel, InitialRetrospectivePlateGenerator, PlatePolicy, RetrospectivePlateGenerator, RetrospectivePlateSmoother,
                              Scorer)

    base = {"scorer": Scorer, "policy": PlatePolicy, "model": BayesianModel, "plate_generator": RetrospectivePlateGenerator,
            "initial_plate_generator": InitialRetrospectivePlateGenerator, "plate_smoother": RetrospectivePlateSmoother}
    mod = importlib.import_module("batchie.cli." + d["cli"])
    with mock.patch.object(sys, "argv", ["prog"] + list(d["argv"])):
        args = common.impl_call(mod.get_args)
    pred = None
    feats = feats + ["get_args:" + d["cli"], "get_args:n_opts=%d" % len(d["chosen"])]
    if isinstance(args, common.ImplError):
        return dict(wire=None, impl=None, pred="get_args() of %s raised %r on a well-formed command line %r" % (d["cli"], args, d["argv"]), features=feats)
    for attr, name, params in d["chosen"]:
        cls = getattr(args, attr + "_cls", "<unset>")
        # the named class: found through the primitives, independently of get_class
        want_cls = None
        for _, mname, _ in pkgutil.walk_packages(importlib.import_module("batchie").__path__, "batchie."):
            o = getattr(importlib.import_module(mname), name, None)
            if o is not None and inspect.isclass(o) and issubclass(o, base[attr]) and o.__module__ == mname:
                want_cls = o
        if cls is not want_cls:
            pred = "args.%s_cls is %r, the class named on the command line is %r" % (attr, cls, want_cls)
            break
        # the cast parameters: every KEY=VALUE typed by the annotation of THAT class's __init__ parameter
        sig = inspect.signature(want_cls.__init__).parameters
        want = {}
        for k, v in params:
            t = sig[k].annotation
            want[k] = (v.lower() in TRUE_WORDS) if t is bool else t(v)
        got = getattr(args, attr + "_params", "<unset>")
        if not (isinstance(got, dict) and list(got.items()) == list(want.items()) and all(type(got[k]) is type(want[k]) for k in want)):
            pred = "args.%s_params is %r; the KEY=VALUE words cast by %s's annotations are %r" % (attr, got, name, want)
            break
    if pred is None and d["frac"] is not None and not (type(args.holdout_fraction) is float and args.holdout_fraction == float(d["frac"])):
        pred = "--holdout-fraction %s reached main() as %r" % (d["frac"], args.holdout_fraction)
    if pred is None:
        for a in ("data", "output", "training_output", "test_output"):
            if hasattr(args, a) and getattr(args, a) not in d["argv"]:
                pred = "args.%s = %r is not a word of the command line" % (a, getattr(args, a))
    return dict(wire=None, impl=None, pred=pred, features=feats)


# ------------------------------------------------------------------------------------------------ synthetic classes
class _A:
    def __init__(self, a: int, b: bool = False, *, c: float, d=None, e):
        pass


class _B:
    def __init__(self, *args, **kwargs):
        pass


class _C:
    def __init__(self, self_: str, x: "int", y: list[str]):
        pass


class _D:
    pass


class _E(_A):
    def __init__(this, k: int):      # the first parameter is not called self
        pass


_CLASSES = None


def _required_classes():
    global _CLASSES
    if _CLASSES is None:
        import batchie.models.sparse_combo as sc
        import batchie.policies.k_per_sample as kp
        import batchie.retrospective as rt
        import batchie.scoring.gaussian_dbal as gd
        import batchie.scoring.rand as rd
        import batchie.scoring.size as sz
        found = []
        for mod in (sc, kp, rt, gd, rd, sz):
            for name, obj in sorted(vars(mod).items()):
                if inspect.isclass(obj) and obj.__module__ == mod.__name__:
                    found.append(obj)
        _CLASSES = found + [_A, _B, _C, _D, _E]
    return _CLASSES


# ------------------------------------------------------------------------------------------------ run
def _cmp(inner=None):
    base = common.cmp_result(inner)

    def f(m, i):
        d = base(m, i)
        if d is None and common.is_err(m):
            want = TAG_CLASS.get(m[1])
            got = i.cls if isinstance(i, common.ImplError) else i.get("err")
            if want is not None and got != want:
                return "model raises %s (tag %s) but the implementation raised %s" % (want, m[1], got)
        return d

    return f


def run_case(d):
    from batchie import introspection
    from batchie.cli import argument_parsing as ap

    op = d["op"]
    feats = ["cli_args", "cli_args:" + op]
    if op == "bool":
        s = d["s"]
        impl = common.impl_call(ap.str_to_bool, s)
        low = s.lower()
        want = True if low in TRUE_WORDS else False if low in FALSE_WORDS else "raise"
        got = "raise" if isinstance(impl, common.ImplError) and impl.cls == "ValueError" else impl
        pred = None if got is want else "str_to_bool(%r) gave %r, the documented spellings say %s" % (s, impl, want)
        feats.append("bool:" + str(want))
        return dict(wire=[7, s2l(low)], impl=(impl if isinstance(impl, common.ImplError) else int(impl)), pred=pred, features=feats,
                    cmp=_cmp())
    if op == "cast":
        others = list(OTHERS)

        def obj(t):
            return OTHERS[int(t[5:])] if t.startswith("other") else ANN_OBJ[t]

        types = {k: obj(t) for k, t in d["types"]}
        items = dict((k, v) for k, v in d["items"])
        impl = common.impl_call(ap.cast_dict_to_type, items, types)
        vals = sorted(set(items.values()))
        table = [[s2l(v), [s2l(v.lower()), _res(int, v, tags={"ValueError": 27}), _res(float, v, conv=fkey, tags={"ValueError": 28})]] for v in vals]
        oth = [[[i, s2l(v)], _res(f, v)] for i, f in enumerate(OTHERS) for v in vals]
        wire = [8, [[s2l(k), s2l(v)] for k, v in items.items()], [[s2l(k), ann_code(t, others)] for k, t in types.items()], table, oth]
        # the property's own predicate: every value typed exactly as its key's annotation says, keys in the given order
        pred = None
        expect, failed = [], None
        for k, v in items.items():
            if k not in types:
                failed = "KeyError"
                break
            t = types[k]
            try:
                if t is bool:
                    low = v.lower()
                    if low not in TRUE_WORDS + FALSE_WORDS:
                        raise ValueError(v)
                    x = low in TRUE_WORDS
                elif t is None:
                    raise TypeError("no annotation")
                else:
                    x = t(v)
            except Exception as e:  # noqa
                failed = type(e).__name__
                break
            expect.append((k, x))
        if failed is not None:
            if not (isinstance(impl, common.ImplError) and impl.cls == failed):
                pred = "cast_dict_to_type should raise %s (first failing item) but gave %r" % (failed, impl)
        elif isinstance(impl, common.ImplError):
            pred = "cast_dict_to_type raised %r on a well-typed parameter dict" % (impl,)
        else:
            got = list(impl.items())
            same = len(got) == len(expect) and all(a[0] == b[0] and type(a[1]) is type(b[1]) and (a[1] == b[1] or (a[1] != a[1] and b[1] != b[1]))
                                                   for a, b in zip(got, expect))
            if not same:
                pred = "cast values / types / order differ from the annotations: got %r, expected %r" % (got, expect)
        if not isinstance(impl, common.ImplError):
            impl = [[s2l(k), ([4, v] if types.get(k) in OTHERS else pval(v))] for k, v in impl.items()]
        feats += ["cast:n=%d" % len(items), "cast:" + ("raises" if failed else "ok")]
        if not items:
            feats.append("trivial")
        return dict(wire=wire, impl=impl, pred=pred, features=feats, cmp=_cmp())
    if op == "kv":
        action = ap.KVAppendAction(option_strings=["--x-param"], dest="x_param", nargs=1)
        ns = argparse.Namespace(x_param=None)

        def go():
            for w in d["words"]:
                action(None, ns, [w])
            return ns.x_param

        impl = common.impl_call(go)
        # predicate: a word KEY=VALUE with exactly one '=' is stored exactly (the later VALUE of a repeated KEY wins, the key keeps
        # its place); a word without '=' is refused; a word with more '=' is refused or stored WHOLE after the first '=' - never cut
        pred, want, refused = None, {}, None
        for w in d["words"]:
            c = w.count("=")
            if c == 0:
                refused = w
                break
            if c == 1:
                k, v = w.split("=")
                want[k] = v
                continue
            if isinstance(impl, common.ImplError):
                refused = w
                break
            k, v = w.split("=", 1)
            want[k] = v
        if refused is not None:
            if not (isinstance(impl, common.ImplError) and impl.cls == "ArgumentError"):
                pred = "the word %r must be refused with an ArgumentError; got %r" % (refused, impl)
        elif isinstance(impl, common.ImplError):
            pred = "well-formed KEY=VALUE words %r were refused: %r" % (d["words"], impl)
        elif (impl or {}) != want or list((impl or {}).keys()) != list(want.keys()) or (impl is None) != (not d["words"]):
            pred = "accumulated dict %r differs from the KEY=VALUE words %r" % (impl, d["words"])
        if not isinstance(impl, common.ImplError):
            impl = [] if impl is None else [[[s2l(k), s2l(v)] for k, v in impl.items()]]
        feats.append("kv:n=%d" % len(d["words"]))
        if not d["words"]:
            feats.append("trivial")
        return dict(wire=[9, [s2l(w) for w in d["words"]]], impl=impl, pred=pred, features=feats, cmp=_cmp())
    if op == "split":
        impl = common.impl_call(lambda: [s2l(x) for x in d["s"].split(d["sep"], d["n"])])
        return dict(wire=[10, s2l(d["s"]), s2l(d["sep"]), d["n"]], impl=impl, pred=None, features=feats + ["split:sep=%d" % len(d["sep"])], cmp=_cmp())
    if op == "required":
        cls = _required_classes()[d["cls"]]
        others = []
        try:
            params = inspect.signature(cls.__init__).parameters
        except (ValueError, TypeError):
            return dict(wire=None, impl=None, pred=None, features=feats + ["trivial"])
        ps = [[s2l(n), int(p.default == inspect.Parameter.empty), ann_code(p.annotation, others)] for n, p in params.items()]
        impl = common.impl_call(introspection.get_required_init_args_with_annotations, cls)
        pred = None
        if isinstance(impl, common.ImplError):
            pred = "get_required_init_args_with_annotations(%s) raised %r" % (cls.__name__, impl)
        else:
            want = [(n, None if p.annotation is inspect.Parameter.empty else p.annotation) for n, p in params.items()
                    if n != "self" and p.default is inspect.Parameter.empty]
            if list(impl.items()) != want:
                pred = "required arguments of %s: got %r, the signature says %r" % (cls.__name__, impl, want)
            impl = [[s2l(n), ann_code(a, others)] for n, a in impl.items()]
        return dict(wire=[11, ps], impl=impl, pred=pred, features=feats + ["required:" + cls.__name__], cmp=common.default_cmp)
    if op == "get_class":
        return _run_get_class(d, feats, introspection)
    if op == "get_args":
        return _run_get_args(d, feats)
    if op in ("parser", "parser_synth"):
        return _run_parser(d, feats)
    raise ValueError(op)


_BODY = {"absent": "", "sub": "from batchie.core import Scorer\nclass Target(Scorer):\n    pass\n",
         "other_class": "class Target:\n    pass\n", "falsy": "Target = 0\n", "non_class": "Target = 5\n", "none": "Target = None\n"}


def _run_get_class(d, feats, introspection):
    from batchie.core import Scorer

    root = tempfile.mkdtemp(dir=common.WORK)
    pkg = "argspkg_" + hashlib.sha1(repr(d).encode()).hexdigest()[:10]
    os.makedirs(os.path.join(root, pkg))
    open(os.path.join(root, pkg, "__init__.py"), "w").close()
    for m in d["modules"]:
        with open(os.path.join(root, pkg, m["name"] + ".py"), "w") as fh:
            fh.write(("raise ImportError('broken module')\n" if m["fails"] else "") + _BODY[m["attr"]])
    sys.path.insert(0, root)
    try:
        importlib.invalidate_caches()
        impl = common.impl_call(introspection.get_class, pkg, "Target", Scorer)
        # the primitives, on the real libraries: the walk order, what each import does, what getattr / bool / issubclass answer
        package = importlib.import_module(pkg)
        by_name = {m["name"]: m for m in d["modules"]}
        mods = []
        for _, name, _ in pkgutil.walk_packages(package.__path__, pkg + "."):
            short = name[len(pkg) + 1:]
            try:
                mod = importlib.import_module(name)
            except ImportError:
                mods.append([s2l(short), 0, []])
                continue
            o = getattr(mod, "Target", None)
            if o is None:
                mods.append([s2l(short), 1, []])
                continue
            isc = inspect.isclass(o)
            mods.append([s2l(short), 1, [[d["modules"].index(by_name[short]), int(bool(o)), int(isc), int(isc and issubclass(o, Scorer))]]])
        pred = None
        if not isinstance(impl, common.ImplError) and impl is not None:
            if not (inspect.isclass(impl) and issubclass(impl, Scorer) and impl.__name__ == "Target"):
                pred = "get_class returned %r, which is not a subclass of the base class named Target" % (impl,)
            impl = [d["modules"].index(by_name[impl.__module__[len(pkg) + 1:]])]
        elif impl is None:
            impl = []
            if any(m["attr"] == "sub" and not m["fails"] for m in d["modules"]):      # then the outcome is that class or an exception
                pred = "get_class found nothing although a module of the package defines a subclass named Target"
        feats += ["get_class:n=%d" % len(d["modules"])] + sorted(set("get_class:" + m["attr"] for m in d["modules"]))
        if not d["modules"]:
            feats.append("trivial")
        return dict(wire=[12, mods, s2l("Target")], impl=impl, pred=pred, features=feats, cmp=_cmp())
    finally:
        sys.path.remove(root)
        for k in [k for k in sys.modules if k == pkg or k.startswith(pkg + ".")]:
            del sys.modules[k]
        shutil.rmtree(root, ignore_errors=True)


# ------------------------------------------------------------------------------------------------ what the links trust (evidence text)
_TRANSLATOR = (
    "the translator harness/py2gal.py, for these links extended (all additions fail closed and are documented in its docstring) by: "
    "str_consts (a string constant = the list of its code points), eqb_membership (`x in [..]` by a declared equality test), "
    "`kdict K V` dicts with typed keys (literal through dict_literal_type, checked read with key_error, store, d.get(k, default), "
    "comprehension and for loop over d.items(), truthiness of a dict / Optional dict, `x or {}`), unpack_error (unpacking a list into "
    "names: ValueError unless the lengths agree), except_tag_lists (try / except over an exception class given as a set of error tags, "
    "PyRt.res_catch_tags; the handler must end in a raise), if_expr (conditional expression whose branches cannot raise), truthy (declared "
    "truth value of an Optional object), loop_return_rewrite (`return` inside a top-level for loop rewritten into a flag variable and break)")
_REPRESENTATION = (
    "the representation at the end of Model/Cli.v: a str = the list of its code points; dicts = insertion-ordered association lists; "
    "a namespace = a record (the plain argparse results main() reads, the class-valued options' names and KEY=VALUE dicts as "
    "parser.parse_args() left them, the attributes get_args() adds - one it has not stored reads as None / {}); what argparse itself "
    "does (tokenising, calling the action once per occurrence in command-line order, type=int / float conversions) is NOT modelled")
ARGS_PRIMS = dict(
    str_to_bool="ARGS_STR_TO_BOOL: s.lower() = p_lower P s (ANY function; the ten spellings are string constants of the source); raise "
                "ValueError = Err 22",
    cast="ARGS_CAST_DICT: the builtin type objects bool / int / float / str = ABool / AInt / AFloat / AStr, the name str_to_bool = the "
         "converter CStrToBool, a type object used as a converter is called (coerce CType), `f(v)` for a converter f = Cli.call_callable "
         "with str_to_bool the TRANSLATED function, int(s) = p_int P s, float(s) = p_float P s, str(s) = s, bool(s) = s non-empty (never "
         "reached: the table maps bool to str_to_bool), None(s) = TypeError 26, any other annotation object = p_call_other P n s (ANY "
         "functions); KeyError = Err 25.  The table literal, the two annotation lookups, .get(t, t), the comprehension over items() in "
         "dict order come from the translation",
    kv="ARGS_KV_APPEND (KVAppendAction.__call__): `args` is the namespace SEEN AT the attribute self.dest (getattr(args, self.dest) reads "
       "it, setattr(args, self.dest, d) stores it: one slot), len(values), values[0] = list_get (IndexError 98), s.split(sep, n) = "
       "Cli.str_split (leftmost non-overlapping occurrences, at most n cuts, ValueError 23 for an empty separator; compared with "
       "str.split on generated inputs by the harness), AssertionError = Err 20, ValueError of unpacking = Err 24, ArgumentError = Err 21; "
       "the assert, the try / except ValueError, the unpacking into (k, v), `... or {}`, d[k] = v come from the translation",
    get_args="ARGS_GET_ARGS_*: get_parser() = a handle, parser.parse_args() = the raw namespace `raw` (ANY record), the namespace "
             "attributes as record projections / setters (a store to a plain argparse result is refused), introspection.get_class("
             "package_name=, class_name=, base_class=) = i_get_class I (keyword call; the base-class names Scorer / PlatePolicy / "
             "BayesianModel / RetrospectivePlateGenerator / InitialRetrospectivePlateGenerator / RetrospectivePlateSmoother = constants), "
             "introspection.get_required_init_args_with_annotations(c) = i_required I c, cast_dict_to_type(d, t) = the TRANSLATED "
             "function (a None dict is a checked unwrap); `I` is ANY record, and is instantiated by the translated introspection "
             "functions in the *_world theorems",
    cmd="ARGS_CMD_*: the primitives of the corresponding CLI_* configuration, except that get_args() = the TRANSLATED get_args on `raw`, "
        "the plain fields are read through the namespace's `*_plain` component, and a constructor call `c(**p)` = construct c p on the "
        "class and the parameter dict the call site reads from the namespace (a None class = TypeError 99); for prepare the attribute's "
        "name selects the constructor (three result types); for train_model the store args.model_params[EXPERIMENT_SPACE] = e = "
        "tm_set_space on that attribute",
    introspection="ARGS_GET_CLASS / ARGS_CREATE_INSTANCE / ARGS_REQUIRED (introspection.py): importlib.import_module(n) = w_import W n (may "
                  "raise), pkgutil.walk_packages(pkg.__path__, name + '.') = the finite list of module names w_walk W pkg name (its "
                  "laziness, and an exception from importing a sub-package while walking, are not represented), getattr(m, n, None) = "
                  "w_getattr, truth value of the attribute = w_truthy, issubclass(c, b) = w_issubclass (may raise), inspect.isclass(c) = "
                  "w_isclass (false for None), inspect.signature(c.__init__) + .parameters = w_signature (name -> (has no default, "
                  "annotation)), param.default == inspect.Parameter.empty, param.annotation, inspect.Parameter.empty = AEmpty, the literal "
                  "None as an annotation = ANone, cls(**kwargs) = construct; ValueError 31, NameError 30, TypeError 29.  The module loop "
                  "with its early return, the skip of `self`, the conditional expression come from the translation")


def explanation(parts, what):
    return ("  Argument-handling glue (theorems *_cli_args_*): %s re-translated as WHOLE functions on every run (Generated/SrcCliArgs.v, "
            "configurations ARGS_* of harness/src_functions.py) and proved equal to the models at the end of Model/Cli.v, for EVERY "
            "record of primitives.  These links trust %s; %s; and EXACTLY these primitives - %s.  "
            % (what, _TRANSLATOR, _REPRESENTATION, "; ".join(ARGS_PRIMS[p] for p in parts)))


# ================================================================================================ the argparse option tables
# (ops "parser" / "parser_synth").  harness/argparse_reader.py reads each get_parser() from the source text; here the SAME reading is
# compared with the real parser object the source builds, the real parser is run on generated command lines (the namespace's attribute
# set = the table's dests, absent options = the table's defaults, every attribute the argument record of the command reads has the kind
# the record assumes), and - under C18, whose driver has op 13 - argparse's reading of each declaration (dest derivation, default,
# kind of value, None-able) is compared with the model's (Cli.opt_dest / opt_default / opt_kind / opt_may_be_none).  "parser_synth":
# the same on synthetic get_parser sources (random declarations), so that reader and model are exercised beyond the nine shipped tables.
_ACT_CODE = {"ActStore": 0, "ActStoreTrue": 1, "ActStoreFalse": 2, "ActAppend": 3, "ActCount": 4, "ActKVAppend": 5}
_ACT_SRC = {"ActStore": None, "ActStoreTrue": '"store_true"', "ActStoreFalse": '"store_false"', "ActAppend": '"append"', "ActCount": '"count"',
            "ActKVAppend": "KVAppendAction"}
_TYPE_CODE = {"int": 0, "float": 1, "str": 2, "str_to_bool": 3}
_NARGS_CODE = {"+": 1, "*": 2, "?": 3}


def _lit_wire(v):
    if v is None:
        return [0]
    if type(v) is bool:
        return [1, int(v)]
    if type(v) is int:
        return [2, v]
    if type(v) is float and v == v and abs(v) != float("inf"):
        return [3] + common.frac(v)
    if type(v) is str:
        return [4, s2l(v)]
    if type(v) is list and not v:
        return [5]
    return ["?", repr(v)]


def _row_wire(o):
    nargs = [] if o["nargs"] is None else [[0, o["nargs"]]] if type(o["nargs"]) is int else [[_NARGS_CODE[o["nargs"]]]]
    return [[s2l(f) for f in o["flags"]], [] if o["dest_kw"] is None else [s2l(o["dest_kw"])], s2l(o["dest"]),
            [] if o["type"] is None else [_TYPE_CODE[o["type"]]], [_lit_wire(o["default"])] if o["has_default"] else [],
            int(o["required"]), _ACT_CODE[o["action"]], nargs]


def _kind_of(v):
    """the kind of a namespace value, as the model's nskind wire; a list's element kind is None when the list is empty"""
    if type(v) is bool:
        return [3]
    if type(v) is int:
        return [0]
    if type(v) is float:
        return [1]
    if type(v) is str:
        return [2]
    if type(v) is dict and all(type(k) is str and type(x) is str for k, x in v.items()):
        return [5]
    if type(v) is list:
        ks = [_kind_of(x) for x in v]
        if not ks:
            return [4, None]
        return [4, ks[0]] if all(k == ks[0] for k in ks) else "?"
    return "?"


def _kind_match(want, got):
    if isinstance(want, list) and isinstance(got, list) and want[:1] == [4] and got[:1] == [4]:
        return got[1] is None or want[1] is None or _kind_match(want[1], got[1])
    return want == got


def _words(o, rng):
    """the command-line words that give option o once (None: the option cannot be given sensibly)"""
    one = {"int": ["7", "-3", "0"], "float": ["0.25", "1", "1e-2"], "str": ["w.h5", "x"], None: ["w.h5", "x"], "str_to_bool": ["yes", "No"]}[o["type"]]
    flag = rng.choice(o["flags"])
    act, nargs = o["action"], o["nargs"]
    if act in ("ActStoreTrue", "ActStoreFalse", "ActCount"):
        return [flag]
    if act == "ActKVAppend":
        return [flag, rng.choice(["k=v", "a=1", "min_size=3"])] if nargs == 1 else None
    n = 1 if nargs is None else rng.randint(1, 3) if nargs in ("+", "*") else rng.randint(0, 1) if nargs == "?" else nargs
    if n < 0:
        return None
    return [flag] + [rng.choice(one) for _ in range(n)]


def _parse(parser, argv):
    import contextlib
    import io
    with contextlib.redirect_stderr(io.StringIO()):
        return common.impl_call(parser.parse_args, list(argv))


def _effective_default(o):
    if o["has_default"]:
        return o["default"]
    return {"ActStoreTrue": False, "ActStoreFalse": True}.get(o["action"])


def _same(a, b):
    return type(a) is type(b) and a == b


def _table_vs_object(table, parser, ap):
    """None, or how the table read from the source text differs from the parser object the source builds"""
    cls = {"ActStore": argparse._StoreAction, "ActStoreTrue": argparse._StoreTrueAction, "ActStoreFalse": argparse._StoreFalseAction,
           "ActAppend": argparse._AppendAction, "ActCount": argparse._CountAction, "ActKVAppend": ap.KVAppendAction}
    typ = {None: None, "int": int, "float": float, "str": str, "str_to_bool": ap.str_to_bool}
    real = [a for a in parser._actions if not isinstance(a, argparse._HelpAction)]
    if len(real) != len(table):
        return "the parser object has %d options, the table read from the source %d" % (len(real), len(table))
    for a, o in zip(real, table):
        got = dict(flags=list(a.option_strings), dest=a.dest, required=bool(a.required), type=a.type, cls=type(a), default=a.default,
                   nargs=a.nargs, choices=None if a.choices is None else list(a.choices))
        want = dict(flags=o["flags"], dest=o["dest"], required=o["required"], type=typ[o["type"]], cls=cls[o["action"]],
                    default=_effective_default(o), choices=o["choices"],
                    nargs=0 if o["action"] in ("ActStoreTrue", "ActStoreFalse", "ActCount") else o["nargs"])
        for k in want:
            same = (got[k] is want[k]) if k in ("type", "cls") else (_same(got[k], want[k]) or (got[k] is None and want[k] is None))
            if not same:
                return "option %s: the parser object has %s = %r, the table read from the source says %r" % (o["flags"], k, got[k], want[k])
    return None


def _table_from_object(parser, ap):
    """the declarations as far as the parser object shows them (used only when the reader refuses the source text)"""
    cls = {argparse._StoreAction: "ActStore", argparse._StoreTrueAction: "ActStoreTrue", argparse._StoreFalseAction: "ActStoreFalse",
           argparse._AppendAction: "ActAppend", argparse._CountAction: "ActCount", ap.KVAppendAction: "ActKVAppend"}
    typ = {int: "int", float: "float", str: "str", ap.str_to_bool: "str_to_bool"}
    out = []
    for a in parser._actions:
        if isinstance(a, argparse._HelpAction) or not a.option_strings:
            continue
        act = cls.get(type(a), "ActStore")
        out.append(dict(flags=list(a.option_strings), dest_kw=None, dest=a.dest, type=typ.get(a.type), has_default=True, default=a.default,
                        required=bool(a.required), action=act, nargs=None if act in ("ActStoreTrue", "ActStoreFalse", "ActCount") else a.nargs,
                        choices=None))
    return out


# what the argument records assume, taken from the CLI_* / ARGS_* configurations of harness/src_functions.py (the types the
# translation gives the namespace attributes); `extra_parser_tables` checks that Cli.*_fields of Model/Cli.v says the same
_CFG_KIND = {"path": ([2], False), "cname": ([2], False), "str": ([2], False), "Z": ([0], False), "bool": ([3], False), "(Z * positive)": ([1], False),
             "kdict str str": ([5], False)}


def _cfg_kind(t):
    if t.startswith("opt "):
        return (_cfg_kind(t[4:])[0], True)
    if t.startswith("list "):
        return ([4, _cfg_kind(t[5:])[0]], False)
    return _CFG_KIND[t]


def expected_fields(cli):
    """{attribute: (kind wire, optional)} - what the translated main() / get_args() of the command read from the namespace"""
    import src_functions as sf
    main = {"calculate_scores": sf.CLI_CALCULATE_SCORES, "select_next_plate": sf.CLI_SELECT_NEXT_PLATE, "train_model": sf.CLI_TRAIN_MODEL,
            "reveal_plate": sf.CLI_REVEAL_PLATE, "prepare_retrospective_simulation": sf.CLI_PREPARE, "extract_screen_metadata": sf.CLI_EXTRACT_METADATA,
            "calculate_distance_matrix": sf.CLI_DISTANCE_MATRIX, "evaluate_model": sf.CLI_EVALUATE_MODEL,
            "analyze_model_evaluation": sf.CLI_ANALYZE}      # its `fields` include args.seed, read by main() itself
    ns = {"calculate_scores": sf._CS_NS_FIELDS, "select_next_plate": sf._SN_NS_FIELDS, "train_model": sf._TM_NS_FIELDS,
          "prepare_retrospective_simulation": sf._PR_NS_FIELDS}
    out = {"verbose": ([3], False)}                                   # log_config.configure_logging(args)
    if cli in main:
        for a, (_owner, t, _get, _set) in main[cli]["fields"].items():
            out[a] = _cfg_kind(t)
        if any(p[0].startswith("get_prng_from_seed_argument") for p in main[cli]["prims"]):
            out["seed"] = ([0], False)                                # read by the translated get_prng_from_seed_argument
    for a, (_owner, t, _get, _set) in ns.get(cli, {}).items():
        if not (a.endswith("_cls") or a.endswith("_params")):         # those two are stored by get_args(), not parsed
            out.setdefault(a, _cfg_kind(t))
    if cli == "calculate_distance_matrix":                            # its get_args() is not translated; read from the source text
        out.update(distance_metric=([2], False), distance_metric_param=([5], True))
    return out


def gen_parser(rng, tier, commands=None, wire=False):
    """real-parser cases for the given commands (all nine by default); wire=True only under C18 (op 13 of its driver)"""
    import argparse_reader
    reps = 6 if tier == "quick" else 40
    for cli in (commands or argparse_reader.COMMANDS):
        for i in range(reps):
            yield dict(kind="cli_args", op="parser", cli=cli, sel=rng.randrange(2 ** 30), mode=("min", "full")[i] if i < 2 else "some", wire=wire)


_SYNTH_FLAGS = ["--alpha", "--n-chunks", "--seed", "--x-param", "--out-dir", "-q", "--beta-gamma", "-z", "--k"]


def gen_parser_synth(rng, tier):
    for i in range(60 if tier == "quick" else 600):
        decls, used = [], set()
        for j in range(rng.randint(1, 4)):
            flags = [f for f in rng.sample(_SYNTH_FLAGS, rng.randint(1, 2)) if f not in used]
            if not flags:
                continue
            used.update(flags)
            act = rng.choice(["ActStore"] * 5 + ["ActStoreTrue", "ActStoreFalse", "ActKVAppend", "ActKVAppend", "ActAppend", "ActCount"])
            d = dict(flags=flags, action=act, dest_kw=rng.choice([None] * 5 + ["dst%d" % j]), type=None, nargs=None, has_default=False, default=None,
                     required=rng.random() < 0.25)
            if act in ("ActStore", "ActAppend") or rng.random() < 0.1:
                d["type"] = rng.choice([None, "int", "int", "float", "str", "str_to_bool"])
            if act in ("ActStore", "ActKVAppend", "ActAppend") and rng.random() < (0.9 if act == "ActKVAppend" else 0.4):
                d["nargs"] = rng.choice([1, 1, 2, "+", "+", "*", "?"]) if act != "ActKVAppend" else rng.choice([1, 1, 1, 1, 2, "+"])
            if rng.random() < 0.55:
                d["has_default"] = True
                fit = {"int": [0, 1, -4], "float": [0.1, 2.5], "str": ["a"], None: ["a", None], "str_to_bool": [True, False]}[d["type"]]
                d["default"] = rng.choice(fit + [None]) if rng.random() < 0.75 else rng.choice([None, 0, 0.5, "7", True, []])
                if d["nargs"] in ("+", "*", 2) and rng.random() < 0.6:
                    d["default"] = []
            decls.append(d)
        if decls:
            yield dict(kind="cli_args", op="parser_synth", decls=decls, sel=rng.randrange(2 ** 30), logging=rng.random() < 0.5, wire=True)


def _synth_source(d):
    lines = ["import argparse", "from batchie import log_config", "from batchie.cli.argument_parsing import KVAppendAction, str_to_bool", "", "",
             "def get_parser():", "    parser = argparse.ArgumentParser(description='synthetic')"]
    if d["logging"]:
        lines.append("    log_config.add_logging_args(parser)")
    for o in d["decls"]:
        kws = []
        if o["dest_kw"] is not None:
            kws.append("dest=%r" % o["dest_kw"])
        if o["type"] is not None:
            kws.append("type=%s" % o["type"])
        if o["has_default"]:
            kws.append("default=%s" % ("list()" if o["default"] == [] else repr(o["default"])))
        if o["required"]:
            kws.append("required=True")
        if _ACT_SRC[o["action"]] is not None:
            kws.append("action=%s" % _ACT_SRC[o["action"]])
        if o["nargs"] is not None:
            kws.append("nargs=%r" % o["nargs"])
        kws.append("help='h'")
        lines.append("    parser.add_argument(%s)" % ", ".join([repr(f) for f in o["flags"]] + kws))
    lines.append("    return parser")
    return "\n".join(lines) + "\n"


def _run_parser(d, feats):
    import random

    import argparse_reader
    from batchie.cli import argument_parsing as ap

    rng = random.Random(d["sel"])
    synth = d["op"] == "parser_synth"
    if synth:
        src = _synth_source(d)
        root = tempfile.mkdtemp(dir=common.WORK)
        try:
            os.makedirs(os.path.join(root, "src", "batchie", "cli"))
            for rel in ("src/batchie/log_config.py", "src/batchie/cli/argument_parsing.py"):
                shutil.copy(os.path.join(common.REPO, rel), os.path.join(root, rel))
            with open(os.path.join(root, "src", "batchie", "cli", "reveal_plate.py"), "w") as fh:
                fh.write(src)
            try:
                table = argparse_reader.read_parser(root, "reveal_plate")
            except argparse_reader.Refused as e:
                return dict(wire=None, impl=None, pred="the reader refuses a get_parser inside its fragment: %s\n%s" % (e, src), features=feats)
        finally:
            shutil.rmtree(root, ignore_errors=True)
        env = {}
        exec(compile(src, "<synthetic get_parser>", "exec"), env)      # noqa: S102 - the text generated above, nothing else
        parser = common.impl_call(env["get_parser"])
        if isinstance(parser, common.ImplError):      # argparse itself refuses the declaration (e.g. nargs with store_true): nothing to compare
            return dict(wire=None, impl=None, pred=None, features=feats + ["parser_synth:argparse-refuses", "trivial"])
        fields = {}
    else:
        cli = d["cli"]
        feats = feats + ["parser:" + cli, "parser:%s:%s" % (cli, d["mode"])]
        parser = importlib.import_module("batchie.cli." + cli).get_parser()
        fields = expected_fields(cli)
        try:
            table = argparse_reader.read_parser(common.REPO, cli)
        except argparse_reader.Refused:
            # outside the reader's fragment: the static side reports it (the lemmas about src_parser_<cli> stop compiling); the
            # command lines are then built from the parser OBJECT, and only the predicates on the real namespace are evaluated
            table = _table_from_object(parser, ap)
            feats = feats + ["parser:refused"]
            d = dict(d, wire=False)
    pred = None if "parser:refused" in feats else _table_vs_object(table, parser, ap)
    dests = [o["dest"] for o in table]
    # command lines: the required options always; the others per mode
    mode = d.get("mode", "some")
    req = [o for o in table if o["required"]]
    opt = [o for o in table if not o["required"]]
    chosen = opt if mode == "full" else [] if mode == "min" else [o for o in opt if rng.random() < 0.5]
    order = req + chosen
    rng.shuffle(order)
    argv, given, ungivable = [], set(), False
    for o in order:
        w = _words(o, rng)
        if w is None:
            ungivable = True
            continue
        argv += w
        given.add(o["dest"])
        if o["action"] == "ActKVAppend" and rng.random() < 0.4:
            argv += [o["flags"][0], "other=x y"]
    ns = _parse(parser, argv)
    obs = None
    if isinstance(ns, common.ImplError):
        # a required option that cannot be given (KVAppendAction with nargs != 1 ...) or a '?' / append shape the generator does not
        # serve: only for synthetic parsers; a shipped parser must accept its well-formed command line
        if not synth and pred is None:
            pred = "%s: the well-formed command line %r is refused: %r" % (d.get("cli"), argv, ns)
        feats = feats + ["parser:refused-line"]
    else:
        got = vars(ns)
        if pred is None and set(got) != set(dests):
            pred = "the namespace has the attributes %s, the table's dests are %s" % (sorted(got), sorted(set(dests)))
        if pred is None and len(set(dests)) == len(dests):
            for o in table:
                if o["dest"] in given or o["dest"] not in got:
                    continue
                want = _effective_default(o)
                if isinstance(want, str) and o["type"] not in (None, "str"):      # argparse converts a string default through type
                    continue
                if not _same(got[o["dest"]], want):
                    pred = "option %s was not given; args.%s is %r, the table's default is %r" % (o["flags"], o["dest"], got[o["dest"]], want)
                    break
        if pred is None:
            for a, (kind, optional) in fields.items():
                if a not in got:
                    pred = "args.%s, which %s reads, is not an attribute of the parsed namespace %s" % (a, d["cli"], sorted(got))
                elif got[a] is None:
                    if not optional:
                        pred = "args.%s is None on the command line %r; the argument record assumes a value" % (a, argv)
                elif not _kind_match(kind, _kind_of(got[a])):
                    pred = "args.%s = %r on the command line %r; the argument record assumes kind %s" % (a, got[a], argv, kind)
                if pred is not None:
                    break
        obs = got
    wire = impl = None
    if d.get("wire") and len(set(dests)) == len(dests):
        # argparse's reading of each declaration, observed on the real parser: dest, default, None-able (the value when only the
        # required options are given), kind (the value when the option is given, which the default - unless None - must share)
        real = [a for a in parser._actions if not isinstance(a, argparse._HelpAction)]
        ns_min = _parse(parser, [w for o in req for w in (_words(o, rng) or [])])
        ns_full = _parse(parser, [w for o in table for w in (_words(o, rng) or [])])
        impl = []
        for a, o in zip(real, table):
            none = "?" if isinstance(ns_min, common.ImplError) else int((not o["required"]) and getattr(ns_min, a.dest) is None)
            kind = "?" if isinstance(ns_full, common.ImplError) else _kind_of(getattr(ns_full, a.dest))
            if kind != "?" and not isinstance(ns_min, common.ImplError) and not o["required"] and getattr(ns_min, a.dest) is not None \
                    and not _kind_match(kind, _kind_of(getattr(ns_min, a.dest))):
                kind = "inconsistent"
            impl.append([s2l(a.dest), kind, none, _lit_wire(a.default)])
        wire = [13, [_row_wire(o) for o in table]]
    feats = feats + ["parser:n=%d" % len(table), "parser:given=%d" % len(given)] + sorted(set("parser:act=" + o["action"] for o in table))
    return dict(wire=wire, impl=impl, pred=pred, features=feats, cmp=_cmp_parser)


def _cmp_parser(m, i):
    if isinstance(m, str):
        return "model driver failure: " + m
    if len(m) != len(i):
        return "model read %d options, the parser has %d" % (len(m), len(i))
    for row_m, row_i in zip(m, i):
        dest, kind, none, default = row_m
        if dest != row_i[0]:
            return "dest: model %r, argparse %r" % (common.l2s(dest), common.l2s(row_i[0]))
        if default != row_i[3]:
            return "default of %s: model %r, argparse %r" % (common.l2s(dest), default, row_i[3])
        if row_i[2] != "?" and none != row_i[2]:
            return "%s may be None: model %r, observed %r" % (common.l2s(dest), none, row_i[2])
        if kind and row_i[1] != "?":      # the model claims a kind only for the shapes it knows
            want = _unwire_kind(kind[0])
            if not _kind_match(want, row_i[1]):
                return "kind of args.%s: model %r, observed %r" % (common.l2s(dest), want, row_i[1])
    return None


def _unwire_kind(k):
    return [4, _unwire_kind(k[1])] if k[0] == 4 else [k[0]]


def extra_parser_tables():
    """whole-run check: the hand-written Cli.*_fields tables of Model/Cli.v name exactly the attributes, kinds and optionality that the
    CLI_* / ARGS_* configurations of the translated main() / get_args() give the namespace (expected_fields)"""
    import re
    txt = common.strip_coq_comments(open(os.path.join(common.COQ, "theories", "Model", "Cli.v")).read())
    tabs = {"calculate_scores": "cs", "select_next_plate": "sn", "train_model": "tm", "reveal_plate": "rp", "prepare_retrospective_simulation": "pr",
            "extract_screen_metadata": "em", "calculate_distance_matrix": "cd", "evaluate_model": "ev", "analyze_model_evaluation": "am"}
    kinds = {"KInt": [0], "KFloat": [1], "KStr": [2], "KBool": [3], "KKV": [5], "(KList KStr)": [4, [2]], "(KList KInt)": [4, [0]]}

    def table(name):
        m = re.search(r"Definition %s : list nsfield :=\s*\[(.*?)\]\." % name, txt, re.S)
        return {a: (kinds[k], o == "true") for a, k, o in re.findall(r'fld "([a-z_]+)" (\([A-Za-z ]+\)|[A-Za-z]+) (true|false)', m.group(1))} if m else None
    bad = []
    logging = table("logging_fields")
    for cli, p in tabs.items():
        got = table(p + "_fields")
        want = expected_fields(cli)
        if got is None or logging is None or dict(got, **logging) != want:
            bad.append("%s: Cli.%s_fields ++ logging_fields = %r, the configurations say %r" % (cli, p, got, want))
    return [("parser-field-tables-match-configurations", not bad, "; ".join(bad) or "9 commands")]


# ---- registration helpers for the harness modules (theorem meanings, evidence text) ----
_PARSER_FIELDS = {"calculate_scores": "cs_fields", "select_next_plate": "sn_fields", "train_model": "tm_fields", "reveal_plate": "rp_fields",
                  "prepare_retrospective_simulation": "pr_fields", "extract_screen_metadata": "em_fields", "calculate_distance_matrix": "cd_fields",
                  "evaluate_model": "ev_fields", "analyze_model_evaluation": "am_fields"}
_PARSER_MEANING = {
    "fields": "every namespace attribute the argument record of {c} assumes (Cli.{f}: the projections of the Cli.*_args record the translated main() "
              "reads, the class-name and KEY=VALUE attributes get_args() reads, plus args.verbose of configure_logging) is the dest of EXACTLY ONE "
              "option of the table read from {c}.get_parser() on this run; that option stores the assumed kind of value (int / float / str / bool "
              "/ list of these / KEY=VALUE dict, the default being of the same kind) and can be None exactly where the record has an option type",
    "dests_derived": "for every option of {c}.get_parser() the dest the reader computed equals argparse's derivation (dest=, else the first "
                     "long flag, dashes stripped / replaced) as defined in Cli.opt_dest",
    "dests_distinct": "no two options of {c}.get_parser() share a dest, and no flag is declared twice",
    "seed": "{c}.get_parser() declares --seed as the one option stored at args.seed, an int option whose default is a non-negative int literal: "
            "get_prng_from_seed_argument never sees None, and the default seed is one SeedSequence accepts",
    "coordinates": "an option of {c}.get_parser() carrying --n-chunks / --chunk-index / --n-chains / --chain-index is stored at the attribute "
                   "of that name, holds an int and is never None",
    "params": "every option of {c}.get_parser() whose flag ends in -param uses KVAppendAction with nargs=1, no type and no default: a KEY=VALUE "
              "dict or None",
    "fraction": "{c}.get_parser() declares --holdout-fraction as the one option stored at args.holdout_fraction: a float option, never None, "
                "whose default is a float literal in [0, 1]",
}


def parser_theorems(pid, plan):
    """plan = {command: [what, ...]} -> {theorem name: meaning}"""
    out = {}
    for c, whats in plan.items():
        for w in whats:
            out["%s_source_parser_%s_%s" % (pid, c, w)] = _PARSER_MEANING[w].format(c=c, f=_PARSER_FIELDS[c])
    return out


def parser_explanation(commands):
    return ("  Option tables (theorems *_source_parser_*): get_parser() of %s is re-read from /repo on every run by harness/argparse_reader.py "
            "into Generated/SrcParser_<command>.v (one file per command; not py2gal: a dedicated fail-closed reader) and the theorems are proved "
            "by evaluating checkers on that table (Proofs/C18Parser.v, C18SourceParser_<command>.v).  They trust: (a) the reader, which accepts "
            "ONLY `parser = argparse.ArgumentParser(description=<literal>)`, `log_config.add_logging_args(parser)` (that function read the same "
            "way), `parser.add_argument(<flag literals>, type=int|float|str|str_to_bool, default=<literal|list()>, required=<bool>, "
            "action=<store|store_true|store_false|append|count literal|KVAppendAction>, nargs=<int|'+'|'*'|'?'>, choices=<literals>, dest=<literal>, "
            "help= / metavar= (dropped))` and `return parser`, with argparse / log_config / KVAppendAction / str_to_bool / int / float / str / list bound "
            "as they look (checked on the module's bindings) and KVAppendAction a plain argparse.Action subclass defining only __call__ - "
            "anything else is refused and the theorems stop compiling; (b) argparse's reading of one declaration as written at the end of "
            "Model/Cli.v (opt_dest, opt_default, opt_kind, opt_may_be_none; shapes it does not know - nargs='?', append, count, a default "
            "of another kind - get NO kind, so no field can rely on them); (c) the hand-written field tables Cli.*_fields (checked at run "
            "time against the CLI_* / ARGS_* configurations of the translated main() / get_args()).  Runtime (kind cli_args, ops parser / "
            "parser_synth): the table read from the text is compared with the parser object the text builds (flags, dest, type, default, "
            "required, action class, nargs, choices); the real parser is run on generated command lines (attribute set = the table's dests, "
            "absent options = the table's defaults, every assumed attribute of the assumed kind); under C18 the model's reading of each "
            "declaration is compared with argparse's (op 13), on the shipped parsers and on synthetic get_parser sources.  The automatic "
            "-h/--help option is not part of a table.  " % ", ".join(commands))
