"""C02 — Screen and experiment-space persistence is lossless (save_h5 / load_h5 through real h5py)."""
import os
import shutil
import tempfile

import numpy as np

import common
import screenlib as sl
from common import ImplError, cmp_result, float_key, s2l

ID = "C02"
LEVEL = "proof"
RULE = ("kinds: plain (random rows, arity 1-3, constructed with no mappings; observations/mask given or not), reuse (construct a "
        "superset screen, then the screen under test from a random sub-list of its rows with the superset's own mappings: "
        "mappings strictly larger than the data, the train/test situation), shuffled (as reuse but the supplied mappings are "
        "hand-permuted, so stored order != sorted order), empty (0 rows — fresh empty mappings or supplied non-empty ones; arity 1-3 must "
        "survive; plain screens whose 2-d treatment arrays are handed over column-major), nan_dose (NaN doses; "
        "implementation-side predicate only), each as a Screen "
        "or as ExperimentSpace.from_screen, or an ExperimentSpace built directly from mapping arrays (ids with gaps, any order); 1-3 consecutive save_h5/load_h5 cycles through real h5py files. Names: '', "
        "non-ASCII incl. 3- and 4-byte UTF-8, unequal lengths, inner/trailing blanks; control name '', ASCII, non-ASCII; doses incl. "
        "-0.0, subnormal, inf; observations as raw bit patterns incl. -0.0, subnormals, +-inf, quiet/signalling NaN payloads, "
        "random 64-bit patterns. Non-trivial: at least 2 rows; distinct by canonical description."
        "  kind merged (24 quick / 288 thorough, implementation-only predicate): a constructed screen (a third of them a sub-screen carrying superset mappings) is MUTATED IN PLACE by "
        "Plate.merge of two plates with equal observed-ness (what the merge smoothers hand to save_h5), then saved and loaded 1-2 times; every observable the property lists must be "
        "unchanged (plate_mapping is not listed by the property - 'both id mappings' are the treatment and sample mapping - and Plate.merge leaves it stale; that is not judged here).  "
        "Big screens (6 quick / 72 thorough, kinds plain / reuse, with and without the space): 11-40 sample and plate names, random unicode names up to 40 (thorough 120) characters, "
        "up to 80 (thorough 400) rows, mappings up to ~150 entries.")
THEOREMS = {
    "C02_load_save": "EVERY screen returned by the constructor (any rows incl. none, any arity, flags, built or supplied mappings "
                     "incl. strict supersets in any stored order) satisfies load (save s) = Ok s: the whole record (rows, arity, "
                     "control name, the three id arrays, the three mappings) is reproduced",
    "C02_load_save_observables": "the same, observable by observable (sample/plate/treatment names, dose keys, observation bit "
                                 "patterns, mask, arity, control name, treatment/sample/plate ids, the three mappings in stored order)",
    "C02_no_renumber": "the ids and mappings after the load are literally those of the saved screen, and a supplied mapping "
                       "(entries no row uses included) is what comes back",
    "C02_fixed_point": "load (save s) = Ok s' with save s' = save s, load (save s') = Ok s' and n cycles from s' return s'",
    "C02_any_number_of_cycles": "n save/load cycles of any constructible screen return that screen, for every n",
    "C02_load_save_characterised": "exact, for any screen record: load (save s) is the constructor call load_h5 makes (stored rows, "
                                   "arity, control name; observations and mask given; stored treatment/sample mappings supplied)",
    "C02_space_load_save": "every experiment space satisfies space_load (space_save sp) = Ok sp (empty mappings included)",
    "C02_space_fixed_point": "the loaded space is the saved one; second save identical; n cycles return it",
    "C02_space_any_number_of_cycles": "n save/load cycles of any space return it",
    "C02_space_of_screen": "the space of every constructible screen round-trips for any number of cycles, and from_screen commutes "
                           "with the screen's own round trip",
    "C02_model_is_source_string_codec": "the translations of the helpers encode_string_array / decode_string_array (size-0 guard, "
        "np.empty of the same shape, np.char.encode / decode) on 1-d and 2-d arrays are the identity on the strings of EVERY array, "
        "also one without elements, where numpy's codec alone answers with a float64 array (the defect repaired in 81a412f)",
    "C02_model_is_source_screen_save_h5": "the Gallina translation of the WHOLE method Screen.save_h5, regenerated from /repo's current "
        "data.py on this run (Generated/SrcPersist.v), writes for every screen record a raw HDF5 file (datasets / attributes by name) "
        "which, read back by name (h5_close), is exactly the model's save s: the 14 datasets and the attribute, each under the "
        "model's name and from the model's attribute of the screen - treatment_mapping_names/_doses/_ids and "
        "sample_mapping_names/_ids included (independent of the order of the create_dataset calls)",
    "C02_model_is_source_screen_load_h5": "the translation of the WHOLE staticmethod Screen.load_h5, on ANY raw file that represents a "
        "model record f (every dataset of f present under its name), equals the model's load f: which datasets are read, which are "
        "decoded, and which keyword of Screen(...) each reaches - in particular sample_mapping=(sample_mapping_names, "
        "sample_mapping_ids) and treatment_mapping=(treatment_mapping_names, _doses, _ids); Screen(...) is the model constructor "
        "on exactly the keywords the call passes",
    "C02_model_is_source_screen_save_load": "translated load_h5 applied to the raw file the translated save_h5 wrote = the model's "
        "load (save s), for every screen record: the C02 theorems above are theorems about the translated source",
    "C02_source_round_trip": "every constructible screen comes back unchanged from translated save_h5 + load_h5, after any number of cycles",
    "C02_model_is_source_space_from_screen": "the translation of ExperimentSpace.from_screen = the model's space_of_screen (the "
        "screen's treatment_mapping, sample_mapping, control_treatment_name passed to cls(...))",
    "C02_model_is_source_space_save_h5": "the translation of ExperimentSpace.save_h5 writes a raw file that reads back (h5_close_space) "
        "as the model's space_save sp: five datasets + the attribute under the model's names",
    "C02_model_is_source_space_load_h5": "the translation of ExperimentSpace.load_h5 on any raw file representing a record g = the "
        "model's space_load g (the two tuples built from the five datasets, cls(...) with the three keywords)",
    "C02_model_is_source_space_save_load": "translated ExperimentSpace.load_h5 after translated save_h5 = space_load (space_save sp)",
    "C02_source_space_round_trip": "translated from_screen, save_h5, load_h5 one after the other return space_of_screen s for every screen",
}
ASSUMPTIONS = [
    "h5py dataset write/read is the identity on numeric and bool arrays (values bit-for-bit, shape, dtype) and on a str attribute",
    "encode_string_array/decode_string_array (np.char.encode/decode, UTF-8; size-0 arrays mapped to empty bytes/str arrays of the "
    "same shape) are mutually inverse on arrays of valid NUL-free strings of any shape, including (0,) and (0, arity)",
    "the id arrays of a constructed screen's mappings are int64 (pandas RangeIndex arithmetic, or accepted by "
    "numpy_array_is_0_indexed_integers); the harness asserts this dtype on every case",
    "doses cross the wire as order keys identifying -0.0 and 0.0 (pandas merge does); raw dose bits are compared on the "
    "implementation side by the predicate; NaN doses are outside the quantifier",
    "supplied mappings are key-unique (batchie's own are); with duplicate keys pandas merge multiplies rows and the shared "
    "constructor model (first match) is not faithful — the theorems do not need the hypothesis but the correspondence does",
    "treatment arity >= 1 on the implementation (np.concatenate of zero columns raises in the constructor); the model's arity-0 "
    "screens are covered by the theorems but unreachable in the code",
]
EXPLANATION = ("Model: Model/Persist.v (save/load/space_save/space_load over Model/Screen.v mk_screen). Compared exactly against the "
               "implementation after k real save_h5/load_h5 cycles: every row (names, dose keys, observation bits, mask), "
               "treatment/sample/plate ids, the three mappings in stored order, ExperimentSpace sizes, and every dataset of the "
               "last file read back raw with h5py; or error-ness.  Predicate (implementation only): field-by-field equality "
               "before vs after each cycle incl. raw dose bits, array shapes, dtypes, type of the control name, and "
               "dataset-by-dataset equality of consecutive files.  corpus/C02/zero_rows.json and empty_space.json are the "
               "witnesses of the defect repaired in /repo 81a412f (0-row screen / empty-mapping space did not load).  "
               "SOURCE LINK (C02_model_is_source_*): Screen.save_h5, Screen.load_h5, ExperimentSpace.from_screen / save_h5 / load_h5 are "
               "re-translated WHOLE from /repo's data.py into Gallina on every run (harness/py2gal.py, configurations C02_* of "
               "harness/src_functions.py, output Generated/SrcPersist.v; anything outside the fragment, a changed parameter list or a "
               "dataset name without a primitive stops the build = broken obligation) and proved equal to Model/Persist.v's save / load / "
               "space_of_screen / space_save / space_load for all inputs, through the representation map h5_close (raw file by name -> "
               "the model's record).  From the translation: the sequence of create_dataset calls, which attribute of the object goes "
               "under which dataset name, the `with` blocks, the return inside `with`, the tuples built for the two mappings, the "
               "keyword arguments of Screen(...) / cls(...) and their evaluation order.  Trusted: the translator, and these primitives "
               "(one call each): h5py.File(p, 'w') as f = an empty raw file, h5py.File(p, 'r') as f = the file's content, closing "
               "changes nothing; f.create_dataset(NAME, data=d[, compression='gzip']) appends dataset NAME holding d (refused if NAME "
               "exists), one primitive per literal NAME of the 14 screen / 5 space datasets with the array kind stored there; "
               "f[NAME][:] = the stored array (KeyError when absent; another kind than expected is an error); f.attrs[NAME] = v / "
               "f.attrs[NAME] set / read an attribute; encode_string_array / decode_string_array are themselves translated (per array "
               "rank) and their calls run the translations; inside them: arr.size == 0 = the array has no element, "
               "np.empty(arr.shape, dtype) = the array itself where it has no element (elsewhere refused), np.char.encode(arr) / "
               "np.char.decode(arr, 'utf-8') = the identity on the strings of an array WITH elements and an error (numpy answers "
               "with a float64 array) on one without; .astype(str) on a string array = the identity (str and bytes arrays are "
               "different translator types, so a missing or doubled codec call is refused); "
               "self.<attr> of a Screen = the column of its rows (2-d ones with shape[1]), its id arrays, its control name, its "
               "treatment_mapping / sample_mapping as the tuple of the mapping's columns; m[0], m[1], m[2] = tuple projections; "
               "self.<attr> of an ExperimentSpace likewise; Screen(...) = arrays_screen = mk_screen on the rows zipped from the arrays "
               "passed (different lengths / shapes refused, a keyword not passed = None, mapping ids of integer dtype); cls(...) in "
               "ExperimentSpace's classmethods = the record of its three arguments.  The differential correspondence above is what "
               "exercises these primitives against real h5py / numpy.")

# witnesses of the repaired defect (also stored as corpus/C02/*.json, run first on every check)
WITNESS_ZERO_ROWS = dict(kind="empty", rows=[], arity=1, ctrl="", obs_given=True, mask_given=True, sel=None, shuffle=None, k=1, space=False)
WITNESS_EMPTY_SPACE = dict(kind="empty", rows=[], arity=1, ctrl="", obs_given=True, mask_given=True, sel=None, shuffle=None, k=1, space=True)
TRUSTED = ["h5py 3.x / HDF5 as the storage layer (real files are written and read in every case)"]

MYNAMES = ["", "a", "b", "ab", "é", "á", "control", "c", "B", "aa", "drug with blanks", "x ", " x", "日本", "𝛼β", "long-name-0123456789",
           "Z", "é́", "ß", "1", "0.5"]
MYDOSES = sl.DOSES + [float("inf"), 2.0 ** -1022, 1e-3]
MYCTRLS = ["", "", "control", "a", "é", "日本"]
OBS_BITS = [0x0000000000000000, 0x8000000000000000, 0x0000000000000001, 0x000FFFFFFFFFFFFF, 0x0010000000000000,
            0x7FF0000000000000, 0xFFF0000000000000, 0x7FF8000000000000, 0x7FF0000000000001, 0xFFF8000000000123,
            0x7FF4000000000000, 0x3FF0000000000000, 0x3FD3333333333333, 0x3FE0000000000000, 0xBFF0000000000001,
            0x7FEFFFFFFFFFFFFF]


# --------------------------------------------------------------------------- building real objects


def _with_o(d):
    """screenlib descriptions carry observation floats; ours carry bit patterns (JSON-able NaN payloads)"""
    rows = [dict(r, o=sl.bits_obs(r["ob"])) for r in d["rows"]]
    return dict(d, rows=rows)


def _build(d):
    """real Screen from a description whose rows carry 'ob' (float64 bit pattern)"""
    from batchie.data import Screen

    d = _with_o(d)
    tn, td, sn, pn, _, mask = sl.arrays(d)
    obs = np.array([r["ob"] for r in d["rows"]], dtype=np.uint64).view(np.float64)
    if d.get("layout") == "F":      # column-major 2-d arrays (what DataFrame.to_numpy() hands out): same values, other memory order
        tn, td = np.asfortranarray(tn), np.asfortranarray(td)
    kw = dict(treatment_names=tn, treatment_doses=td, sample_names=sn, plate_names=pn, control_treatment_name=d["ctrl"])
    if d["obs_given"]:
        kw["observations"] = obs
    if d["mask_given"]:
        kw["observation_mask"] = mask
    if d.get("tmap") is not None:
        kw["treatment_mapping"] = sl.np_tmap(d["tmap"])
    if d.get("smap") is not None:
        kw["sample_mapping"] = sl.np_smap(d["smap"])
    return Screen(**kw)


def _maps_of(s):
    return (dict(rows=[[str(n), float(x), int(i)] for n, x, i in zip(*s.treatment_mapping)], isint=True),
            dict(rows=[[str(n), int(i)] for n, i in zip(*s.sample_mapping)], isint=True))


def _subject(desc):
    """returns (real screen under test, description whose wire_mk_args reproduces it, wire 'sub' argument)"""
    base = dict(desc, tmap=None, smap=None)
    if desc.get("sel") is None:
        return _build(base), base, []
    s1 = _build(base)
    tm, sm = _maps_of(s1)
    sub = [r for r, b in zip(desc["rows"], desc["sel"]) if b]
    if desc.get("shuffle") is not None:
        # hand-made (not batchie-ordered) mappings: same entries, permuted storage order
        def perm(rows, keys):
            ks = (keys * (len(rows) // max(1, len(keys)) + 1))[:len(rows)]
            return [r for _, _, r in sorted(zip(ks, range(len(rows)), rows))]
        tm = dict(rows=perm(tm["rows"], desc["shuffle"]), isint=True)
        sm = dict(rows=perm(sm["rows"], list(reversed(desc["shuffle"]))), isint=True)
        d2 = dict(base, rows=sub, tmap=tm, smap=sm, obs_given=True, mask_given=True)
        return _build(d2), d2, []
    d2 = dict(base, rows=sub, tmap=tm, smap=sm, obs_given=True, mask_given=True)
    return _build(d2), base, [[sl.wire_row(r) for r in _with_o(d2)["rows"]]]


# --------------------------------------------------------------------------- canonical forms / snapshots


def _bits2(a):
    a = np.ascontiguousarray(np.asarray(a, dtype=np.float64))
    return a.view(np.uint64).tolist()


def _snap_screen(s):
    """every observable of a real Screen, raw (no order keys): used by the predicate only"""
    tm, sm, pm = s.treatment_mapping, s.sample_mapping, s.plate_mapping
    return dict(
        treatment_names=[[str(x) for x in r] for r in np.asarray(s.treatment_names)],
        treatment_names_shape=list(np.asarray(s.treatment_names).shape),
        treatment_doses_bits=_bits2(s.treatment_doses),
        treatment_doses_shape=list(np.asarray(s.treatment_doses).shape),
        sample_names=[str(x) for x in s.sample_names],
        plate_names=[str(x) for x in s.plate_names],
        observations_bits=_bits2(s.observations),
        observation_mask=[bool(x) for x in s.observation_mask],
        control_treatment_name=str(s.control_treatment_name),
        control_treatment_name_is_str=isinstance(s.control_treatment_name, str),
        treatment_ids=np.asarray(s.treatment_ids).tolist(),
        treatment_ids_shape=list(np.asarray(s.treatment_ids).shape),
        sample_ids=[int(x) for x in s.sample_ids],
        plate_ids=[int(x) for x in s.plate_ids],
        treatment_mapping_names=[str(x) for x in tm[0]],
        treatment_mapping_doses_bits=_bits2(tm[1]),
        treatment_mapping_ids=[int(x) for x in tm[2]],
        sample_mapping_names=[str(x) for x in sm[0]],
        sample_mapping_ids=[int(x) for x in sm[1]],
        plate_mapping_names=[str(x) for x in pm[0]],
        plate_mapping_ids=[int(x) for x in pm[1]],
        # dtypes the next constructor call depends on
        dtype_treatment_names_is_str=bool(np.issubdtype(np.asarray(s.treatment_names).dtype, str)),
        dtype_sample_names_is_str=bool(np.issubdtype(np.asarray(s.sample_names).dtype, str)),
        dtype_plate_names_is_str=bool(np.issubdtype(np.asarray(s.plate_names).dtype, str)),
        dtype_treatment_doses=str(np.asarray(s.treatment_doses).dtype),
        dtype_observations=str(np.asarray(s.observations).dtype),
        dtype_observation_mask=str(np.asarray(s.observation_mask).dtype),
        dtype_treatment_mapping_ids=str(np.asarray(tm[2]).dtype),
        dtype_sample_mapping_ids=str(np.asarray(sm[1]).dtype),
        dtype_treatment_ids_is_int=bool(np.issubdtype(np.asarray(s.treatment_ids).dtype, np.integer)),
        dtype_sample_ids_is_int=bool(np.issubdtype(np.asarray(s.sample_ids).dtype, np.integer)),
        dtype_plate_ids_is_int=bool(np.issubdtype(np.asarray(s.plate_ids).dtype, np.integer)),
    )


def _snap_space(sp):
    tm, sm = sp.treatment_mapping, sp.sample_mapping
    return dict(
        treatment_mapping_names=[str(x) for x in tm[0]],
        treatment_mapping_doses_bits=_bits2(tm[1]),
        treatment_mapping_ids=[int(x) for x in tm[2]],
        sample_mapping_names=[str(x) for x in sm[0]],
        sample_mapping_ids=[int(x) for x in sm[1]],
        control_treatment_name=str(sp.control_treatment_name),
        control_treatment_name_is_str=isinstance(sp.control_treatment_name, str),
        dtype_treatment_mapping_ids=str(np.asarray(tm[2]).dtype),
        dtype_sample_mapping_ids=str(np.asarray(sm[1]).dtype),
        n_unique_samples=int(sp.n_unique_samples), n_unique_treatments=int(sp.n_unique_treatments),
    )


def _first_diff(a, b):
    for k in a:
        if a[k] != b.get(k):
            return k
    for k in b:
        if k not in a:
            return k
    return None


def _raw_file(path):
    """every dataset / attribute of an HDF5 file: name -> (dtype, shape, bytes)"""
    import h5py

    out = {}
    with h5py.File(path, "r") as f:
        for k in sorted(f.keys()):
            a = f[k][:]
            out[k] = (str(a.dtype), list(a.shape), np.ascontiguousarray(a).tobytes().hex())
        for k in sorted(f.attrs.keys()):
            v = f.attrs[k]
            out["@" + k] = (type(v).__name__, [], str(v))
    return out


def _dec(a):
    """string dataset -> list of code-point lists (flattened); a size-0 dataset is []"""
    a = np.asarray(a)
    if a.size == 0:
        return []
    return [s2l(x.decode("utf-8")) for x in a.reshape(-1)]


def _canon_file(path):
    """the saved screen file in the shape of RunC02.of_file"""
    import h5py

    with h5py.File(path, "r") as f:
        tn = f["treatment_names"][:]
        td = f["treatment_doses"][:]
        # the 2-d shape must be stored (also without rows) and be the same for names and doses, else arity -1
        n, a = (tn.shape if (tn.ndim == 2 and tn.shape == td.shape and tn.dtype.kind == "S") else (0, -1))
        flat = _dec(tn)
        tnames = [flat[i * a:(i + 1) * a] for i in range(n)] if tn.size else [[] for _ in range(n)]
        ti = f["treatment_ids"][:]
        return [tnames,
                [[float_key(x) for x in r] for r in td],
                [[int(x) for x in r] for r in ti],
                _dec(f["treatment_mapping_names"][:]), [float_key(x) for x in f["treatment_mapping_doses"][:]],
                [int(x) for x in f["treatment_mapping_ids"][:]],
                [int(x) for x in f["observations"][:].view(np.uint64)], [bool(x) for x in f["observation_mask"][:]],
                [int(x) for x in f["sample_ids"][:]], _dec(f["sample_names"][:]),
                _dec(f["sample_mapping_names"][:]), [int(x) for x in f["sample_mapping_ids"][:]],
                [int(x) for x in f["plate_ids"][:]], _dec(f["plate_names"][:]),
                s2l(str(f.attrs["control_treatment_name"])), int(a)]


def _canon_sfile(path):
    import h5py

    with h5py.File(path, "r") as f:
        return [_dec(f["treatment_names"][:]), [float_key(x) for x in f["treatment_doses"][:]], [int(x) for x in f["treatment_ids"][:]],
                _dec(f["sample_names"][:]), [int(x) for x in f["sample_ids"][:]], s2l(str(f.attrs["control_treatment_name"]))]


def _canon_space(sp):
    return [sl.canon_tmap(sp.treatment_mapping), sl.canon_nmap(sp.sample_mapping), s2l(str(sp.control_treatment_name))]


# --------------------------------------------------------------------------- generator


def _rows(rng, n=None, ctrl=""):
    names = rng.sample(MYNAMES, rng.randint(1, 6)) + [ctrl]
    doses = rng.sample(MYDOSES, rng.randint(1, 6))
    samples = rng.sample(MYNAMES, rng.randint(1, 4))
    plates = rng.sample(MYNAMES, rng.randint(1, 4))
    rows, a = sl.gen_rows(rng, n=n, names=names, doses=doses, samples=samples, plates=plates, ctrl=ctrl)
    for r in rows:
        del r["o"]
        u = rng.random()
        r["ob"] = rng.choice(OBS_BITS) if u < 0.7 else rng.getrandbits(64)
    return rows, a


def gen(rng, tier):
    N = 1 if tier == "quick" else 12
    sizes = [1, 2, 2, 3, 4, 5, 6, 8, 10, 12]
    for _ in range(110 * N):
        ctrl = rng.choice(MYCTRLS)
        rows, a = _rows(rng, n=rng.choice(sizes), ctrl=ctrl)
        og = rng.random() < 0.85
        mg = og and rng.random() < 0.75
        yield dict(kind="plain", rows=rows, arity=a, ctrl=ctrl, obs_given=og, mask_given=mg, sel=None, shuffle=None,
                   k=rng.choice([1, 1, 2, 3]), space=False)
    for _ in range(130 * N):
        ctrl = rng.choice(MYCTRLS)
        rows, a = _rows(rng, n=rng.choice([2, 3, 4, 6, 8, 10, 12]), ctrl=ctrl)
        sel = [rng.random() < 0.55 for _ in rows]
        if not any(sel):
            sel[rng.randrange(len(sel))] = True
        yield dict(kind="reuse", rows=rows, arity=a, ctrl=ctrl, obs_given=True, mask_given=True, sel=sel, shuffle=None,
                   k=rng.choice([1, 1, 2, 3]), space=False)
    for _ in range(50 * N):
        ctrl = rng.choice(MYCTRLS)
        rows, a = _rows(rng, n=rng.choice([2, 3, 4, 6, 8, 10]), ctrl=ctrl)
        sel = [rng.random() < 0.6 for _ in rows]
        if not any(sel):
            sel[rng.randrange(len(sel))] = True
        yield dict(kind="shuffled", rows=rows, arity=a, ctrl=ctrl, obs_given=True, mask_given=True, sel=sel,
                   shuffle=[rng.random() for _ in range(7)], k=rng.choice([1, 2, 3]), space=False)
    for _ in range(60 * N):
        ctrl = rng.choice(MYCTRLS)
        rows, a = _rows(rng, n=rng.choice([1, 2, 3, 4, 6, 8]), ctrl=ctrl)
        reuse = rng.random() < 0.6 and len(rows) >= 2
        sel = [rng.random() < 0.5 for _ in rows] if reuse else None
        if sel is not None and not any(sel):
            sel[0] = True
        yield dict(kind="space", rows=rows, arity=a, ctrl=ctrl, obs_given=True, mask_given=True, sel=sel,
                   shuffle=[rng.random() for _ in range(5)] if reuse and rng.random() < 0.6 else None,
                   k=rng.choice([1, 2, 3]), space=True)
    for _ in range(10 * N):  # NaN doses: outside the model's dose keys; predicate on the implementation only (wire=None)
        ctrl = rng.choice(MYCTRLS)
        rows, a = _rows(rng, n=rng.choice([2, 3, 4, 6]), ctrl=ctrl)
        for r in rows:
            for t in r["t"]:
                if rng.random() < 0.4:
                    t[1] = float("nan")
        rows[0]["t"][0][1] = float("nan")
        yield dict(kind="nan_dose", rows=rows, arity=a, ctrl=ctrl, obs_given=True, mask_given=True, sel=None, shuffle=None,
                   k=rng.choice([1, 2]), space=False)
    for i in range(40 * N):  # the 2-d treatment arrays handed over in column-major memory order (pandas' to_numpy() layout)
        ctrl = rng.choice(MYCTRLS)
        rows, a = _rows(rng, n=rng.choice([2, 3, 4, 6, 8]), ctrl=ctrl)
        while a < 2:
            rows, a = _rows(rng, n=rng.choice([2, 3, 4, 6, 8]), ctrl=ctrl)
        yield dict(kind="plain", rows=rows, arity=a, ctrl=ctrl, obs_given=True, mask_given=True, sel=None, shuffle=None,
                   k=rng.choice([1, 2]), space=(i % 3 == 0), layout="F")
    for i in range(24 * N):  # screens mutated in place by Plate.merge (gap review g1, C02 gap 1), then saved / loaded
        ctrl = rng.choice(MYCTRLS)
        rows, a = _rows(rng, n=rng.choice([3, 4, 6, 8, 10, 12]), ctrl=ctrl)
        sel = None
        if i % 3 == 0:
            sel = [rng.random() < 0.7 for _ in rows]
            if not any(sel):
                sel[0] = True
        yield dict(kind="merged", rows=rows, arity=a, ctrl=ctrl, obs_given=True, mask_given=True, sel=sel, shuffle=None, k=rng.choice([1, 2]),
                   space=False, pick=rng.random())
    import c01
    for i in range(6 * N):  # big screens: 11-40 samples / plates, random unicode names up to 40 (thorough 120) characters, up to 200 (400) rows
        rows, a, ctrl = c01._big_case(rng, tier)
        if tier == "quick":
            rows = rows[:80]
        for r in rows:
            del r["o"]
            r["ob"] = rng.choice(OBS_BITS) if rng.random() < 0.7 else rng.getrandbits(64)
        sel = [rng.random() < 0.5 for _ in rows] if i % 2 else None
        if sel is not None and not any(sel):
            sel[0] = True
        yield dict(kind="reuse" if sel else "plain", rows=rows, arity=a, ctrl=ctrl, obs_given=True, mask_given=True, sel=sel, shuffle=None,
                   k=rng.choice([1, 2]), space=(i % 3 == 2))
    for i in range(30 * N):  # experiment spaces built directly from mapping arrays: library-wide ids with gaps, any stored order
        nt, ns = rng.randint(0, 6), rng.randint(0, 5)
        tids = rng.sample(range(0, 40), nt) if rng.random() < 0.7 else list(range(nt))
        sids = rng.sample(range(0, 30), ns) if rng.random() < 0.7 else list(range(ns))
        ctrl = rng.choice(MYCTRLS)
        tmap = [[rng.choice(["a", "b", "drug \u00e9", "", "zz"]) + str(j), rng.choice([0.5, 1.0, 2.0, 1e-9, 3.25]), t] for j, t in enumerate(tids)]
        if rng.random() < 0.6:
            tmap.insert(rng.randrange(len(tmap) + 1), [ctrl, 0.0, -1])
        yield dict(kind="space_direct", tmap=tmap, smap=[["s%d" % j, t] for j, t in enumerate(sids)], ctrl=ctrl, k=rng.choice([1, 2, 3]))
    for i in range(16 * N):  # screens without rows (constructible): fresh (empty) mappings / supplied non-empty mappings
        ctrl = rng.choice(MYCTRLS)
        rows, a = _rows(rng, n=[0, 2, 0, 3][i % 4], ctrl=ctrl)
        sel = [False] * len(rows) if rows else None
        yield dict(kind="empty", rows=rows, arity=a, ctrl=ctrl, obs_given=(i % 16) < 12 or bool(rows), mask_given=(i % 16) < 8 or bool(rows),
                   sel=sel, shuffle=None, k=1 + (i % 3), space=(i % 8) >= 4)


# --------------------------------------------------------------------------- run


def _features(desc, d_eff, n_rows, strict):
    f = [desc["kind"], "arity%d" % desc["arity"], "cycles%d" % desc["k"]] + (["column_major_arrays"] if desc.get("layout") == "F" else [])
    rows = d_eff["rows"]
    if n_rows == 0:
        f.append("zero_rows")
    elif n_rows < 2:
        f.append("trivial")
    if strict:
        f.append("strict_superset_mapping")
    allnames = [t[0] for r in rows for t in r["t"]] + [r["s"] for r in rows] + [r["p"] for r in rows]
    if any(ord(c) > 127 for x in allnames for c in x):
        f.append("non_ascii")
    if any(x == "" for x in allnames):
        f.append("empty_name")
    if len({len(x) for x in allnames}) > 1:
        f.append("unequal_length_names")
    if desc["ctrl"] == "":
        f.append("empty_ctrl")
    bits = [r["ob"] for r in rows]
    if any(((b >> 52) & 0x7FF) == 0x7FF and (b & ((1 << 52) - 1)) for b in bits):
        f.append("nan_obs")
    if any((b & 0x7FFFFFFFFFFFFFFF) == 0x7FF0000000000000 for b in bits):
        f.append("inf_obs")
    if any(((b >> 52) & 0x7FF) == 0 and (b & ((1 << 52) - 1)) for b in bits):
        f.append("subnormal_obs")
    if any(b == 0x8000000000000000 for b in bits):
        f.append("negzero_obs")
    if any(t[1] == 0 and str(t[1]).startswith("-") for r in rows for t in r["t"]):
        f.append("negzero_dose")
    if any(not r["m"] for r in rows) and any(r["m"] for r in rows):
        f.append("mixed_mask")
    if not desc["obs_given"]:
        f.append("no_observations")
    return f


def _cmp_pair(m, i):
    if m == i:
        return None
    names = ["object", "file", "control name", "arity"]
    for j in range(min(len(m), len(i))):
        if m[j] != i[j]:
            sub = ""
            if isinstance(m[j], list) and isinstance(i[j], list):
                for q in range(min(len(m[j]), len(i[j]))):
                    if m[j][q] != i[j][q]:
                        sub = " component %d: model %s impl %s" % (q, common.short(m[j][q], 200), common.short(i[j][q], 200))
                        break
                else:
                    sub = " lengths %d vs %d" % (len(m[j]), len(i[j]))
            else:
                sub = " model %s impl %s" % (common.short(m[j], 200), common.short(i[j], 200))
            return "%s differs:%s" % (names[j] if j < len(names) else j, sub)
    return "shapes differ"


def _run_merged(desc):
    """a Screen MUTATED IN PLACE by Plate.merge (what the merge smoothers hand to the hold-out and to save_h5), then k save / load
    cycles; implementation-only predicate on the observables the property lists (plate_mapping is not among them: 'both id
    mappings' are the treatment and the sample mapping - Plate.merge leaves plate_mapping stale, which is outside this property)"""
    from batchie.data import Screen
    os.makedirs(common.WORK, exist_ok=True)
    tmp = tempfile.mkdtemp(prefix="c02m_", dir=common.WORK)
    try:
        s0, _, _ = _subject(desc)
        feats = ["merged", "arity%d" % desc["arity"], "cycles%d" % desc["k"]]
        plates = s0.plates
        pairs = [(i, j) for i in range(len(plates)) for j in range(len(plates)) if i != j and plates[i].is_observed == plates[j].is_observed]
        if not pairs:
            return dict(wire=None, impl=None, pred=None, features=feats + ["trivial"])
        i, j = pairs[int(desc["pick"] * len(pairs)) % len(pairs)]
        plates[i].merge(plates[j])
        listed = lambda snap: {k: v for k, v in snap.items() if not k.startswith("plate_mapping")}      # noqa
        before = listed(_snap_screen(s0))
        cur, pred = s0, None
        for c in range(desc["k"]):
            p = os.path.join(tmp, "m_%d.h5" % c)
            try:
                cur.save_h5(p)
                cur = Screen.load_h5(p)
            except Exception as e:  # noqa
                pred = "merged_save_load_raises: cycle %d: %s: %s" % (c + 1, type(e).__name__, str(e)[:200])
                break
            fd = _first_diff(before, listed(_snap_screen(cur)))
            if fd is not None:
                pred = "field_changed:%s: a screen after Plate.merge, after cycle %d: before %s after %s" % (
                    fd, c + 1, common.short(before.get(fd), 160), common.short(listed(_snap_screen(cur)).get(fd), 160))
                break
        return dict(wire=None, impl=None, pred=pred, features=feats + (["strict_superset"] if desc.get("sel") is not None else []))
    finally:
        shutil.rmtree(tmp, ignore_errors=True)


def _run_space_direct(desc):
    """an ExperimentSpace built directly from mapping arrays (the constructor validates nothing: ids with gaps, any order, ids
    shared by several names) saved and loaded 1-3 times: every array must come back exactly (implementation-side predicate)"""
    from batchie.data import ExperimentSpace

    tm = (np.array([r[0] for r in desc["tmap"]], dtype=str), np.array([r[1] for r in desc["tmap"]], dtype=float),
          np.array([r[2] for r in desc["tmap"]], dtype=int))
    sm = (np.array([r[0] for r in desc["smap"]], dtype=str), np.array([r[1] for r in desc["smap"]], dtype=int))
    feats = ["space_direct", "cycles%d" % desc["k"]]
    ids = sorted(set(int(x) for x in tm[2]) - {-1})
    if ids and ids != list(range(len(ids))):
        feats.append("treatment_ids_with_gaps")
    sids = sorted(set(int(x) for x in sm[1]))
    if sids and sids != list(range(len(sids))):
        feats.append("sample_ids_with_gaps")
    os.makedirs(common.WORK, exist_ok=True)
    tmp = tempfile.mkdtemp(prefix="c02_", dir=common.WORK)
    try:
        def snap(sp):
            return dict(tn=[str(x) for x in sp.treatment_mapping[0]], td=[float(x).hex() for x in sp.treatment_mapping[1]],
                        ti=[int(x) for x in sp.treatment_mapping[2]], sn=[str(x) for x in sp.sample_mapping[0]],
                        si=[int(x) for x in sp.sample_mapping[1]], ctrl=str(sp.control_treatment_name))
        sp0 = common.impl_call(lambda: ExperimentSpace(treatment_mapping=tm, sample_mapping=sm, control_treatment_name=desc["ctrl"]))
        if isinstance(sp0, ImplError):
            return dict(wire=None, impl=None, pred=None, features=feats + ["trivial"])
        want, cur, pred = snap(sp0), sp0, None
        for c in range(desc["k"]):
            p = os.path.join(tmp, "space%d.h5" % c)
            r = common.impl_call(lambda: (cur.save_h5(p), ExperimentSpace.load_h5(p))[1])
            if isinstance(r, ImplError):
                pred = "space_direct_load_raises: cycle %d: %r" % (c + 1, r)
                break
            cur = r
            got = snap(cur)
            bad = [k for k in want if want[k] != got[k]]
            if bad:
                pred = "space_direct_changed: cycle %d: %s of a directly constructed ExperimentSpace changed: %r -> %r" % (c + 1, bad[0], want[bad[0]], got[bad[0]])
                break
        return dict(wire=None, impl=None, pred=pred, features=feats)
    finally:
        shutil.rmtree(tmp, ignore_errors=True)


def run(desc):
    from batchie.data import ExperimentSpace, Screen

    if desc["kind"] == "merged":
        return _run_merged(desc)
    if desc["kind"] == "space_direct":
        return _run_space_direct(desc)
    os.makedirs(common.WORK, exist_ok=True)
    tmp = tempfile.mkdtemp(prefix="c02_", dir=common.WORK)
    try:
        s0, dwire, wsub = _subject(desc)
        d_eff = dict(desc, rows=[r for r, b in zip(desc["rows"], desc["sel"]) if b]) if desc.get("sel") is not None else desc
        strict = False
        if desc.get("sel") is not None:
            used_t = {(str(n), float_key(x)) for r in d_eff["rows"] for n, x in r["t"]}
            used_s = {r["s"] for r in d_eff["rows"]}
            strict = (len(s0.treatment_mapping[0]) > len(used_t)) or (len(s0.sample_mapping[0]) > len(used_s))
        feats = _features(desc, d_eff, s0.size, strict)
        k = desc["k"]
        pred = None
        # the harness must have realised the requested observation bit patterns (when observations are passed)
        if desc["obs_given"] or desc.get("sel") is not None:
            want = [r["ob"] for r in d_eff["rows"]]
            if _bits2(s0.observations) != want:
                raise RuntimeError("harness could not realise the observation bit patterns")
        if not desc["space"]:
            before = _snap_screen(s0)
            cur = s0
            impl = None
            files = []
            for c in range(k):
                p = os.path.join(tmp, "screen_%d.h5" % c)
                try:
                    cur.save_h5(p)
                except Exception as e:  # noqa
                    pred = "save_raises: cycle %d: %s: %s" % (c + 1, type(e).__name__, str(e)[:200])
                    impl = ImplError(e)
                    break
                files.append(_raw_file(p))
                try:
                    cur = Screen.load_h5(p)
                except Exception as e:  # noqa
                    pred = "load_raises: cycle %d: load_h5 of the file save_h5 wrote raises %s: %s" % (c + 1, type(e).__name__, str(e)[:200])
                    impl = ImplError(e)
                    break
                after = _snap_screen(cur)
                fd = _first_diff(before, after)
                if fd is not None and pred is None:
                    pred = "field_changed:%s: after cycle %d: before %s after %s" % (
                        fd, c + 1, common.short(before.get(fd), 160), common.short(after.get(fd), 160))
                if c > 0 and pred is None:
                    fdf = _first_diff(files[0], files[c])
                    if fdf is not None:
                        pred = "file_changed:%s: file of cycle %d differs from the first file" % (fdf, c + 1)
            if desc["kind"] == "nan_dose":
                return dict(wire=None, impl=None, pred=pred, features=feats)
            if impl is None:
                impl = [sl.canon_screen(cur), _canon_file(os.path.join(tmp, "screen_%d.h5" % (k - 1))),
                        s2l(str(cur.control_treatment_name)), int(np.asarray(cur.treatment_names).shape[1])]
            wire = [0, sl.wire_mk_args(_with_o(dwire)), wsub, k]
        else:
            sp0 = ExperimentSpace.from_screen(s0)
            before = _snap_space(sp0)
            cur = sp0
            impl = None
            files = []
            for c in range(k):
                p = os.path.join(tmp, "space_%d.h5" % c)
                try:
                    cur.save_h5(p)
                except Exception as e:  # noqa
                    pred = "space_save_raises: cycle %d: %s: %s" % (c + 1, type(e).__name__, str(e)[:200])
                    impl = ImplError(e)
                    break
                files.append(_raw_file(p))
                try:
                    cur = ExperimentSpace.load_h5(p)
                except Exception as e:  # noqa
                    pred = "space_load_raises: cycle %d: ExperimentSpace.load_h5 of the file save_h5 wrote raises %s: %s" % (
                        c + 1, type(e).__name__, str(e)[:200])
                    impl = ImplError(e)
                    break
                after = _snap_space(cur)
                fd = _first_diff(before, after)
                if fd is not None and pred is None:
                    pred = "space_field_changed:%s: after cycle %d: before %s after %s" % (
                        fd, c + 1, common.short(before.get(fd), 160), common.short(after.get(fd), 160))
                if c > 0 and pred is None:
                    fdf = _first_diff(files[0], files[c])
                    if fdf is not None:
                        pred = "space_file_changed:%s: file of cycle %d differs from the first file" % (fdf, c + 1)
            if impl is None:
                impl = [_canon_space(cur), _canon_sfile(os.path.join(tmp, "space_%d.h5" % (k - 1)))]
            wire = [1, sl.wire_mk_args(_with_o(dwire)), wsub, k]
        return dict(wire=wire, impl=impl, pred=pred, features=feats, cmp=cmp_result(_cmp_pair))
    finally:
        shutil.rmtree(tmp, ignore_errors=True)


def signature(desc, res):
    p = res.get("pred") or ""
    tag = p.split(": ")[0] if ": " in p else p[:40]
    return "C02:" + tag


def shrink(desc):
    rows = desc.get("rows") or []
    if desc.get("k", 1) > 1:
        yield dict(desc, k=1)
    for i in range(len(rows)):
        d = dict(desc, rows=rows[:i] + rows[i + 1:])
        if desc.get("sel") is not None:
            d["sel"] = desc["sel"][:i] + desc["sel"][i + 1:]
        yield d
