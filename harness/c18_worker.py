"""Worker of the C18 hash-seed aspect: runs ONE operation in this (fresh) interpreter and prints its canonical output.
Started by harness/c18.py with a chosen PYTHONHASHSEED; the description arrives as JSON on stdin."""
import hashlib
import json
import os
import sys
import time

sys.path.insert(0, os.path.dirname(os.path.abspath(__file__)))
import c18  # noqa: E402

d = json.load(sys.stdin)
c18._warm()
# the second interpreter of a pair starts its operation in another wall-clock second (C18_WORKER_DELAY, set by c18_pool.py): the pair
# then differs in PYTHONHASHSEED, process id AND time of day
time.sleep(float(os.environ.get("C18_WORKER_DELAY", "0") or 0))
# kinds with a recorded known leak run with it neutralised (fixed seeds for unseeded generators), see c18.LEAK_KINDS
r = c18.observe(c18.build(d), 4242, neutral=d.get("kind") in c18.LEAK_KINDS)
txt = json.dumps(r["out"], sort_keys=True, default=str)
print("OUT:" + hashlib.sha1(txt.encode()).hexdigest() + ":" + txt[:600].replace("\n", " "))
