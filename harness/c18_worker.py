"""Worker of the C18 hash-seed aspect: runs ONE operation in this (fresh) interpreter and prints its canonical output.
Started by harness/c18.py with a chosen PYTHONHASHSEED; the description arrives as JSON on stdin."""
import hashlib
import json
import os
import sys

sys.path.insert(0, os.path.dirname(os.path.abspath(__file__)))
import c18  # noqa: E402

d = json.load(sys.stdin)
c18._warm()
r = c18.observe(c18.build(d), 4242)
txt = json.dumps(r["out"], sort_keys=True, default=str)
print("OUT:" + hashlib.sha1(txt.encode()).hexdigest() + ":" + txt[:600].replace("\n", " "))
