"""Shared helpers for properties built on the Screen model (C01-C04, C06, C11-C14).

A screen description (JSON-able):
  dict(rows=[dict(s=sample, p=plate, t=[[name, dose], ...], o=obs float, m=mask bool)], arity=int, ctrl=str,
       obs_given=bool, mask_given=bool,
       tmap=None | dict(rows=[[name, dose, id], ...], isint=bool), smap=None | dict(rows=[[name, id], ...], isint=bool))
"""
import struct

import numpy as np

from common import float_key, s2l

NAMES = ["", "a", "b", "ab", "é", "á", "control", "c", "B", "aa"]
DOSES = [-1.0, -0.0, 0.0, 5e-324, 1.0, 1.0 + 2.0 ** -52, 2.0, 1e300, 0.5, 3.0]
CTRLS = ["", "control", "a"]


def obs_bits(x):
    (b,) = struct.unpack(">Q", struct.pack(">d", float(x)))
    return b


def bits_obs(b):
    (x,) = struct.unpack(">d", struct.pack(">Q", int(b)))
    return x


def wire_row(r):
    return [s2l(r["s"]), s2l(r["p"]), [[s2l(n), float_key(d)] for n, d in r["t"]], obs_bits(r["o"]), bool(r["m"])]


def wire_tmap(tm):
    if tm is None:
        return []
    return [[[[[s2l(n), float_key(d)], int(i)] for n, d, i in tm["rows"]], bool(tm["isint"])]]


def wire_smap(sm):
    if sm is None:
        return []
    return [[[[s2l(n), int(i)] for n, i in sm["rows"]], bool(sm["isint"])]]


def wire_mk_args(d):
    return [[wire_row(r) for r in d["rows"]], d["arity"], s2l(d["ctrl"]), wire_tmap(d.get("tmap")), wire_smap(d.get("smap")),
            bool(d["obs_given"]), bool(d["mask_given"])]


def arrays(d):
    rows, a = d["rows"], d["arity"]
    n = len(rows)
    if n:
        tn = np.array([[t[0] for t in r["t"]] for r in rows], dtype=str).reshape(n, a)
        td = np.array([[t[1] for t in r["t"]] for r in rows], dtype=float).reshape(n, a)
    else:
        tn = np.empty((0, a), dtype=str)
        td = np.empty((0, a), dtype=float)
    sn = np.array([r["s"] for r in rows], dtype=str)
    pn = np.array([r["p"] for r in rows], dtype=str)
    obs = np.array([r["o"] for r in rows], dtype=float)
    mask = np.array([r["m"] for r in rows], dtype=bool)
    return tn, td, sn, pn, obs, mask


def np_tmap(tm):
    if tm is None:
        return None
    ids = np.array([i for _, _, i in tm["rows"]], dtype=int if tm["isint"] else float)
    return (np.array([n for n, _, _ in tm["rows"]], dtype=str), np.array([x for _, x, _ in tm["rows"]], dtype=float), ids)


def np_smap(sm):
    if sm is None:
        return None
    ids = np.array([i for _, i in sm["rows"]], dtype=int if sm["isint"] else float)
    return (np.array([n for n, _ in sm["rows"]], dtype=str), ids)


def build(d):
    """call the real Screen constructor with exactly the arguments the description says"""
    from batchie.data import Screen

    tn, td, sn, pn, obs, mask = arrays(d)
    kw = dict(treatment_names=tn, treatment_doses=td, sample_names=sn, plate_names=pn, control_treatment_name=d["ctrl"])
    if d["obs_given"]:
        kw["observations"] = obs
    if d["mask_given"]:
        kw["observation_mask"] = mask
    if d.get("tmap") is not None:
        kw["treatment_mapping"] = np_tmap(d["tmap"])
    if d.get("smap") is not None:
        kw["sample_mapping"] = np_smap(d["smap"])
    return Screen(**kw)


def canon_rows(s):
    """rows of a real Screen/ScreenSubset in the model's wire shape"""
    out = []
    tn, td = s.treatment_names, s.treatment_doses
    for i in range(s.size):
        out.append([s2l(str(s.sample_names[i])), s2l(str(s.plate_names[i]) if hasattr(s, "plate_names") else ""),
                    [[s2l(str(tn[i, j])), float_key(td[i, j])] for j in range(tn.shape[1])],
                    obs_bits(s.observations[i]), bool(s.observation_mask[i])])
    return out


def canon_tmap(tm):
    return [[[s2l(str(n)), float_key(d)], int(i)] for n, d, i in zip(tm[0], tm[1], tm[2])]


def canon_nmap(m):
    return [[s2l(str(n)), int(i)] for n, i in zip(m[0], m[1])]


def canon_screen(s):
    """[rows tids sids pids tmap smap pmap n_samples n_treatments] like Model/ScreenIO.of_screen"""
    from batchie.data import ExperimentSpace

    sp = ExperimentSpace.from_screen(s)
    return [canon_rows(s), [[int(x) for x in r] for r in np.asarray(s.treatment_ids).reshape(s.size, s.treatment_names.shape[1]).tolist()],
            [int(x) for x in s.sample_ids], [int(x) for x in s.plate_ids],
            canon_tmap(s.treatment_mapping), canon_nmap(s.sample_mapping), canon_nmap(s.plate_mapping),
            int(sp.n_unique_samples), int(sp.n_unique_treatments)]


def desc_of_screen(s, obs_given=True, mask_given=True, with_maps=False):
    """JSON-able description reproducing a real screen's rows (for chaining operations)"""
    rows = []
    for i in range(s.size):
        rows.append(dict(s=str(s.sample_names[i]), p=str(s.plate_names[i]),
                         t=[[str(s.treatment_names[i, j]), float(s.treatment_doses[i, j])] for j in range(s.treatment_names.shape[1])],
                         o=float(s.observations[i]), m=bool(s.observation_mask[i])))
    d = dict(rows=rows, arity=int(s.treatment_names.shape[1]), ctrl=s.control_treatment_name, obs_given=obs_given, mask_given=mask_given,
             tmap=None, smap=None)
    if with_maps:
        d["tmap"] = dict(rows=[[str(n), float(x), int(i)] for n, x, i in zip(*s.treatment_mapping)], isint=True)
        d["smap"] = dict(rows=[[str(n), int(i)] for n, i in zip(*s.sample_mapping)], isint=True)
    return d


def gen_rows(rng, n=None, arity=None, names=None, doses=None, samples=None, plates=None, uniform_plates=True, ctrl=""):
    """random experiment rows; masks are plate-uniform unless uniform_plates is False"""
    arity = arity if arity is not None else rng.choice([1, 2, 2, 2, 3])
    n = n if n is not None else rng.choice([0, 1, 2, 3, 4, 5, 6, 8, 10, 12])
    names = names or rng.sample(NAMES, rng.randint(1, 5)) + [ctrl]
    doses = doses or rng.sample(DOSES, rng.randint(1, 6))
    samples = samples or rng.sample(NAMES, rng.randint(1, 4))
    plates = plates or rng.sample(NAMES, rng.randint(1, 4))
    pmask = {p: rng.random() < 0.5 for p in plates}
    rows = []
    for _ in range(n):
        p = rng.choice(plates)
        m = pmask[p] if uniform_plates else (rng.random() < 0.5)
        rows.append(dict(s=rng.choice(samples), p=p, t=[[rng.choice(names), rng.choice(doses)] for _ in range(arity)],
                         o=rng.choice([0.0, 0.25, 0.5, 1.0, 0.125, 0.75, 2.0 ** -1074, 0.3]), m=m))
    return rows, arity
