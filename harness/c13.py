"""C13 — generated, smoothed and initial plates satisfy their documented shape guarantees."""
from collections import Counter

import common
import retrolib as L
from common import ImplError

ID = "C13"
LEVEL = "proof"
RULE = ("kinds: gen (SampleSegregating incl. several samples at / below the size limit, Pairwise), sparse (SparseCover with and without "
        "single-agent reveal), filter (combination filter, arity 1-3), smooth (FixedSize, OptimalSize, NPlatePerCellLine, MergeMin, "
        "MergeTopBottom, BatchieEnsemble); random screens as in C11 plus the two witness shapes of DESIGN section 6 rows 4 and 5; "
        "recorded rng / heappop / argsort answers fed to the model (variant fixed=false|true chosen by replaying the canonical witness "
        "on /repo); each clause of the property evaluated directly on the real output.  Non-trivial: at least one unobserved experiment.  Gap round: "
        "MergeMin's plate sizes per sample must equal the REPLAY of the stop rule on the input sizes (merge the two smallest while they "
        "sum to <= min_size): no early stop, no merge beyond the stop, per sample and per step; Pairwise also on arity 1 and 3; screens with "
        "up to 7 samples, special observation values, superset mappings (see C11).")
THEOREMS = {
    "C13_model_is_source_generate_plates": "the wrapper model `wrap f` equals, for every inner generator f (in particular generate_plates g for the shipped ones), the translation of the whole method RetrospectivePlateGenerator.generate_plates regenerated from /repo's current core.py on this run (Generated/SrcRetro.v)",
    "C13_model_is_source_smooth_plates": "likewise for RetrospectivePlateSmoother.smooth_plates and every inner smoother",
    "C13_model_is_source_merge_min_smooth_plates": "the translation of the whole method MergeMinPlateSmoother._smooth_plates (while True on explicit fuel) regenerated from /repo equals the model merge_min for every min_size, screen and answer stream whenever the fuel exceeds the number of experiments",
    "C13_model_is_source_merge_tb_smooth_plates": "the translation of the whole method MergeTopBottomPlateSmoother._smooth_plates regenerated from /repo equals the model merge_tb for every n_iterations and screen",
    "C13_model_is_source_sample_segregating_generate_plates": "for every max_plate_size >= 0, screen and answer stream the translation of the whole method SampleSegregatingPermutationPlateGenerator._generate_plates (loop over samples, size test, n_plates = ceil(len/float(max)), rng.permutation, np.array_split, both appends, labelling loop, Screen(...)) regenerated from /repo equals the model with numpy's IndexError of the label store made explicit (sample_seg_checked); under the permutation contract (hypothesis of the shape theorems) it equals sample_seg true, and the translated generate_plates wrapper around it equals generate_plates (GSampleSeg true mx)",
    "C13_model_is_source_sample_segregating_generate_plates_negative_max": "max_plate_size < 0: translation and model have the same outcome up to the error tag (both raise at the first sample; both return the empty screen)",
    "C13_model_is_source_plate_permutation_generate_plates": "the translation of the whole method PlatePermutationPlateGenerator._generate_plates equals plate_perm for every force list (None / [] / names), screen and answer stream; through the translated wrapper it equals generate_plates (GPerm force)",
    "C13_model_is_source_fixed_size_smooth_plates": "the translation of the whole method FixedSizeSmoother._smooth_plates (three-way size test, rng.choice of plate_size indices, np.isin, OR-loop, subset().to_screen()) equals size_smooth for every plate_size, screen and answer stream; through the translated smooth_plates wrapper it equals smooth_plates (SFixed t)",
    "C13_model_is_source_optimal_size_smooth_plates": "the translation of the whole method OptimalSizeSmoother._smooth_plates (np.sort of the plate sizes, argmax of size*(n-position), indexing, then the FixedSize loops) equals optimal_smooth for every screen and answer stream; through the wrapper: smooth_plates SOptimal",
    "C13_model_is_source_nplate_smooth_plates": "the translations of NPlatePerCellLineSmoother._get_plate_sample_id and ._smooth_plates (defaultdict counting loop keyed by integer sample ids, sample_names_by_id, loop over the items, drop by NAME) equal plate_sample (as id) and the repaired model nplate true for every minimum and screen; through the wrapper: smooth_plates (SNPlate true m)",
    "C13_model_is_source_ensemble_smooth_plates": "the translation of BatchieEnsemblePlateSmoother._smooth_plates (four calls, each = translated smooth_plates wrapper around the translated _smooth_plates of the named class with the argument the source passes) equals ensemble true whenever the MergeMin while-fuel exceeds the number of experiments; through the wrapper: smooth_plates (SEnsemble true ..)",
    "C13_model_is_source_sparse_cover_generate_and_unmask_initial_plate": "the translations of InitialRetrospectivePlateGenerator.generate_and_unmask_initial_plate (core.py, = fully-observed check then the inner method, for EVERY inner method) and of SparseCoverPlateGenerator._generate_and_unmask_initial_plate (per-sample loop, `while len(remaining_treatments) > 0` on explicit fuel, reveal branch, plate names, Screen(...)) compose to the model sparse_cover for every screen and answer stream whenever fuel > number of recorded answers or fuel > number of distinct treatment ids",
    "C13_model_is_source_sparse_cover_terminates": "with #distinct-treatment-ids + 1 units of fuel the translated SparseCover source returns Ok on every fully observed screen for every answer stream obeying the choice contract with #samples + #distinct ids answers (the fuel hypothesis discharged by C13_sparse_cover_terminates / _loop_progress)",
    "C13_model_is_source_filter_dataset_to_treatments_that_appear_in_at_least_one_combo": "the translation of the whole function filter_dataset_to_treatments_that_appear_in_at_least_one_combo (data.py) equals combo_filter for every control name, arity and screen",
    "C13_model_is_source_pairwise_generate_plates": "the translation of the whole method PairwisePlateGenerator._generate_plates (combination / single-agent split, np.unique with counts, anchor branch with argsort / both floor divisions / permutations / array_splits / setdiff1d, plain branch, the nested loops filling group_lookup, np.vectorize(group_lookup.get), n_control and its store, row sort, hstack with sample ids, np.unique(axis=0), labelling loop, Screen(...), the `is None` return, the per-sample loop assigning single-agent experiments with its raise and rng.choice, second Screen(...), combine) equals the model pairwise for every control name, subset / anchor size, screen and answer stream whose first answer, when anchors are requested, is np.argsort's (positions within the unique-id array); through the translated wrapper it equals generate_plates (GPairwise ..)",
    "C13_sample_segregating_shape": "repaired logic (fixed=true), every permutation answer a permutation of the sample's indices: every unobserved output plate holds one sample and at most max experiments",
    "C13_sample_segregating_even": "repaired logic (fixed=true), permutation contract: any two unobserved output plates holding experiments of the same sample differ in size by at most one (the plates of a sample are the np.array_split chunks)",
    "C13_sample_segregating_shape_refuted": "code as found (fixed=false): witness A,A,B,B,B with max 3 gives one plate '' of 5 > 3 experiments holding 2 samples",
    "C13_pairwise_single_sample": "Pairwise, every accepted oracle answer: every unobserved output plate holds one sample",
    "C13_pairwise_singles_join_combo_plates": "Pairwise, every accepted oracle answer: every unobserved output row (single-agent ones included) sits on a plate generated_plate_k that holds a combination row of the row's own sample - single-agent experiments never open a plate of their own nor join another sample's plate",
    "C13_sparse_cover_covers": "SparseCover: every sample and every treatment id of the screen occurs in an observed output row; observed rows are labelled initial_plate, all others one common label; experiments otherwise unchanged",
    "C13_sparse_cover_loop_progress": "SparseCover, every state: while treatment ids remain the array offered by the while loop is not empty, whichever of its elements rng.choice answers the number of distinct remaining ids (control sentinel included) strictly drops, and the per-sample arrays are never empty",
    "C13_sparse_cover_iterations": "SparseCover, whenever it returns: exactly one answer per sample, then at most as many while-loop iterations as there are distinct treatment ids left uncovered by the per-sample phase (<= distinct ids of the screen); unused answers are handed back",
    "C13_sparse_cover_terminates": "SparseCover returns (never runs out of answers, never offers an empty array, final Screen accepted) for every fully observed screen and every answer stream that obeys the choice contract answer by answer and holds #samples + #distinct treatment ids answers",
    "C13_sparse_cover_consumes": "SparseCover, whenever it returns: the consumed answers are a prefix of the stream of length between #samples and #samples + #distinct treatment ids",
    "C13_combo_filter_exact": "combination filter keeps exactly (order and multiplicity included) the rows all of whose non-control treatments occur in a row without control",
    "C13_fixed_size_common": "FixedSize, choice contract: every unobserved output plate has exactly plate_size experiments",
    "C13_optimal_size_common": "OptimalSize, choice contract: every unobserved output plate has exactly optimal_size experiments",
    "C13_size_smooth_counts": "which plates survive: a plate of size >= t keeps exactly t experiments, a smaller one none (so retained = t * #{plates of size >= t})",
    "C13_optimal_size_optimal": "s * #{plates of size >= s} <= optimal * #{plates of size >= optimal} for every s",
    "C13_nplate_minimum": "repaired logic (fixed=true): every sample left has at least min unobserved plates",
    "C13_nplate_minimum_refuted": "code as found (fixed=false): witness A:1, B:3, C:1 plates with minimum 2 leaves C with 1 plate",
    "C13_merge_same_sample": "MergeMin / MergeTopBottom: output plates hold one sample each (only plates of one sample are merged); TopBottom with no iteration merges nothing",
    "C13_mergemin_satisfied_sample_untouched": "MergeMin, per sample: a sample whose unobserved plates already satisfy the stop rule keeps exactly its plates, each with exactly its rows, whatever merging other samples need (C13_mergemin_stop says so only when EVERY sample satisfies it)",
    "C13_ensemble_minimum": "the per-sample minimum holds of the ENSEMBLE smoother's output too (its last stage is the per-sample-minimum smoother on what MergeMin, MergeTopBottom and OptimalSize leave)",
    "C13_mergemin_stop": "MergeMin, every accepted heappop answer: in the output any two distinct unobserved plates of one sample together exceed min_size; if that already holds of the input nothing is merged",
    "C13_topbottom_halves": "MergeTopBottom: one iteration takes the number of plates of the sample from n to ceil(n/2), leaves other samples' plates alone, and breaks only at n <= 1",
    "C13_topbottom_counts": "MergeTopBottom end to end: every sample's number of unobserved plates is halved (rounding up) n_iterations times",
    'C13_model_is_source_plate_merge': "primitive `b.merge(a)` -> Retro.merge: the translated Plate.merge on two plates of one screen object (parent's length, non-empty union) succeeds, its result's selection vector and the parent's rows afterwards are the two components of Retro.merge, identity / sample ids / treatment ids / arity / control name are untouched, the plate ids are fresh again, the result is a well-formed view of the new parent",
    'C13_model_is_source_plates': "primitive `s.plates` -> plates_of: with fresh plate ids the translated Screen.plates lists one view per sorted distinct plate NAME, with plates_of's selection vectors, all views of that screen object",
    'C13_model_is_source_plate_size_and_order': "primitive `p.size` -> plate_size; translated Plate.__lt__ = comparison of the numbers of selected rows; pop's minimality test on a recorded heappop answer <=> no plate in the heap is smaller in the order __lt__ defines",
    'C13_model_is_source_unique_sample_ids': 'primitive `s.unique_sample_ids` -> sample_names: with fresh sample ids the translated property is 0..k-1 (k = number of distinct names, also n_unique_samples) and id j selects exactly the rows of the j-th sorted name',
    'C13_model_is_source_plate_unique_sample_ids': "primitive `p.unique_sample_ids` -> plate_unique_samples: the translated property on a plate is the list of ranks (among the screen's sorted sample names) of plate_unique_samples",
    'C13_constructed_screens_have_fresh_ids': 'every screen the constructor returns has fresh plate ids, and fresh sample ids when no sample mapping is passed',
}
ASSUMPTIONS = [
    "numpy permutation / choice contracts are hypotheses of the shape theorems (checked on every recorded answer by the harness); heappop's contract (returns a smallest item) and SparseCover's state-dependent choice contract are checked by the model itself (Err tag 93 / 94)",
    "np.argsort tie-breaking (Pairwise anchors) is an oracle input",
    "see C11 for the reductions shared with it (constructor = plate-uniform check, ids = ranks of names, integer ceil / floor)",
]
EXPLANATION = ("Models shared with C11 (Model/Retro.v, Pairwise.v, RetroInit.v); every clause of the property has a theorem, none is "
               "partial; beyond the property text: the plates of one sample made by SampleSegregating differ in size by at most one, "
               "and Pairwise puts every single-agent experiment on a generated plate holding a combination experiment of its own "
               "sample (C13_pairwise_single_sample already covers the whole output, single-agent rows included).  Two clauses are false of the code as found and are kept visible as _refuted theorems (vm_compute witnesses, "
               "replayed on the real code by the first generated cases); the positive theorems are about the repaired logic selected by "
               "the model parameter `fixed`, and the correspondence runs whichever variant /repo contains (decided by replaying the "
               "canonical witnesses; reported as the extra check `variant-detected`).  The SparseCover while loop recurses on the "
               "recorded answers, so no fuel is needed in the model; its termination is a theorem: every iteration strictly shrinks the "
               "set of remaining treatment ids (the control sentinel -1 is an id like any other: rows holding it are offered and "
               "choosing one covers it), so the loop runs at most #distinct-uncovered-ids times and the function consumes at most "
               "#samples + #distinct-ids answers; with that many contract-obeying answers the model returns Ok (the real code was "
               "probed on the empty screen, all-control screens and screens whose only control entry is in an unchosen row: it "
               "returns on all of them); the harness checks the same bound on the recorded number of rng.choice calls.  "
               "heapq is modelled by its contract (heappop answers are oracle inputs checked to be smallest), not by its array layout.  "
               "SOURCE LINKS (C13_model_is_source_*): generate_plates, smooth_plates (core.py), MergeMinPlateSmoother._smooth_plates and "
               "MergeTopBottomPlateSmoother._smooth_plates are re-translated from /repo on every run (harness/py2gal.py -> Generated/SrcRetro.v) and proved equal to wrap / "
               "merge_min / merge_tb for all inputs (MergeMin: whenever the explicit while-fuel exceeds the number of experiments); trusted: "
               "the translator, Lib/PyRt.v and the primitives listed in C11's explanation (configurations C11_GENERATE_PLATES, "
               "C11_SMOOTH_PLATES, C13_MERGEMIN_SAMPLE_ID, C13_MERGEMIN, C13_MERGETB_SAMPLE_ID, C13_MERGETB of harness/src_functions.py).  "
               "ROUND-2 LINKS (Generated/SrcRetroGen.v, proofs Proofs/C13Source.v): SampleSegregating / PlatePermutation._generate_plates, "
               "FixedSize / OptimalSize / NPlatePerCellLine (+ _get_plate_sample_id) / BatchieEnsemble._smooth_plates, "
               "SparseCover._generate_and_unmask_initial_plate with its public wrapper (core.py) and the combination filter (data.py) "
               "are re-translated whole on every run and proved equal to sample_seg true, plate_perm, size_smooth, optimal_smooth, "
               "nplate true, ensemble true, sparse_cover, combo_filter (and, through the translated wrappers, to generate_plates g / "
               "smooth_plates sm - the subjects of the shape theorems).  Hypotheses of these links: max_plate_size >= 0 and, for the "
               "unchecked model, the permutation contract (SampleSegregating: numpy's IndexError of `plate_names[indices] = ...` is "
               "part of the translation, the model ignores out-of-range answers; the hypothesis-free statement is against "
               "sample_seg_checked; a negative max is covered up to the error tag); sufficient fuel for the two while loops "
               "(MergeMin inside the ensemble: > number of experiments; SparseCover: > number of recorded answers or > number of "
               "distinct treatment ids - the latter discharged by the termination argument, C13_model_is_source_sparse_cover_terminates).  "
               "TRUSTED by these links: the translator (two additive extensions: cfg expr_state_calls = a stateful call such as "
               "rng.permutation(..) as an argument of another call, bound where Python evaluates it; cfg while_cond = `while c:` as "
               "`while True: if not c: break`), Lib/PyRt.v, and the primitives of the configurations C13_SAMPLE_SEG, C13_FIXED_SIZE, "
               "C13_OPTIMAL_SIZE, C13_NPLATE_SAMPLE_ID, C13_NPLATE, C13_ENSEMBLE, C13_PLATE_PERMUTATION, C13_SPARSE_COVER, "
               "C13_INITIAL_WRAPPER, C13_COMBO_FILTER, C13_PAIRWISE (meanings: last sections of Model/Retro.v, Model/RetroInit.v and "
               "Model/Pairwise.v; proofs of the Pairwise link in Proofs/C13SourcePairwise.v; its hypothesis argsort_ok: with anchor_size > 0 "
               "the first recorded answer is np.argsort's and the positions it uses are positions of the unique-id array - numpy's "
               "argsort returns a permutation of the positions, and Python calls it before anything else can raise; Pairwise "
               "primitives: screen.treatment_ids == SENTINEL row by row, np.any(axis=1), v.any(), np.unique(ids, return_counts=True) on "
               "the re-encoded combination screen (ids = ranks of its keys), np.argsort(-counts) = the next recorded answer, a[:n], "
               "u[idx] (IndexError outside), len(a) // subset_size (ZeroDivisionError at 0), np.setdiff1d on sorted unique arrays, "
               "np.vectorize(d.get)(ids) (None when absent), np.sum(g == SENTINEL), rng.choice(range(n), size=k, replace=True) = the next "
               "recorded answer, refused unless of length k, g[g == SENTINEL] = vals (row-major fill, ValueError on a count mismatch), "
               "np.sort(g, axis=1) (TypeError on None), sample_ids[:, np.newaxis], np.hstack, np.unique(axis=0) = sorted distinct rows, "
               "(a == t).all(axis=1), names[mask] = f'generated_plate_{k}' and names[mask] = vals (IndexError / ValueError on a length "
               "mismatch), np.unique(sample_names), (sample_names == nm).sum(), np.unique(plate_names[sample_names == nm]), "
               "rng.choice(names, size=n, replace=True) = the next recorded answer, refused unless n names of the offered array), namely: "
               "screen.unique_sample_ids = sorted unique names; np.arange(size)[sample_ids == i] / [plate.selection_vector] / "
               "np.arange(v.size)[m] (IndexError on a length mismatch) = positions of the true entries; math.ceil(a/float(b)) = ceiling "
               "of the quotient, ZeroDivisionError at 0; rng.permutation / rng.choice(a, n, replace=False) = the next recorded answer "
               "(ValueError for n < 0); rng.choice(a, size=1) = the next recorded answer, refused unless it is one element of a; "
               "np.array_split (ValueError unless n >= 1); np.array(['']*n) / np.array(['initial_plate']*n, dtype=str); "
               "`names[idx] = f'generated_plate_{k}'` (IndexError outside the array); `names[~v] = 'unobserved_plate'` on the '<U13' "
               "array (truncation to 13 characters, IndexError on a length mismatch); the Screen(...) calls (ValueError on a length "
               "mismatch, then the plate-uniform check); screen.plates, plate.size, plate.selection_vector, Plate(screen, v) = v, "
               "np.isin(np.arange(size), idx), np.zeros / np.ones(size, bool), `|`, `&`, `~`, screen.subset(v) = the selected rows, "
               "to_screen() = identity on them (the constructor's checks pass on a sub-selection of a valid screen; in the filter it is "
               "[construct], as in the model); np.sort(np.array(l)), np.argmax (first maximum, ValueError when empty), np.arange(n), "
               "elementwise `*` and `n - v`, a[i]; defaultdict(lambda: 0), plate.unique_sample_ids as integer ids (ranks of names), "
               "screen.sample_mapping[0] = names by id, l[i], screen.sample_names != nm; the four `<Class>(arg=self.arg).smooth_plates"
               "(screen, rng)` calls = the translated wrapper around the translated method; ~np.isin(plate_names, force), np.any(~v), "
               "a.combine(b); screen.treatment_ids (None = control sentinel), np.isin / np.in1d(..).reshape on it, np.any / np.all "
               "(axis=1), a[idx].flatten(), set(..) / list(..) / set.update on ids (a set = any list of its elements), np.setdiff1d "
               "(membership and emptiness only), v.sum(), screen.observations.copy(), screen.is_observed, screen.treatment_arity, "
               "np.unique / np.concatenate on ids, (a == SENTINEL).reshape(a.shape)."
               '  PRIMITIVES AS THEOREMS: the meanings the configurations of this property give to the data.py helpers are no longer '
               "only trusted - Proofs/C13SourceHelpers.v proves, per primitive, that the helper's own translation (in the Views "
               'vocabulary, where a Screen object carries its id arrays), read through the representation `Retro screen = rows of the '
               'Views screen, Retro plate = selection vector of the view`, is that meaning; side conditions are those of reachable '
               'calls (screen_wf / screen_valid of constructed screens, view_ok of constructed views, plate_ids_fresh / '
               "sample_ids_fresh = `the id array is the encoder's answer on the current names without a mapping`, true of every screen "
               'built without mappings and re-established for the plate ids by every merge).  Linked here: Plate.merge, Screen.plates, '
               "plate.size, Plate.__lt__ / heappop's contract, unique_sample_ids / n_unique_samples on a screen and on a plate.  What "
               "the helper translations themselves trust is listed in C14's explanation (HELPER LINKS).  Left as primitives: numpy / "
               'heapq / Generator calls, `Plate(screen, v)`, `s.sample_mapping[0]`, `s.sample_names != n`, the Screen(...) constructor '
               'templates (construct = the plate-uniform check; the constructor is linked by C01 / C12). ')

# ---- wave 6 of the source link: the constructors of the shipped generators / smoothers (Generated/SrcInits.v, Proofs/C13Source_Init_*.v) ----
THEOREMS.update({
    "C13_model_is_source_sparse_cover_init": "the translated SparseCoverPlateGenerator.__init__ stores reveal_single_treatment_experiments: the flag its translated method reads is the constructor argument",
    "C13_model_is_source_pairwise_init": "the translated PairwisePlateGenerator.__init__ stores (subset_size, anchor_size) - not swapped, not changed",
    "C13_model_is_source_plate_permutation_init": "the translated PlatePermutationPlateGenerator.__init__ stores force_include_plate_names (default None, checked against the signature)",
    "C13_model_is_source_sample_segregating_init": "the translated SampleSegregatingPermutationPlateGenerator.__init__ stores max_plate_size",
    "C13_model_is_source_merge_min_init": "the translated MergeMinPlateSmoother.__init__ stores min_size",
    "C13_model_is_source_merge_top_bottom_init": "the translated MergeTopBottomPlateSmoother.__init__ stores n_iterations",
    "C13_model_is_source_fixed_size_init": "the translated FixedSizeSmoother.__init__ stores plate_size",
    "C13_model_is_source_nplate_init": "the translated NPlatePerCellLineSmoother.__init__ stores min_n_cell_line_plates",
    "C13_model_is_source_ensemble_init": "the translated BatchieEnsemblePlateSmoother.__init__ stores (min_size, n_iterations, min_n_cell_line_plates); it validates nothing",
    "C13_source_constructed_merge_min": "translated __init__ composed with the translated _smooth_plates: a MergeMin smoother constructed with min_size is the model merge_min min_size (sufficient fuel)",
    "C13_source_constructed_ensemble": "translated __init__ composed with the translated _smooth_plates: the ensemble constructed with (ms, n, m) is the model ensemble true ms n m",
})
EXPLANATION += ("  CONSTRUCTORS: the __init__ methods of the nine shipped generator / smoother classes are re-translated on every run "
                "(configurations LS_INIT_* of harness/src_functions.py -> Generated/SrcInits.v, one Proofs/C13Source_Init_<Class>.v each) and proved to "
                "store their arguments, so the model parameter each method link takes for `self.<attr>` is the value the object was constructed with; "
                "trusted: the translator only (no primitive): `self.<attr>` is a variable of the translation (attr_vars), the value of the translated __init__ is the tuple of the attributes when it ends; an attribute that is not declared is refused.")

SIGNATURES = ("sample-segregating-lumps-small-samples", "nplate-stale-sample-ids")


def _plain(samples, plates, mask=None):
    rows = [dict(s=s, p=p, t=[["a", 1.0], ["b", 2.0]], o=(i + 1) / 64.0, m=bool(mask and mask[i])) for i, (s, p) in enumerate(zip(samples, plates))]
    return dict(rows=rows, arity=2, ctrl="", obs_given=True, mask_given=True, tmap=None, smap=None)


def gen(rng, tier):
    k = 1 if tier == "quick" else 12
    # the two witnesses of DESIGN section 6
    yield dict(kind="gen", cls="ss", params=dict(max=3), screen=_plain("AABBB", ["p"] * 5), seed=0)
    yield dict(kind="smooth", cls="nplate", params=dict(min_plates=2), screen=_plain("ABBBC", ["p1", "p2", "p3", "p4", "p5"]), seed=0)
    yield dict(kind="smooth", cls="nplate", params=dict(min_plates=2), screen=_plain("ABBBCDD", ["p1", "p2", "p3", "p4", "p5", "p6", "p7"]), seed=0)
    for _ in range(70 * k):
        sd = L.gen_screen(rng)
        per = list(Counter(r["s"] for r in sd["rows"] if not r["m"]).values()) or [1]
        params = dict(max=rng.choice([1, 2, 3, 4, 5, rng.choice(per), rng.choice(per), max(per), max(1, rng.choice(per) - 1), 0, -1, 100]))
        yield dict(kind="gen", cls="ss", params=params, screen=sd, seed=rng.randrange(10 ** 6))
    for _ in range(60 * k):
        sd = L.gen_screen(rng, arity=rng.choice([2, 2, 2, 2, 1, 3]), n_treat=rng.randint(2, 6))
        if rng.random() < 0.3:
            sd = L.inject_all_control(rng, sd)
        params = dict(subset=rng.choice([1, 1, 1, 2, 2, 3, 0, -1]), anchor=rng.choice([0, 0, 0, 1, 2, 3]))
        yield dict(kind="gen", cls="pairwise", params=params, screen=sd, seed=rng.randrange(10 ** 6))
    for _ in range(200 * k):
        cls = rng.choice(["mergemin", "mergetb", "fixed", "optimal", "nplate", "nplate", "ensemble"])
        sd = L.gen_screen(rng, style=rng.choice(["one_sample_plates"] * 5 + ["mixed"] + ["many_plates"] * 4) if cls in ("mergemin", "mergetb", "nplate", "ensemble") else None)
        params = L.smoother_params(rng, sd)
        yield dict(kind="smooth", cls=cls, params=params, screen=sd, seed=rng.randrange(10 ** 6))
    for _ in range(50 * k):
        yield dict(kind="sparse", reveal=rng.random() < 0.5, screen=L.gen_screen(rng, all_observed=rng.random() < 0.93), seed=rng.randrange(10 ** 6))
    for _ in range(50 * k):
        yield dict(kind="filter", screen=L.gen_screen(rng), seed=0)


def pred_more(desc, ex):
    """clauses evaluated on the real run beyond retrolib.pred_shape (termination bound of SparseCover, even split of
    SampleSegregating, single-agent assignment of Pairwise)"""
    inp, out, k = ex["inp"], ex["impl"], desc["kind"]
    if k == "gen" and desc["cls"] == "ss":
        by = {}
        for p, rs in L.plates_of(out).items():
            for sn in {L.sname(r) for r in rs}:
                by.setdefault(sn, []).append(len(rs))
        for sn, szs in by.items():
            if max(szs) - min(szs) > 1:
                return "sample-segregating-uneven-split: sample %r has plates of sizes %r" % (common.l2s(sn), sorted(szs))
    if k == "gen" and desc["cls"] == "pairwise":
        ctrl = desc["screen"]["ctrl"]
        homes = {(tuple(r[1]), L.sname(r)) for r in L.unobs(out) if None not in L.tids(r, ctrl)}
        for r in L.unobs(out):
            if (tuple(r[1]), L.sname(r)) not in homes or not common.l2s(r[1]).startswith("generated_plate_"):
                return "pairwise-row-without-combo-plate: plate %r holds no combination experiment of sample %r" % (common.l2s(r[1]), common.l2s(r[0]))
    if k == "sparse":
        ctrl = desc["screen"]["ctrl"]
        picks = [d[1] for d in ex["rec"].draws]
        if any(d[0] != 0 or len(d[1]) != 1 for d in ex["rec"].draws):
            return "sparse-cover-choice-shape: a choice call did not answer one index"
        n_s = len({L.sname(r) for r in inp})
        if len(picks) < n_s:
            return "sparse-cover-iterations: %d choice calls for %d samples" % (len(picks), n_s)
        need = {t for r in inp for t in L.tids(r, ctrl)}
        covered = {t for p in picks[:n_s] for t in L.tids(inp[p[0]], ctrl)}
        if len(picks) - n_s > len(need - covered):
            return "sparse-cover-iterations: %d while-loop iterations for %d uncovered treatment ids" % (len(picks) - n_s, len(need - covered))
    return None


def run(desc):
    ex = L.execute(desc)
    pred = None
    if not isinstance(ex["impl"], ImplError) and ex["inp"] is not None:
        pred = L.pred_shape(desc, ex["inp"], ex["impl"]) or pred_more(desc, ex)
    feats = L.features(desc, ex)
    if desc["kind"] == "gen" and desc["cls"] == "ss":
        per = Counter(r["s"] for r in desc["screen"]["rows"] if not r["m"])
        mx = desc["params"]["max"]
        if sum(1 for v in per.values() if v <= mx) >= 2:
            feats.append("several-small-samples")
        if any(v == mx for v in per.values()):
            feats.append("sample-at-limit")
    return dict(wire=ex["wire"], impl=ex["impl"], pred=pred, features=feats, cmp=ex["cmp"])


def shrink(desc):
    return L.shrink_desc(desc)


def signature(desc, res):
    return L.tag_of(res.get("pred")) or "%s:%s" % (desc["kind"], desc.get("cls", ""))


def extra(tier):
    return [("variant-detected", True, "SampleSegregating fixed=%s, NPlatePerCellLine fixed=%s" % (L.variant("ss"), L.variant("np")))]
