"""C17 — sampling follows the burn-in/thinning schedule; each chain gets its own stream."""
import numpy as np

import common
from common import ImplError, cmp_result, impl_call

ID = "C17"
LEVEL = "proof"
RULE = ("kinds: mcmc (the real batchie.sampling.sample driving a counting stub MCMCModel and a recording ThetaHolder; grid "
        "b in {0..}, t in {1..}, n in {1..} incl. t=1 and b=0, plus random larger values, random seed / n_chains / chain_index; "
        "the full event trace reset/set_rng(key)/step/add_theta is compared with the model's), vi (stub VIModel, returned list "
        "length = n mostly, random n_chains / chain_index; trace reset/set_rng(key (seed,[chain_index]))/sample(n)/n records), rng (key of the generator handed to the model and its first draws per (seed, n_chains, chain_index); also "
        "for a model object that already carries a generator, and for the second sample() call on one object), "
        "malformed (t<=0, b<0, n<=0, index out of range or negative, negative seed, None arguments, pre-filled or short holder, "
        "non-model object; for vi: None n_chains / chain_index, index out of range, negative seed, wrong returned length).  Non-trivial: every case that issues at least one step or record; distinct by case description.  "
        "ADDED (gap review g5): real (every concrete MCMCModel class shipped in batchie.models - SparseDrugCombo, SparseDrugComboInteraction - "
        "built on a small real Screen with observations added; sample() twice on ONE object; the call trace of the first run is compared with "
        "the model's; predicates: steps taken = b + n*t, the thetas found in the holder AT THE END equal copies of get_model_state() taken "
        "right after steps b+t, ..., b+n*t (recorded states are snapshots, not views of arrays the sampler keeps writing to), and RESETS THE "
        "MODEL: every numeric / array attribute of the sampler object at the moment reset_model() has returned inside sample() equals its value "
        "after construction + add_observations); rng with model=vi (clauses e / f of the generator on the VIModel stub, n_chains > 1, trace "
        "compared with the model's VI branch; JUDGED since the repair of vi-chains-share-generator: key (seed,[chain_index]), full PCG64 state of "
        "SeedSequence(seed, spawn_key=(chain_index,)), the same stream as an MCMC model gets, independent of n_chains, pairwise different over all chains); rng cases also compare the full bit_generator.state (128-bit state + increment) of the handed "
        "generator with PCG64(SeedSequence(seed, spawn_key=(chain_index,))) and require pairwise different (state, inc) over all chains; "
        "mcmc with model=mutable (stub whose state is one ndarray updated in place by step(), get_model_state returning a copy: stored values "
        "read at the END of the run); a tenth of the mcmc cases run with progress_bar=True (tqdm wrapping the two ranges).")
THEOREMS = {
    "C17_model_is_source": "the hand-written model sample equals, for all arguments, the Gallina translation of the whole function batchie.sampling.sample regenerated from /repo's current source on this run (Generated/SrcSampling.v)",
    "C17_trace": "for b>=0, t>=1, n>=0, valid key: trace = Reset, SetRng(seed,[chain_index]), b Steps, then n blocks of (t Steps, Record); final holder length n",
    "C17_step_count": "exactly b + n*t steps",
    "C17_record_marks": "a state is recorded after exactly the steps numbered b+t, b+2t, ..., b+n*t and nowhere else",
    "C17_collection_complete": "n records, never refused; an initially empty holder of capacity n ends complete",
    "C17_key_in_trace": "whatever b, t, n and the holder are, a successful MCMC run is Reset, SetRng(rng_key seed n_chains chain_index), then only steps and records",
    "C17_key_fun": "rng_key = (entropy seed, spawn_key [chain_index]) for 0 <= chain_index < n_chains: a function of the triple, n_chains only bounds the index",
    "C17_key_injective": "equal keys for chain indices within range (same or different seeds / n_chains) force equal seed and chain index",
    "C17_streams_distinct_partial": "different chain indices get different SeedSequence keys; PARTIAL: that different keys yield non-overlapping PCG64 streams is numpy's guarantee, checked only on first draws by the harness",
    "C17_vi_once": "VI branch, 0 <= chain_index < n_chains: Reset, SetRng(seed,[chain_index]), one SampleVI n, then n Records; holder complete; n_burnin / thin ignored",
    "C17_not_a_model_refused": "an object that is neither MCMCModel nor VIModel is refused",
    "C17_none_refused": "a None among n_chains, chain_index, n_burnin, thin is refused for MCMC models",
    "C17_vi_none_refused": "a None for n_chains or chain_index is refused for VI models (the generator is derived from them since the repair)",
    "C17_mcmc_chains_distinct_partial": "MCMC models, whole runs: two successful sample() runs with different chain indices below n_chains hand different SeedSequence keys to set_rng, whatever b, t, n and the holders are (PARTIAL: keys, not streams)",
    "C17_vi_key_in_trace": "VI models (repaired code): whatever n, the holder and the returned count are, a successful run is Reset, SetRng(rng_key seed n_chains chain_index), one SampleVI n, then only records",
    "C17_vi_handed_key": "VI models: the generator handed over has the key rng_key seed n_chains chain_index = SeedSequence(seed).spawn(n_chains)[chain_index]",
    "C17_vi_chains_distinct_partial": "VI models, whole runs: two successful sample() runs with different chain indices below n_chains hand different SeedSequence keys to set_rng (PARTIAL: keys, not streams); the positive statement that replaced the refutation",
    "C17_vi_key_as_mcmc": "the same (seed, n_chains, chain_index) gives a VI model and an MCMC model the same key",
    "C17_vi_ignores_schedule": "VI models: n_burnin and thin are not read - the whole run is the same for every value of them",
    "C17_vi_streams_distinct_refuted": "REFUTED for the PRE-REPAIR variant only (Model.Sampling.sample_pre_repair, default_rng(seed) for every chain; no longer what the source says): seed 0, n_chains 2, indices 0 and 1 handed the same key; the defect was repaired in /repo (KNOWN_FINDINGS vi-chains-share-generator: fixed), the witness runs first on every check as corpus/C17/vi-chains-share-generator.json",
    "C17_real_reset_is_source": "what 'resets the model' does on the real sampler: the Gallina translation of the whole method LegacySparseDrugComboImpl.reset_model, regenerated from /repo on this run, equals the model reset_st (W, W0, V2, V1, V0 zeroed, alpha 0, prec 100, Mu emptied; nothing else assigned)",
    "C17_real_reset_restores_embeddings_partial": "PARTIAL: on a state with the shapes __init__ allocates, reset restores exactly the constructed W, W0, V2, V1, V0, alpha, prec, Mu",
    "C17_real_reset_keeps_precisions": "the translated reset_model leaves tau, tau0, phi2, phi1, phi0, eta2, eta1, eta0, gam and num_mcmc_steps at the values the previous chain left",
    "C17_real_reset_restores_iff": "the reset state equals the constructed state iff those nine precisions already have their initial values",
    "C17_real_reset_restores_refuted": "REFUTED, a finding: 'reset_model restores the constructed parameter state' - a well-shaped state whose reset differs from init_st; on the real objects by kind real (KNOWN_FINDINGS reset-model-keeps-hyperparameters)",
    "C17_negative_index_aliases": "observation: chain_index = -1 is accepted and aliases chain n_chains-1 (python negative indexing); outside the property's quantifier",
}
ASSUMPTIONS = [
    "which b, t, n, seed, n_chains, chain_index reach sample() in the deployed pipeline is C04's CLI link (Cli.cli_train_model) and the nextflow modules, not restated here; batchie.py passes the same --seed at every retraining iteration (outside the statement)",
    "the snapshot of the recorded state is the model's duty (get_model_state copies); sample() stores what it is given - observed on the real models by kind real",
    "numpy: SeedSequence(seed).spawn(n)[i] is the SeedSequence with entropy=seed, spawn_key=(i,) (checked on every case through rng.bit_generator.seed_seq), and a Generator's stream is a function of that key (checked on first draws)",
    "non-overlap of PCG64 streams for distinct spawn keys is numpy's documented guarantee; not provable in the model",
    "the model object only sees reset_model/set_rng/step/get_model_state/sample calls; the holder only add_theta/n_thetas",
]
EXPLANATION = ("Tie to the code, two ways: (1) the whole function sample is re-translated from /repo's current source on every run "
               "(harness/py2gal.py, fail-closed) and C17_model_is_source proves the hand-written model equal to the translation for "
               "all arguments - trusted there: the translator and the primitives it is configured with (model.step / reset_model / "
               "set_rng / sample and results.add_theta as trace events, SeedSequence.spawn / default_rng as key arithmetic, "
               "trange(n) = range(n)); (2) the differential correspondence below, which exercises exactly those primitives on the "
               "real objects.  Model: Model/Sampling.v (counter machine emitting the call trace; burn-in loop, thinning loop with (step_index+1) % thin, "
               "ThetaHolder capacity check, VI branch, the match on the model class, None-argument checks).  Partial: stream non-overlap "
               "(numpy).  Not modelled: logging, tqdm.  'Resets the model' is, in the model, the event Reset (reset_model() is called first); what "
               "reset_model DOES on the real sampler is tied to the source by C17_real_reset_is_source (translation of LegacySparseDrugComboImpl.reset_model) and "
               "observed by kind real: it restores the embeddings W, W0, V2, V1, V0, alpha, prec and the cache Mu and KEEPS the horseshoe / gamma-process "
               "precisions phi*, eta*, tau, tau0, gam and the step counter (C17_real_reset_keeps_precisions, C17_real_reset_restores_refuted; KNOWN_FINDINGS "
               "reset-model-keeps-hyperparameters).  VI models used to get default_rng(seed) whatever n_chains / chain_index were; repaired in /repo "
               "(KNOWN_FINDINGS vi-chains-share-generator: fixed): the VI branch derives the generator as the MCMC branch does, the linked model says so "
               "(C17_vi_key_in_trace, C17_vi_chains_distinct_partial, C17_vi_key_as_mcmc), the old behaviour survives only as sample_pre_repair in "
               "C17_vi_streams_distinct_refuted, and kind rng model=vi judges the clause on the real function (no signature folds it any more).")


class _Other:
    pass


def _stubs():
    from batchie.core import MCMCModel, ThetaHolder, VIModel

    class Common:
        def __init__(self, returned=0):
            self.events = []
            self.steps = 0
            self.rng = None
            self.returned = returned
            self.sample_calls = []
            self.states = []

        def reset_model(self):
            self.events.append([0])

        def set_rng(self, rng):
            self.rng = rng
            ss = rng.bit_generator.seed_seq
            self.events.append([1, int(ss.entropy), [int(x) for x in ss.spawn_key]])

    class M(Common, MCMCModel):
        def step(self):
            self.steps += 1
            self.events.append([2])

        def get_model_state(self):
            self.states.append(self.steps)
            return ("theta", self.steps)

    class Snap:
        """what the mutable stub hands out: a COPY of its live array (the copy is the model's duty, as in the real get_model_state)"""
        def __init__(self, arr):
            self.arr = arr

    class Mm(M):
        """state = one ndarray written IN PLACE by every step, as the Gibbs blocks do"""
        def __init__(self):
            M.__init__(self)
            self.live = np.zeros(3)

        def step(self):
            M.step(self)
            self.live += 1.0
            self.live[1] = self.steps * 10.0

        def get_model_state(self):
            self.states.append(self.steps)
            return Snap(self.live.copy())

    class V(Common, VIModel):
        def sample(self, num_samples):
            self.sample_calls.append(num_samples)
            self.events.append([4, int(num_samples)])
            return [("vi", i) for i in range(self.returned)]

    class Both(M, VIModel):
        def sample(self, num_samples):
            self.events.append([4, int(num_samples)])
            return []

    class Holder(ThetaHolder):
        def __init__(self, n_thetas, events):
            super().__init__(n_thetas)
            self.events = events

        def add_theta(self, theta):
            super().add_theta(theta)
            self.events.append([3])

    return M, V, Both, Holder, Mm


def gen(rng, tier):
    big = tier != "quick"
    # grid incl. t = 1 and b = 0
    for b in ([0, 1, 2, 3, 5] if not big else [0, 1, 2, 3, 4, 5, 7, 10]):
        for t in ([1, 2, 3, 4] if not big else [1, 2, 3, 4, 5, 7]):
            for n in ([1, 2, 3, 5] if not big else [1, 2, 3, 4, 5, 8]):
                nc = rng.randint(1, 6)
                yield dict(kind="mcmc", model="mcmc", seed=rng.randrange(1 << 32), nc=nc, ci=rng.randrange(nc), b=b, t=t, n=n, len0=0)
    for _ in range(120 if not big else 1500):
        nc = rng.randint(1, 40)
        d = dict(kind="mcmc", model=rng.choice(["mcmc", "mcmc", "mutable", "both"]), seed=rng.choice([0, 1, rng.randrange(1 << 16), rng.randrange(1 << 80)]),
                 nc=nc, ci=rng.randrange(nc), b=rng.choice([0, 0, 1, rng.randint(0, 60)]), t=rng.choice([1, 1, 2, rng.randint(1, 12)]),
                 n=rng.randint(1, 25), len0=0)
        if rng.random() < 0.1:
            d["bar"] = True
        yield d
    for _ in range(60 if not big else 600):
        n = rng.randint(1, 30)
        nc = rng.randint(1, 8)
        yield dict(kind="vi", seed=rng.choice([0, rng.randrange(1 << 40)]), n=n, returned=n, len0=0, nc=nc, ci=rng.randrange(nc))
    for _ in range(120 if not big else 1200):
        nc = rng.randint(1, 12)
        yield dict(kind="rng", seed=rng.choice([0, 1, 2, rng.randrange(1 << 20), rng.randrange(1 << 64)]), nc=nc, ci=rng.randrange(nc))
    # the generator clauses on a variational model (the statement's quantifier does not exempt them)
    for i in range(24 if not big else 300):
        nc = rng.randint(1, 12) if i else 1
        yield dict(kind="rng", model="vi", seed=rng.choice([0, 1, rng.randrange(1 << 20), rng.randrange(1 << 64)]), nc=nc, ci=rng.randrange(nc), n=rng.randint(1, 4))
    if big:
        for _ in range(60):
            nc = rng.randint(13, 40)
            yield dict(kind="rng", seed=rng.randrange(1 << 64), nc=nc, ci=rng.randrange(nc))
    # the real samplers: schedule, snapshots, and what reset_model restores
    for i in range(16 if not big else 240):
        nc = rng.randint(1, 4)
        yield dict(kind="real", model=REAL_MODELS[i % len(REAL_MODELS)], dim=rng.choice([1, 2, 3]), rows=rng.choice([0, 1, 3, 6, 9]), dseed=rng.randrange(1 << 30),
                   seed=rng.randrange(1 << 32), nc=nc, ci=rng.randrange(nc), b=rng.choice([0, 1, 2, 4]), t=rng.choice([1, 2, 3]), n=rng.randint(1, 4),
                   again=rng.choice([True, True, False]))
    # malformed / outside the quantifier
    for _ in range(140 if not big else 1200):
        nc = rng.randint(1, 5)
        d = dict(kind="mcmc", model="mcmc", seed=rng.randrange(1 << 16), nc=nc, ci=rng.randrange(nc), b=rng.randint(0, 4), t=rng.randint(1, 4),
                 n=rng.randint(1, 5), len0=0, malformed=True)
        w = rng.choice(["t0", "tneg", "bneg", "n0", "nneg", "ci_hi", "ci_neg", "ci_too_neg", "seedneg", "nc0", "ncneg", "none", "len0", "other", "bothneg"])
        if w == "t0":
            d["t"] = 0
        elif w == "tneg":
            d["t"] = -rng.randint(1, 3)
        elif w == "bneg":
            d["b"] = -rng.randint(1, 3)
        elif w == "n0":
            d["n"] = 0
        elif w == "nneg":
            d["n"] = -rng.randint(1, 3)
        elif w == "bothneg":
            d["n"] = -rng.randint(1, 3)
            d["t"] = -rng.randint(1, 3)
        elif w == "ci_hi":
            d["ci"] = nc + rng.randint(0, 2)
        elif w == "ci_neg":
            d["ci"] = -rng.randint(1, nc)
        elif w == "ci_too_neg":
            d["ci"] = -nc - rng.randint(1, 2)
        elif w == "seedneg":
            d["seed"] = -rng.randint(1, 9)
        elif w == "nc0":
            d["nc"] = 0
            d["ci"] = rng.choice([0, -1])
        elif w == "ncneg":
            d["nc"] = -rng.randint(1, 3)
        elif w == "none":
            d[rng.choice(["nc", "ci", "b", "t"])] = None
        elif w == "len0":
            d["len0"] = rng.randint(1, d["n"])
        elif w == "other":
            d["model"] = "other"
        yield d
    for _ in range(60 if not big else 450):
        n = rng.randint(0, 6)
        nc = rng.randint(1, 4)
        ci = rng.randrange(nc)
        if rng.random() < 0.3:      # the two arguments the VI branch reads since the repair
            nc, ci = rng.choice([(0, 0), (0, -1), (-1, 0), (None, 0), (nc, None), (None, None), (nc, nc), (nc, nc + 1), (nc, -1), (nc, -nc), (nc, -nc - 1)])
        yield dict(kind="vi", seed=rng.choice([0, 5, -1]), n=n, returned=rng.choice([n, n, max(0, n - 1), n + 1, 0]), len0=rng.choice([0, 0, 1]),
                   nc=nc, ci=ci, malformed=True)


REAL_MODELS = ["SparseDrugCombo", "SparseDrugComboInteraction"]
# attributes reset_model is KNOWN not to restore (KNOWN_FINDINGS reset-model-keeps-hyperparameters); anything else is a new failure
KNOWN_KEPT = {"phi2", "phi1", "phi0", "eta2", "eta1", "eta0", "tau", "tau0", "gam", "num_mcmc_steps"}


class _quiet_stderr:
    """tqdm draws its bar on stderr"""
    def __init__(self, on):
        self.on = on

    def __enter__(self):
        import io
        import sys
        if self.on:
            self.old, sys.stderr = sys.stderr, io.StringIO()

    def __exit__(self, *a):
        import sys
        if self.on:
            sys.stderr = self.old


def _real_class(name):
    if name == "SparseDrugCombo":
        from batchie.models.sparse_combo import SparseDrugCombo as C
    else:
        from batchie.models.sparse_combo_interaction import SparseDrugComboInteraction as C
    return C


def _real_screen(rows, dseed):
    from batchie.data import Screen
    g = np.random.default_rng(dseed)
    names = ["a", "b", "c", "control"]
    n = max(rows, 1)
    tn = np.array([[names[int(g.integers(0, 3))], names[int(g.integers(0, 4))]] for _ in range(n)], dtype=str)
    return Screen(observations=g.uniform(0.05, 0.95, n), observation_mask=np.array([rows > 0] * n, dtype=bool),
                  sample_names=np.array(["s%d" % int(g.integers(0, 3)) for _ in range(n)], dtype=str),
                  plate_names=np.array(["p%d" % (i % 2) for i in range(n)], dtype=str),
                  treatment_names=tn, treatment_doses=np.array([[1.0, float(1 + int(g.integers(0, 2)))] for _ in range(n)]),
                  control_treatment_name="control")


def _numeric_state(obj, keys=None):
    import copy
    out = {}
    for k_, v in vars(obj).items():
        if keys is not None and k_ not in keys:
            continue
        if isinstance(v, (np.ndarray, float, int, np.floating, np.integer)) and not isinstance(v, bool):
            out[k_] = copy.deepcopy(v)
    return out


def _theta_values(theta):
    return {k_: np.array(v, copy=True) for k_, v in theta.private_parameters_dict().items() if not isinstance(v, dict)}


def _same(a, b):
    return set(a) == set(b) and all(np.array_equal(np.asarray(a[k_]), np.asarray(b[k_]), equal_nan=True) for k_ in a)


def run_real(desc):
    """the real MCMC models under the real sample(): trace, step count, snapshots, and what 'resets the model' restores"""
    import batchie.sampling
    from batchie.core import ThetaHolder
    from batchie.data import ExperimentSpace

    seed, nc, ci, b, t, n = (desc[x] for x in ("seed", "nc", "ci", "b", "t", "n"))
    sc = _real_screen(desc["rows"], desc["dseed"])
    saved = np.random.get_state()
    np.random.seed(desc["dseed"] % (1 << 32))      # the Gibbs blocks draw from the global generator (C18's known finding): make the case replayable
    try:
        m = _real_class(desc["model"])(experiment_space=ExperimentSpace.from_screen(sc), n_embedding_dimensions=desc["dim"])
        ob = sc.subset_observed()
        if ob is not None:
            m.add_observations(ob)
        inner = getattr(m, "wrapped_model", m)
        s0 = _numeric_state(inner)
        events, after_reset, taken, steps = [], [], {}, [0]
        o_reset, o_set, o_step = m.reset_model, m.set_rng, m.step

        def reset_model():
            o_reset()
            events.append([0])
            after_reset.append(_numeric_state(inner, s0.keys()))

        def set_rng(g):
            o_set(g)
            ss = g.bit_generator.seed_seq
            events.append([1, int(ss.entropy), [int(x) for x in ss.spawn_key]])

        def step():
            o_step()
            steps[0] += 1
            events.append([2])
            taken[steps[0]] = _theta_values(m.get_model_state())

        m.reset_model, m.set_rng, m.step = reset_model, set_rng, step

        class H(ThetaHolder):
            def add_theta(self, theta):
                super().add_theta(theta)
                events.append([3])

        def one():
            steps[0] = 0
            taken.clear()
            h = H(n)
            batchie.sampling.sample(model=m, results=h, seed=seed, n_chains=nc, chain_index=ci, n_burnin=b, thin=t)
            if steps[0] != b + n * t:
                return h, "real model advanced %d steps instead of b + n*t = %d" % (steps[0], b + n * t)
            if len(h.thetas) != n or not h.is_complete:
                return h, "collection not complete"
            for i, th in enumerate(h.thetas):      # read at the END of the run
                if not _same(_theta_values(th), taken[b + (i + 1) * t]):
                    return h, "stored state %d is not the state the model had after step b+%d*t = %d (not a snapshot, or recorded at another step)" % (i, i + 1, b + (i + 1) * t)
            return h, None

        pred, sig = None, None
        first = {}

        def go():
            h, p1 = one()
            first["pred"] = p1
            return [list(events), len(h.thetas)]

        out = impl_call(go)
        if isinstance(out, ImplError):
            pred = "sampling a real model raised %r" % (out,)
        else:
            pred = first["pred"]
            if pred is None and not _same(after_reset[0], s0):
                pred = "first sample() on a fresh object does not start from the constructed state"
            if pred is None and desc.get("again"):
                _h, p2 = one()
                pred = p2 and "second sample() on the same object: " + p2
                if pred is None:
                    kept = sorted(k_ for k_ in s0 if not np.array_equal(np.asarray(s0[k_]), np.asarray(after_reset[1][k_]), equal_nan=True))
                    if kept:
                        pred = ("sampling does not reset the model: after reset_model() inside the second sample() on one %s object, %s still differ "
                                "from their values after construction + add_observations" % (desc["model"], ", ".join(kept)))
                        sig = "reset-model-keeps-hyperparameters" if set(kept) <= KNOWN_KEPT else "reset-model-keeps:" + ",".join(k_ for k_ in kept if k_ not in KNOWN_KEPT)
    finally:
        np.random.set_state(saved)
    feats = ["real", desc["model"], "rows=%d" % desc["rows"]] + (["same-object-twice"] if desc.get("again") else []) + (["b=0"] if b == 0 else []) + (["t=1"] if t == 1 else [])
    return dict(wire=[0, 0, seed, [nc], [ci], [b], [t], n, 0, 0], impl=out, pred=pred, features=feats, cmp=cmp_result(), sig=sig)


def signature(desc, res):
    return res.get("sig")


def extra(tier):
    """every concrete MCMCModel class of batchie.models is one kind `real` runs (read from the source text, nothing imported)"""
    import ast
    import os
    found = set()
    d = os.path.join(common.REPO, "src", "batchie", "models")
    for fn in sorted(os.listdir(d)):
        if fn.endswith(".py") and not fn.endswith("_test.py"):
            for node in ast.walk(ast.parse(open(os.path.join(d, fn)).read())):
                if isinstance(node, ast.ClassDef) and any((isinstance(x, ast.Name) and x.id == "MCMCModel") or (isinstance(x, ast.Attribute) and x.attr == "MCMCModel") for x in node.bases):
                    found.add(node.name)
    ok = found == set(REAL_MODELS)
    return [("real-mcmc-models-covered", ok, "MCMCModel classes in batchie/models: %s; run by kind real: %s" % (sorted(found), REAL_MODELS))]


def _pcg_state(g):
    st = g.bit_generator.state
    return (st["bit_generator"], int(st["state"]["state"]), int(st["state"]["inc"]))


def _first_draws(g):
    return [int(x) for x in g.integers(0, 1 << 62, size=4)] + [float(g.standard_normal())]


def run(desc):
    import batchie.sampling

    M, V, Both, Holder, Mm = _stubs()
    kind = desc["kind"]

    if kind == "real":
        return run_real(desc)

    if kind == "rng" and desc.get("model") == "vi":
        # clauses e / f for a variational model: the generator handed to it, per (seed, n_chains, chain_index)
        seed, nc, ci, n = desc["seed"], desc["nc"], desc["ci"], desc["n"]

        def handed_vi(seed_, nc_, ci_):
            m = V(returned=n)
            h = Holder(n, m.events)
            batchie.sampling.sample(model=m, results=h, seed=seed_, n_chains=nc_, chain_index=ci_, n_burnin=0, thin=1)
            return m, h, dict(m.rng.bit_generator.state["state"])

        def go():
            m, h, st = handed_vi(seed, nc, ci)
            return m, [list(m.events), len(h.thetas)], st

        res = impl_call(go)
        pred = None
        if isinstance(res, ImplError):
            out = res
            pred = "VI sampling raised %r" % (res,)
        else:
            m, out, st = res
            want = dict(np.random.PCG64(np.random.SeedSequence(seed, spawn_key=(ci,))).state["state"])
            # what an MCMC model is handed for the same triple: one rule for every model class
            mm = M()
            batchie.sampling.sample(model=mm, results=Holder(1, mm.events), seed=seed, n_chains=nc, chain_index=ci, n_burnin=0, thin=1)
            if out[0][:2] != [[0], [1, seed, [ci]]]:
                pred = "VI trace does not start with reset, set_rng(SeedSequence(seed).spawn(n_chains)[chain_index]): %r" % (out[0][:2],)
            elif st != want:
                pred = "the generator handed to the VI model is not PCG64(SeedSequence(seed, spawn_key=(chain_index,))) (full state and increment)"
            elif dict(mm.rng.bit_generator.state["state"]) != st:
                pred = "a VI model and an MCMC model get different streams for the same (seed, n_chains, chain_index)"
            elif handed_vi(seed, nc, ci)[2] != st:
                pred = "two runs with the same (seed, n_chains, chain_index) hand different streams to the VI model"
            elif handed_vi(seed + 1, nc, ci)[2] == st:
                pred = "the VI model's stream does not depend on the seed"
            elif handed_vi(seed, nc + 3, ci)[2] != st:
                pred = "the VI model's stream of chain %d changes with n_chains" % ci
            else:
                others = {cj: handed_vi(seed, nc, cj)[2] for cj in range(nc) if cj != ci}
                same = [cj for cj, sj in others.items() if sj == st]
                if same:
                    pred = ("chains %d and %d of seed %d (n_chains %d) hand the VI model the SAME stream (full PCG64 state and increment equal): "
                            "not a different, non-overlapping stream for every other chain index" % (ci, same[0], seed, nc))
                elif len({sj["inc"] for sj in others.values()} | {st["inc"]}) != nc:
                    pred = "two chains of seed %d hand the VI model generators on the same PCG64 increment (the same underlying sequence)" % seed
        return dict(wire=[0, 1, seed, [nc], [ci], [0], [1], n, 0, n], impl=out, pred=pred,
                    features=["rng", "vi", "n_chains=1" if nc == 1 else "n_chains>1"], cmp=cmp_result())

    if kind == "rng":
        seed, nc, ci = desc["seed"], desc["nc"], desc["ci"]

        def handed(nc_, ci_):
            m = M()
            h = Holder(1, m.events)
            batchie.sampling.sample(model=m, results=h, seed=seed, n_chains=nc_, chain_index=ci_, n_burnin=0, thin=1)
            ss = m.rng.bit_generator.seed_seq
            states.append((nc_, ci_, _pcg_state(m.rng)))
            return [int(ss.entropy), [int(x) for x in ss.spawn_key]], _first_draws(m.rng)

        states = []
        key, draws = handed(nc, ci)
        pred = None
        if states[0][2] != _pcg_state(np.random.Generator(np.random.PCG64(np.random.SeedSequence(seed, spawn_key=(ci,))))):
            pred = "the handed generator's full state (128-bit state, increment) is not that of PCG64(SeedSequence(seed, spawn_key=(chain_index,)))"
        if key != [seed, [ci]]:
            pred = "generator key is %r, not (seed, [chain_index])" % (key,)
        if handed(nc, ci)[1] != draws:
            pred = "two runs with the same (seed, n_chains, chain_index) hand different streams to the model"
        ref = _first_draws(np.random.default_rng(np.random.SeedSequence(seed, spawn_key=(ci,))))
        if ref != draws:
            pred = "first draws are not those of SeedSequence(seed, spawn_key=(chain_index,))"
        if handed(nc + 3, ci)[1] != draws:
            pred = "stream of chain %d changes with n_chains" % ci
        seen = {tuple(draws): ci}
        for cj in range(nc):
            if cj != ci:
                dj = tuple(handed(nc, cj)[1])
                if dj in seen:
                    pred = "chains %d and %d of seed %d start with the same draws" % (seen[dj], cj, seed)
                seen[dj] = cj
        per_chain = {}
        for nc_, ci_, st in states:
            if nc_ == nc:
                per_chain.setdefault(st, set()).add(ci_)
        if any(len(v) > 1 for v in per_chain.values()):
            pred = "two chain indices of seed %d get the same PCG64 (state, increment): %r" % (seed, [sorted(v) for v in per_chain.values() if len(v) > 1][0])
        if len({st[1] for st in per_chain}) != len(per_chain):
            pred = "two chains of seed %d run on the same PCG64 increment (the same underlying sequence)" % seed
        if tuple(handed(nc, ci)[1]) == tuple(_first_draws(np.random.default_rng(np.random.SeedSequence(seed + 1, spawn_key=(ci,))))):
            pred = "stream does not depend on the seed"
        # the generator depends ONLY on the triple: not on a generator the model object already carries (constructed with
        # rng=..., or left there by an earlier sample() call on the same object)
        m = M()
        m.rng = np.random.default_rng(987654321)
        batchie.sampling.sample(model=m, results=Holder(1, m.events), seed=seed, n_chains=nc, chain_index=ci, n_burnin=0, thin=1)
        if _first_draws(m.rng) != ref:
            pred = "a model that already carries a generator does not get the stream of (seed, n_chains, chain_index)"
        m = M()
        cj = (ci + 1) % nc
        batchie.sampling.sample(model=m, results=Holder(1, m.events), seed=seed + 7, n_chains=nc, chain_index=cj, n_burnin=0, thin=1)
        m.rng.random(3)
        batchie.sampling.sample(model=m, results=Holder(1, m.events), seed=seed, n_chains=nc, chain_index=ci, n_burnin=0, thin=1)
        if _first_draws(m.rng) != ref:
            pred = "the second sample() call on one model object does not hand it the stream of its own (seed, n_chains, chain_index)"
        return dict(wire=[1, seed, nc, ci], impl=key, pred=pred, features=["rng", "n_chains=1" if nc == 1 else "n_chains>1"], cmp=cmp_result())

    if kind == "vi":
        seed, n, ret, len0 = desc["seed"], desc["n"], desc["returned"], desc["len0"]
        nc, ci = desc.get("nc", 1), desc.get("ci", 0)
        m = V(returned=ret)
        h = Holder(n, m.events)
        h.thetas = [("pre", i) for i in range(len0)]

        def go():
            r = batchie.sampling.sample(model=m, results=h, seed=seed, n_chains=nc, chain_index=ci, n_burnin=10, thin=2)
            assert r is h
            return [list(m.events), len(h.thetas)]

        out = impl_call(go)
        pred = None
        if seed >= 0 and ret == n and len0 == 0 and None not in (nc, ci) and 0 <= ci < nc:
            if isinstance(out, ImplError):
                pred = "VI sampling raised %r" % (out,)
            else:
                if m.sample_calls != [n]:
                    pred = "VI model asked %r instead of once for %d samples" % (m.sample_calls, n)
                elif m.events != [[0], [1, seed, [ci]], [4, n]] + [[3]] * n:
                    pred = "VI trace is not reset, set_rng(default_rng(SeedSequence(seed).spawn(n_chains)[chain_index])), sample(n), n records"
                elif h.thetas != [("vi", i) for i in range(n)] or not h.is_complete:
                    pred = "VI samples not stored in order / holder not complete"
        feats = ["vi"] + (["trivial"] if n == 0 else []) + (["malformed"] if desc.get("malformed") else [])
        if isinstance(out, ImplError):
            feats.append("refused")
        # the schedule arguments n_burnin / thin cross as given (10, 2): the VI branch must not read them
        wire = [0, 1, seed] + [[] if v is None else [v] for v in (nc, ci)] + [[10], [2], n, len0, ret]
        return dict(wire=wire, impl=out, pred=pred, features=feats, cmp=cmp_result())

    # mcmc
    seed, nc, ci, b, t, n, len0 = (desc[x] for x in ("seed", "nc", "ci", "b", "t", "n", "len0"))
    mk = desc["model"]
    m = {"mcmc": M, "both": Both, "mutable": Mm}.get(mk, lambda: None)()
    events = m.events if m is not None else []
    h = Holder(n, events)
    h.thetas = [("pre", i) for i in range(len0)]
    obj = m if m is not None else _Other()

    def go():
        with _quiet_stderr(desc.get("bar")):
            r = batchie.sampling.sample(model=obj, results=h, seed=seed, n_chains=nc, chain_index=ci, n_burnin=b, thin=t, progress_bar=bool(desc.get("bar")))
        assert r is h
        return [list(events), len(h.thetas)]

    out = impl_call(go)
    valid = (m is not None and None not in (nc, ci, b, t) and seed >= 0 and b >= 0 and t >= 1 and n >= 1 and 0 <= ci < nc and len0 == 0)
    pred = None
    if valid:
        if isinstance(out, ImplError):
            pred = "sampling raised %r" % (out,)
        else:
            ev = out[0]
            steps = sum(1 for e in ev if e == [2])
            # read at the END of the run: for the mutable stub the stored arrays, all written in place while sampling went on
            marks = [int(round(float(th.arr[0]))) if mk == "mutable" else th[1] for th in h.thetas]
            if ev[:2] != [[0], [1, seed, [ci]]]:
                pred = "trace does not start with reset, set_rng(SeedSequence(seed).spawn(n_chains)[chain_index]): %r" % (ev[:2],)
            elif any(e[0] not in (2, 3) for e in ev[2:]):
                pred = "unexpected call after set_rng"
            elif steps != b + n * t:
                pred = "%d steps instead of b + n*t = %d" % (steps, b + n * t)
            elif marks != [b + (i + 1) * t for i in range(n)]:
                pred = "states recorded after steps %r, not after b+t, ..., b+n*t" % (marks[:8],)
            elif m.states != marks:
                pred = "get_model_state called at steps %r but stored %r" % (m.states[:8], marks[:8])
            elif mk == "mutable" and any(list(th.arr) != [float(s_), s_ * 10.0, float(s_)] for th, s_ in zip(h.thetas, marks)):
                pred = "a stored state is not the state the model had when it was recorded"
            elif not h.is_complete:
                pred = "collection not complete"
    wire = [0, 0 if m is not None else 2, seed] + [[] if v is None else [v] for v in (nc, ci, b, t)] + [n, len0, 0]
    feats = ["mcmc"]
    if desc.get("malformed"):
        feats.append("malformed")
    if valid:
        feats += ["t=1"] if t == 1 else []
        feats += ["b=0"] if b == 0 else []
        feats += ["n=1"] if n == 1 else []
        feats += ["both-classes"] if mk == "both" else []
        feats += ["mutable-state"] if mk == "mutable" else []
        feats += ["progress-bar"] if desc.get("bar") else []
    if isinstance(out, ImplError):
        feats.append("refused")
    elif len(out[0]) <= 2:
        feats.append("trivial")
    return dict(wire=wire, impl=out, pred=pred, features=feats, cmp=cmp_result())


def shrink(desc):
    if desc["kind"] == "mcmc":
        for key in ("b", "n", "t"):
            v = desc.get(key)
            if isinstance(v, int) and v > (0 if key == "b" else 1):
                yield dict(desc, **{key: v - 1})
