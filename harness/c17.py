"""C17 — sampling follows the burn-in/thinning schedule; each chain gets its own stream."""
import numpy as np

import common
from common import ImplError, cmp_result, impl_call

ID = "C17"
LEVEL = "proof"
RULE = ("kinds: mcmc (the real batchie.sampling.sample driving a counting stub MCMCModel and a recording ThetaHolder; grid "
        "b in {0..}, t in {1..}, n in {1..} incl. t=1 and b=0, plus random larger values, random seed / n_chains / chain_index; "
        "the full event trace reset/set_rng(key)/step/add_theta is compared with the model's), vi (stub VIModel, returned list "
        "length = n mostly), rng (key of the generator handed to the model and its first draws per (seed, n_chains, chain_index); also "
        "for a model object that already carries a generator, and for the second sample() call on one object), "
        "malformed (t<=0, b<0, n<=0, index out of range or negative, negative seed, None arguments, pre-filled or short holder, "
        "non-model object).  Non-trivial: every case that issues at least one step or record; distinct by case description.")
THEOREMS = {
    "C17_model_is_source": "the hand-written model sample equals, for all arguments, the Gallina translation of the whole function batchie.sampling.sample regenerated from /repo's current source on this run (Generated/SrcSampling.v)",
    "C17_trace": "for b>=0, t>=1, n>=0, valid key: trace = Reset, SetRng(seed,[chain_index]), b Steps, then n blocks of (t Steps, Record); final holder length n",
    "C17_step_count": "exactly b + n*t steps",
    "C17_record_marks": "a state is recorded after exactly the steps numbered b+t, b+2t, ..., b+n*t and nowhere else",
    "C17_collection_complete": "n records, never refused; an initially empty holder of capacity n ends complete",
    "C17_key_in_trace": "whatever b, t, n and the holder are, a successful MCMC run is Reset, SetRng(rng_key seed n_chains chain_index), then only steps and records",
    "C17_key_fun": "rng_key = (entropy seed, spawn_key [chain_index]) for 0 <= chain_index < n_chains: a function of the triple, n_chains only bounds the index",
    "C17_key_injective": "equal keys for chain indices within range (same or different seeds / n_chains) force equal seed and chain index",
    "C17_streams_distinct_partial": "different chain indices get different SeedSequence keys; PARTIAL: that different keys yield non-overlapping PCG64 streams is numpy's guarantee, checked only on first draws by the harness",
    "C17_vi_once": "VI branch: Reset, SetRng(seed,[]), one SampleVI n, then n Records; holder complete",
    "C17_not_a_model_refused": "an object that is neither MCMCModel nor VIModel is refused",
    "C17_none_refused": "a None among n_chains, chain_index, n_burnin, thin is refused for MCMC models",
    "C17_negative_index_aliases": "observation: chain_index = -1 is accepted and aliases chain n_chains-1 (python negative indexing); outside the property's quantifier",
}
ASSUMPTIONS = [
    "numpy: SeedSequence(seed).spawn(n)[i] is the SeedSequence with entropy=seed, spawn_key=(i,) (checked on every case through rng.bit_generator.seed_seq), and a Generator's stream is a function of that key (checked on first draws)",
    "non-overlap of PCG64 streams for distinct spawn keys is numpy's documented guarantee; not provable in the model",
    "the model object only sees reset_model/set_rng/step/get_model_state/sample calls; the holder only add_theta/n_thetas",
]
EXPLANATION = ("Tie to the code, two ways: (1) the whole function sample is re-translated from /repo's current source on every run "
               "(harness/py2gal.py, fail-closed) and C17_model_is_source proves the hand-written model equal to the translation for "
               "all arguments - trusted there: the translator and the primitives it is configured with (model.step / reset_model / "
               "set_rng / sample and results.add_theta as trace events, SeedSequence.spawn / default_rng as key arithmetic, "
               "trange(n) = range(n)); (2) the differential correspondence below, which exercises exactly those primitives on the "
               "real objects.  Model: Model/Sampling.v (counter machine emitting the call trace; burn-in loop, thinning loop with (step_index+1) % thin, "
               "ThetaHolder capacity check, VI branch, the match on the model class, None-argument checks).  Partial: stream non-overlap "
               "(numpy).  Not modelled: logging, tqdm.")


class _Other:
    pass


def _stubs():
    from batchie.core import MCMCModel, ThetaHolder, VIModel

    class Common:
        def __init__(self, returned=0):
            self.events = []
            self.steps = 0
            self.rng = None
            self.returned = returned
            self.sample_calls = []
            self.states = []

        def reset_model(self):
            self.events.append([0])

        def set_rng(self, rng):
            self.rng = rng
            ss = rng.bit_generator.seed_seq
            self.events.append([1, int(ss.entropy), [int(x) for x in ss.spawn_key]])

    class M(Common, MCMCModel):
        def step(self):
            self.steps += 1
            self.events.append([2])

        def get_model_state(self):
            self.states.append(self.steps)
            return ("theta", self.steps)

    class V(Common, VIModel):
        def sample(self, num_samples):
            self.sample_calls.append(num_samples)
            self.events.append([4, int(num_samples)])
            return [("vi", i) for i in range(self.returned)]

    class Both(M, VIModel):
        def sample(self, num_samples):
            self.events.append([4, int(num_samples)])
            return []

    class Holder(ThetaHolder):
        def __init__(self, n_thetas, events):
            super().__init__(n_thetas)
            self.events = events

        def add_theta(self, theta):
            super().add_theta(theta)
            self.events.append([3])

    return M, V, Both, Holder


def gen(rng, tier):
    big = tier != "quick"
    # grid incl. t = 1 and b = 0
    for b in ([0, 1, 2, 3, 5] if not big else [0, 1, 2, 3, 4, 5, 7, 10]):
        for t in ([1, 2, 3, 4] if not big else [1, 2, 3, 4, 5, 7]):
            for n in ([1, 2, 3, 5] if not big else [1, 2, 3, 4, 5, 8]):
                nc = rng.randint(1, 6)
                yield dict(kind="mcmc", model="mcmc", seed=rng.randrange(1 << 32), nc=nc, ci=rng.randrange(nc), b=b, t=t, n=n, len0=0)
    for _ in range(120 if not big else 1500):
        nc = rng.randint(1, 40)
        yield dict(kind="mcmc", model=rng.choice(["mcmc", "mcmc", "mcmc", "both"]), seed=rng.choice([0, 1, rng.randrange(1 << 16), rng.randrange(1 << 80)]),
                   nc=nc, ci=rng.randrange(nc), b=rng.choice([0, 0, 1, rng.randint(0, 60)]), t=rng.choice([1, 1, 2, rng.randint(1, 12)]),
                   n=rng.randint(1, 25), len0=0)
    for _ in range(60 if not big else 600):
        n = rng.randint(1, 30)
        yield dict(kind="vi", seed=rng.choice([0, rng.randrange(1 << 40)]), n=n, returned=n, len0=0)
    for _ in range(120 if not big else 1200):
        nc = rng.randint(1, 12)
        yield dict(kind="rng", seed=rng.choice([0, 1, 2, rng.randrange(1 << 20), rng.randrange(1 << 64)]), nc=nc, ci=rng.randrange(nc))
    # malformed / outside the quantifier
    for _ in range(140 if not big else 1200):
        nc = rng.randint(1, 5)
        d = dict(kind="mcmc", model="mcmc", seed=rng.randrange(1 << 16), nc=nc, ci=rng.randrange(nc), b=rng.randint(0, 4), t=rng.randint(1, 4),
                 n=rng.randint(1, 5), len0=0, malformed=True)
        w = rng.choice(["t0", "tneg", "bneg", "n0", "nneg", "ci_hi", "ci_neg", "ci_too_neg", "seedneg", "nc0", "ncneg", "none", "len0", "other", "bothneg"])
        if w == "t0":
            d["t"] = 0
        elif w == "tneg":
            d["t"] = -rng.randint(1, 3)
        elif w == "bneg":
            d["b"] = -rng.randint(1, 3)
        elif w == "n0":
            d["n"] = 0
        elif w == "nneg":
            d["n"] = -rng.randint(1, 3)
        elif w == "bothneg":
            d["n"] = -rng.randint(1, 3)
            d["t"] = -rng.randint(1, 3)
        elif w == "ci_hi":
            d["ci"] = nc + rng.randint(0, 2)
        elif w == "ci_neg":
            d["ci"] = -rng.randint(1, nc)
        elif w == "ci_too_neg":
            d["ci"] = -nc - rng.randint(1, 2)
        elif w == "seedneg":
            d["seed"] = -rng.randint(1, 9)
        elif w == "nc0":
            d["nc"] = 0
            d["ci"] = rng.choice([0, -1])
        elif w == "ncneg":
            d["nc"] = -rng.randint(1, 3)
        elif w == "none":
            d[rng.choice(["nc", "ci", "b", "t"])] = None
        elif w == "len0":
            d["len0"] = rng.randint(1, d["n"])
        elif w == "other":
            d["model"] = "other"
        yield d
    for _ in range(40 if not big else 300):
        n = rng.randint(0, 6)
        yield dict(kind="vi", seed=rng.choice([0, 5, -1]), n=n, returned=rng.choice([n, n, max(0, n - 1), n + 1, 0]), len0=rng.choice([0, 0, 1]), malformed=True)


def _first_draws(g):
    return [int(x) for x in g.integers(0, 1 << 62, size=4)] + [float(g.standard_normal())]


def run(desc):
    import batchie.sampling

    M, V, Both, Holder = _stubs()
    kind = desc["kind"]

    if kind == "rng":
        seed, nc, ci = desc["seed"], desc["nc"], desc["ci"]

        def handed(nc_, ci_):
            m = M()
            h = Holder(1, m.events)
            batchie.sampling.sample(model=m, results=h, seed=seed, n_chains=nc_, chain_index=ci_, n_burnin=0, thin=1)
            ss = m.rng.bit_generator.seed_seq
            return [int(ss.entropy), [int(x) for x in ss.spawn_key]], _first_draws(m.rng)

        key, draws = handed(nc, ci)
        pred = None
        if key != [seed, [ci]]:
            pred = "generator key is %r, not (seed, [chain_index])" % (key,)
        if handed(nc, ci)[1] != draws:
            pred = "two runs with the same (seed, n_chains, chain_index) hand different streams to the model"
        ref = _first_draws(np.random.default_rng(np.random.SeedSequence(seed, spawn_key=(ci,))))
        if ref != draws:
            pred = "first draws are not those of SeedSequence(seed, spawn_key=(chain_index,))"
        if handed(nc + 3, ci)[1] != draws:
            pred = "stream of chain %d changes with n_chains" % ci
        seen = {tuple(draws): ci}
        for cj in range(nc):
            if cj != ci:
                dj = tuple(handed(nc, cj)[1])
                if dj in seen:
                    pred = "chains %d and %d of seed %d start with the same draws" % (seen[dj], cj, seed)
                seen[dj] = cj
        if tuple(handed(nc, ci)[1]) == tuple(_first_draws(np.random.default_rng(np.random.SeedSequence(seed + 1, spawn_key=(ci,))))):
            pred = "stream does not depend on the seed"
        # the generator depends ONLY on the triple: not on a generator the model object already carries (constructed with
        # rng=..., or left there by an earlier sample() call on the same object)
        m = M()
        m.rng = np.random.default_rng(987654321)
        batchie.sampling.sample(model=m, results=Holder(1, m.events), seed=seed, n_chains=nc, chain_index=ci, n_burnin=0, thin=1)
        if _first_draws(m.rng) != ref:
            pred = "a model that already carries a generator does not get the stream of (seed, n_chains, chain_index)"
        m = M()
        cj = (ci + 1) % nc
        batchie.sampling.sample(model=m, results=Holder(1, m.events), seed=seed + 7, n_chains=nc, chain_index=cj, n_burnin=0, thin=1)
        m.rng.random(3)
        batchie.sampling.sample(model=m, results=Holder(1, m.events), seed=seed, n_chains=nc, chain_index=ci, n_burnin=0, thin=1)
        if _first_draws(m.rng) != ref:
            pred = "the second sample() call on one model object does not hand it the stream of its own (seed, n_chains, chain_index)"
        return dict(wire=[1, seed, nc, ci], impl=key, pred=pred, features=["rng", "n_chains=1" if nc == 1 else "n_chains>1"], cmp=cmp_result())

    if kind == "vi":
        seed, n, ret, len0 = desc["seed"], desc["n"], desc["returned"], desc["len0"]
        m = V(returned=ret)
        h = Holder(n, m.events)
        h.thetas = [("pre", i) for i in range(len0)]

        def go():
            r = batchie.sampling.sample(model=m, results=h, seed=seed, n_chains=1, chain_index=0, n_burnin=10, thin=2)
            assert r is h
            return [list(m.events), len(h.thetas)]

        out = impl_call(go)
        pred = None
        if seed >= 0 and ret == n and len0 == 0:
            if isinstance(out, ImplError):
                pred = "VI sampling raised %r" % (out,)
            else:
                if m.sample_calls != [n]:
                    pred = "VI model asked %r instead of once for %d samples" % (m.sample_calls, n)
                elif m.events != [[0], [1, seed, []], [4, n]] + [[3]] * n:
                    pred = "VI trace is not reset, set_rng(default_rng(seed)), sample(n), n records"
                elif h.thetas != [("vi", i) for i in range(n)] or not h.is_complete:
                    pred = "VI samples not stored in order / holder not complete"
        feats = ["vi"] + (["trivial"] if n == 0 else []) + (["malformed"] if desc.get("malformed") else [])
        return dict(wire=[0, 1, seed, [], [], [], [], n, len0, ret], impl=out, pred=pred, features=feats, cmp=cmp_result())

    # mcmc
    seed, nc, ci, b, t, n, len0 = (desc[x] for x in ("seed", "nc", "ci", "b", "t", "n", "len0"))
    mk = desc["model"]
    m = {"mcmc": M, "both": Both}.get(mk, lambda: None)()
    events = m.events if m is not None else []
    h = Holder(n, events)
    h.thetas = [("pre", i) for i in range(len0)]
    obj = m if m is not None else _Other()

    def go():
        r = batchie.sampling.sample(model=obj, results=h, seed=seed, n_chains=nc, chain_index=ci, n_burnin=b, thin=t, progress_bar=False)
        assert r is h
        return [list(events), len(h.thetas)]

    out = impl_call(go)
    valid = (m is not None and None not in (nc, ci, b, t) and seed >= 0 and b >= 0 and t >= 1 and n >= 1 and 0 <= ci < nc and len0 == 0)
    pred = None
    if valid:
        if isinstance(out, ImplError):
            pred = "sampling raised %r" % (out,)
        else:
            ev = out[0]
            steps = sum(1 for e in ev if e == [2])
            marks = [th[1] for th in h.thetas]
            if ev[:2] != [[0], [1, seed, [ci]]]:
                pred = "trace does not start with reset, set_rng(SeedSequence(seed).spawn(n_chains)[chain_index]): %r" % (ev[:2],)
            elif any(e[0] not in (2, 3) for e in ev[2:]):
                pred = "unexpected call after set_rng"
            elif steps != b + n * t:
                pred = "%d steps instead of b + n*t = %d" % (steps, b + n * t)
            elif marks != [b + (i + 1) * t for i in range(n)]:
                pred = "states recorded after steps %r, not after b+t, ..., b+n*t" % (marks[:8],)
            elif m.states != marks:
                pred = "get_model_state called at steps %r but stored %r" % (m.states[:8], marks[:8])
            elif not h.is_complete:
                pred = "collection not complete"
    wire = [0, 0 if m is not None else 2, seed] + [[] if v is None else [v] for v in (nc, ci, b, t)] + [n, len0, 0]
    feats = ["mcmc"]
    if desc.get("malformed"):
        feats.append("malformed")
    if valid:
        feats += ["t=1"] if t == 1 else []
        feats += ["b=0"] if b == 0 else []
        feats += ["n=1"] if n == 1 else []
        feats += ["both-classes"] if mk == "both" else []
    if isinstance(out, ImplError):
        feats.append("refused")
    elif len(out[0]) <= 2:
        feats.append("trivial")
    return dict(wire=wire, impl=out, pred=pred, features=feats, cmp=cmp_result())


def shrink(desc):
    if desc["kind"] == "mcmc":
        for key in ("b", "n", "t"):
            v = desc.get(key)
            if isinstance(v, int) and v > (0 if key == "b" else 1):
                yield dict(desc, **{key: v - 1})
