"""Regenerates /verif/MANIFEST.json from harness/manifest_entries.py"""
import json
import os
import sys

sys.path.insert(0, os.path.dirname(os.path.abspath(__file__)))
from manifest_entries import ENTRIES, NOT_APPLICABLE  # noqa

VERIF = os.path.dirname(os.path.dirname(os.path.abspath(__file__)))

checks = []
for pid in sorted(ENTRIES):
    e = ENTRIES[pid]
    checks.append(dict(
        property_id=pid,
        quick_cmd="./check %s quick" % pid,
        thorough_cmd="./check %s thorough" % pid,
        evidence_file="evidence/%s.json" % pid,
        replay_cmd_template="./check %s --replay {path}" % pid,
        engine="coq-model+correspondence",
        level_claimed=dict(category=e.get("category", "proof"), text=e["text"], design_ref=e.get("design_ref", "DESIGN.md 5 " + pid)),
        level_note=e["note"],
        technique=e.get("technique", "machine-checked proof in Coq 8.16 about a Gallina model that is tied to /repo on every run twice: whole source functions re-translated to Gallina (harness/py2gal.py) and proved equal to the model (C??_model_is_source*), and differential correspondence of the extracted model against the running implementation"),
    ))
m = dict(
    version=1,
    setup_cmd="./setup.sh",
    hooks=dict(guard="TANSEY_LAB_BATCHIE_VERIF", enable="checks export TANSEY_LAB_BATCHIE_VERIF=1 (no source hooks exist; observation is harness-side only)",
               baseline_off_cmd="cd /repo && /venv/bin/python -m pytest -ra -q -p no:cacheprovider --timeout=900 --continue-on-collection-errors",
               source_commits=[], add_only=True),
    engines=[dict(name="coq-model+correspondence", path="check", serves_properties=sorted(ENTRIES),
                  kind_free_text="Coq 8.16.1 theorems over hand-written Gallina models (coq/theories), extracted to OCaml (driver/) and run against the implementation on generated cases (harness/)")],
    checks=checks,
    notes="See DESIGN.md. Every check: regenerate Generated/*.v from /repo (per-file fail-closed), make the Coq project, re-check Props/<ID>.v with Print Assumptions, run the correspondence + property predicates on the implementation in /repo's working tree, write evidence/<ID>.json.",
    not_applicable=[dict(property_id=k, reason=v) for k, v in sorted(NOT_APPLICABLE.items())],
)
json.dump(m, open(os.path.join(VERIF, "MANIFEST.json"), "w"), indent=1)
print("wrote MANIFEST.json with", len(checks), "checks")
