"""C06 — every candidate plate is scored once; the minimum-score allowed plate is chosen."""
import contextlib
import logging
import math
import os
import shutil
import sys
import tempfile
from unittest import mock

import numpy as np

import common
from common import ImplError, cmp_result, float_key, impl_call

ID = "C06"
LEVEL = "proof"
RULE = ("kinds: split (np.array_split grid, n > len included); uniq (select_unique_zipped_numpy_arrays on random rows with many "
        "duplicates); holder (scripts of new/add_score/concat/add_score/argmin incl. over-fill, partially filled holders, "
        "eligibility masks, ties, -inf, through real save_h5/load_h5; get_score of present / absent / repeated / unfilled-slot ids before "
        "and after a save+load cycle); chunk (single score_chunk calls incl. n_chunks <= 0, "
        "chunk_index out of range / negative, unknown and observed batch ids); pipeline (real Screen with 0-8 plates, any "
        "observation pattern incl. partly observed plates, duplicate conditions across plates, n_chunks 1-10, batches, recording "
        "stub scorer with prescribed scores / SizeScorer / RandomScorer, save_h5+load_h5, any combine order incl. repeats and "
        "missing chunks, no policy / KPerSamplePlatePolicy / stub policies; a subset through the CLI main()s incl. the '-1' file). "
        "Non-trivial: at least two plates or a non-degenerate script; distinct by canonical case description.")
THEOREMS = {
    "C06_model_is_source_select_next_plate": "the Gallina translation of the whole function select_next_plate regenerated from /repo's current scoring/main.py on this run (Generated/SrcScoring.v) equals, for all arguments, the model select_next (batch_plate_ids None = []; the code returns the Plate screen.get_plate(id), the model the id)",
    "C06_model_is_source_score_chunk": "the translation of the whole function score_chunk regenerated on this run equals, for all arguments and ANY scorer (a function from the dict of plates it is handed to the dict of scores it returns), the model: score_chunk = what the scorer is handed, chunk_holder_of_answer = the holder filled from its answer",
    "C06_model_is_source_chunk_holder": "instance: with a scorer returning one score per handed plate the translated score_chunk is the model's chunk_holder",
    "C06_model_is_source_add_score": "the translation of ChunkedScoresHolder.add_score (arrays as lists; `a[i] = v` raising IndexError past the end) regenerated on this run equals the model add_score on the representation (scores, plate_ids, current_index) of a holder",
    "C06_model_is_source_combine": "the translation of ChunkedScoresHolder.combine equals the model h_combine: ALL slots of both concatenated, current_index += len(other.scores)",
    "C06_model_is_source_plate_id_with_minimum_score": "the translation of plate_id_with_minimum_score (None -> argmin over all slots; else isin mask, masked arrays, argmin, item) equals the model min_plate: id of the first slot of minimal score among the eligible ones, ValueError when none",
    "C06_model_is_source_concat": "the translation of ChunkedScoresHolder.concat (ValueError on [], left fold of combine) equals the model h_concat",
    "C06_model_is_source_init": "the translation of ChunkedScoresHolder.__init__ (the four attribute stores, np.zeros for both arrays) regenerated from /repo's scoring/main.py on this run (Generated/SrcHolderIO.v) equals, whatever the fresh instance held, the object of the model's holder_new: `size` zero slots, current_index 0; ValueError for a negative size",
    "C06_model_is_source_get_score": "the translation of ChunkedScoresHolder.get_score (`self.scores[self.plate_ids == plate_id].item()`) on the object of a model holder equals h_get_score: the score of the ONLY slot carrying that plate id, ValueError when none or several do (an unfilled slot carries id 0)",
    "C06_model_is_source_save_h5": "the translation of the WHOLE method save_h5 denotes the raw HDF5 content it writes; read back by name (the representation map shraw_close) it is exactly the model's file h_save h: the dataset `scores` from self.scores, `plate_ids` from self.plate_ids, the attribute `current_index` from self.current_index",
    "C06_model_is_source_load_h5": "the translation of the WHOLE classmethod load_h5 on every raw file that represents a model file f returns the object of the model's h_load f: which dataset is read into which local, cls(len(scores)) = the translated __init__, and which attribute of the new object receives which",
    "C06_source_save_load": "hence C06_save_load holds of the translated source: the object the translated load_h5 makes of what the translated save_h5 wrote has the saved score array, plate-id array and current_index; its size is len(scores)",
    "C06_source_get_score_after_reload": "and the translated get_score answers the same on the reloaded object as the model's h_get_score on the saved holder",
    "C06_array_split_concat": "np.array_split model: the n >= 1 sections concatenate to the list (also n > len)",
    "C06_array_split_sizes": "there are n sections; the first len mod n have len/n+1 elements, the others len/n",
    "C06_candidates_spec": "candidate ids are strictly ascending and are exactly the ids of screen plates that have an unobserved row and are not in the batch",
    "C06_chunks_partition": "all n_chunks >= 1: every chunk index succeeds and the ids handed to the scorer, concatenated over chunk indices, are the candidate list",
    "C06_chunks_cover_once": "the same in the property's words: no id twice, and an id is scored iff it is an unobserved plate of the screen not in the batch",
    "C06_chunks_disjoint": "two different chunk indices share no plate id",
    "C06_unknown_batch_rejected": "a non-empty batch none of whose ids is a plate of the screen makes score_chunk raise (every chunk)",
    "C06_unconditioned_rows": "empty batch: a candidate is scored on its own rows, in storage order",
    "C06_conditioned_rows": "non-empty batch: a candidate is scored on first-occurrence-unique(rows of the screen, in storage order, whose plate is the candidate or in the batch); no two kept rows share (sample, treatments); same key set as the union; kept rows belong to the union",
    "C06_conditioned_first_occurrence": "a row of the union is kept iff no earlier row of the union (storage order) has its (sample, treatments)",
    "C06_exact_fill": "a scorer returning one score per handed plate fills the chunk holder exactly: slots = (id, score) in handed order, current_index = size",
    "C06_overfill_raises": "add_score on a holder whose current_index is past the end raises",
    "C06_save_load": "load_h5(save_h5(h)) has the same slots and current_index (size becomes len(scores))",
    "C06_select_sound": "any order (repeats allowed) that contains every chunk index: the pipeline does not raise; the returned plate is a candidate (unobserved, not in batch), allowed by the policy, and no allowed plate has a strictly smaller score; None only if nothing is allowed",
    "C06_select_sound_perm": "the same for every permutation of the chunk indices",
    "C06_none_iff": "None is returned iff the policy allows no plate",
    "C06_none_iff_no_policy": "without a policy: None iff no plate of the screen is unobserved and outside the batch",
    "C06_ties_first": "plate_id_with_minimum_score returns the FIRST slot in storage order among the eligible slots of minimal score (numpy argmin)",
    "C06_ties_storage_order": "in the pipeline the storage order is: chunks in the order combined, each in ascending plate id; earlier allowed slots are strictly worse",
    "C06_ties_identity_order": "chunks combined in index order: among tied minimal allowed plates the smallest plate id is returned",
    'C06_model_is_source_get_plate_plates': "primitives `screen.get_plate(i)` -> get_plate and `screen.plates` -> plates: the translated Screen.get_plate / Screen.plates (Generated/SrcViews.v), read through the representation sc_rows / sc_subset, give the model's plate for that id / one such plate per sorted distinct plate id",
    'C06_model_is_source_plate_id': 'primitive `p.plate_id` -> p_id: the translated Plate.plate_id of the plate get_plate(pid) returns (pid a plate id of the screen) is pid',
    'C06_model_is_source_is_observed': 'primitive `p.is_observed` -> is_observed: the translated ScreenBase.is_observed on a plate = np.all of the mask bits of the rows the plate selects',
    'C06_model_is_source_plate_name': "primitive `p.plate_name` -> plate_name: the model answers the position of the plate's first row; the translated Plate.plate_name returns the plate name stored at that position and raises IndexError exactly when the model refuses",
}
ASSUMPTIONS = [
    "h5py dataset/attribute write then read is the identity on float64/int64 arrays and ints (exercised by every holder and pipeline case)",
    "the scorer is abstracted as a function (plate id, rows handed) -> score returning exactly one score per handed plate in the order handed; scores cross as order keys (common.float_key), NaN scores are outside the quantifier",
    "the policy is an abstract function (batch plates, candidates) -> plates constrained by 'returns only candidates'; in the correspondence the model policy replays the recorded answer of the real policy object (KPerSamplePlatePolicy itself is C16)",
    "plate / sample / treatment ids are those the real Screen computed (the encoding is C01); a ScreenSubset is modelled as the list of (position, row) it selects in storage order",
    "select_next_plate is evaluated on the same screen and batch the chunks were scored with (as the orchestration script does)",
]
EXPLANATION = ("Tie to the code, two ways.  (1) Source-translation links: select_next_plate and score_chunk are re-translated as WHOLE functions "
               "from /repo's current scoring/main.py on every run (harness/py2gal.py, configurations C06_SELECT / C06_SCORE_CHUNK in "
               "harness/src_functions.py, output Generated/SrcScoring.v; fail-closed: a construct outside the fragment, a changed parameter "
               "list, an undeclared variable or an unmatched call stops the build) and C06_model_is_source_* prove the hand-written models "
               "equal to the translations for all inputs.  Everything structural comes from the translation: the `if x is None` defaults, "
               "the comprehensions (also `in batch_plate_ids` on a possibly-None list), `if batch_plate_ids is not None` vs `if batch_plate_ids`, "
               "the optional policy, the early return of None, the conditioning loop, the dict of plates, the holder-filling loop, the "
               "propagation of every exception.  Trusted there: the translator (its rendering into Lib/PyRt.v) and exactly these primitives, "
               "one attribute / library call each, with the meaning written next to them in Model/Scores.v: np.random.default_rng() (an unread "
               "token), screen.plates = plates, plate.plate_id = p_id, plate.is_observed = is_observed, sorted(l, key=lambda p: p.plate_id) = "
               "sorted_by_id (stable), policy.filter_eligible_plates(batch_plates, unobserved_plates, rng) = the policy function, "
               "scores.plate_id_with_minimum_score(ids) = min_plate, screen.get_plate(i) = get_plate, plate.plate_name = plate_name (IndexError "
               "iff the plate selects no row), np.array_split(l, n)[i].tolist() = array_split_at, ScreenSubset.concat(l) = subset_concat "
               "(ValueError on [], the element itself for one, else the disjunction of the selection vectors), a.combine(b) = subset_union, "
               "filter_dataset_to_unique_treatments(x) = uniq_first [] x, len(d), ChunkedScoresHolder(n) = holder_new, scorer.score(plates=d, ...) "
               "= an arbitrary function of d, scores_holder.add_score(k, v) = add_score, a Plate used as a ScreenSubset = its rows; logger calls "
               "are skipped.  ChunkedScoresHolder.add_score / combine / plate_id_with_minimum_score / concat are translated too (configurations "
               "C06_ADD_SCORE, C06_COMBINE, C06_MIN_SCORE, C06_CONCAT; self.scores / self.plate_ids / self.current_index are state variables, the "
               "numpy arrays lists) with primitives a[i] = v (list_set, IndexError outside the array), np.concatenate((a, b)) = a ++ b, len, "
               "a.argmin() = position of the first minimum (ValueError on empty), a[i].item(), np.isin(a, l), a[mask] (boolean mask), l[0], l[1:], "
               "x.combine(y) = h_combine inside concat.  __init__, get_score, save_h5 and load_h5 are translated as well (configurations C06_HOLDER_INIT / "
               "_GET_SCORE / _SAVE / _LOAD, Generated/SrcHolderIO.v, proofs Proofs/C06SourceIO.v; vocabulary: last part of Model/Scores.v): there the "
               "object is the record pyholder of its four attributes (typed fields: the attribute reads and stores come from the translation), a "
               "float score is its order key (`list skey`, a type name distinct from the int array's `list Z`, so that an exchange of the two arrays "
               "is refused), a model holder h is represented by holder_obj h, and the HDF5 file is the raw content shraw (datasets and attributes "
               "by name, in creation order) with the explicit representation map shraw_close to the model's file (slots, current_index).  The "
               "`with` blocks, the order and arguments of the h5py calls, the locals read inside the `with` and used after it, cls(len(scores)) = "
               "the translated __init__ on a blank instance, and the three attribute stores of load_h5 come from the translation.  Trusted "
               "primitives there, one numpy / h5py call each: np.zeros(n, dtype=FloatingPointType / int) = n zeros (the key of 0.0 is 0), "
               "ValueError for a negative n; `a == v` elementwise; a[mask] = boolean-mask selection (IndexError on another length); a.item() = the "
               "only element of an array of size 1, else ValueError; len(a); h5py.File(fn, 'w') = a new empty file, h5py.File(fn, 'r') = the "
               "content handed in (entering / leaving the context changes nothing else); f.create_dataset('scores' / 'plate_ids', data=d) = append "
               "the named 1-d float / int dataset, an existing name raises; f.attrs['current_index'] = v / f.attrs['current_index'] = set / read the "
               "attribute (KeyError tag 30 when absent); f['scores'][:] / f['plate_ids'][:] = the stored array (KeyError tag 30 when absent, tag 32 "
               "when of another kind).  The holder cases of the correspondence (what = 2: get_score before and after a save / load cycle) exercise "
               "these on numpy / h5py.  These primitives are the ones the correspondence below exercises (kinds split, uniq, holder, chunk, pipeline).  "
               "(2) the differential correspondence.  "
               "Model: Model/Scores.v (screen rows, plates, candidates, np.array_split, first-occurrence unique, batch conditioning, "
               "ChunkedScoresHolder with zero-initialised slots, argmin over the eligibility mask, select_next_plate, whole pipeline). "
               "Compared exactly per case: (plate id, row positions, sample ids, treatment ids) handed to the scorer per chunk, every "
               "holder's size/slots/current_index after save+load, the combined holder, the selected id; exceptions <-> Err. "
               "Modelled, not verified: numpy/h5py storage, logging, argparse; the DBAL scorer (C05) and KPerSamplePlatePolicy (C16)."
               '  PRIMITIVES AS THEOREMS: the data.py helpers the scoring links use as primitives (Screen.plates, Screen.get_plate, '
               'Plate.plate_id, ScreenBase.is_observed on a plate, Plate.plate_name) are translated themselves (configurations C14_* / '
               'H14_* of harness/src_functions.py, Generated/SrcViews.v and SrcPlates.v, linked to Model/Views.v by the '
               'C14_model_is_source_* theorems) and Proofs/C06SourceHelpers.v proves, per primitive, that the translation read through '
               'the representation `Scores row i = (plate id, mask bit, sample id, treatment ids) of row i of the Views screen; Scores '
               'plate = its id and the (position, row) pairs the view selects` is the meaning the configuration gave it '
               '(C06_model_is_source_get_plate_plates / _plate_id / _is_observed / _plate_name; side conditions screen_wf / view_ok '
               "hold of every constructed screen / view).  What those helper translations trust is listed in C14's explanation (HELPER "
               'LINKS).  Still primitives here: np.random.default_rng(), sorted(key=plate_id), np.array_split(...)[i].tolist(), the '
               'policy / scorer / holder calls, and the Scores meanings of ScreenSubset.concat / combine / '
               'filter_dataset_to_unique_treatments (those three are linked in the Views vocabulary by C14; their bridge to '
               'Scores.subset_concat / subset_union / uniq_first is not stated). ')
# ---- source-translation links of the command-line wrappers (Model/Cli.v, Generated/SrcCli.v) ----
THEOREMS.update({
    'C06_model_is_source_cli_select_next_plate': "the translation of the whole function select_next_plate.main regenerated on this run equals, for every record L of library functions and all parsed arguments, Cli.cli_select_next_plate: select_next_plate on the loaded screen, the concatenation of the --scores files in argument order, the --batch-plate-id list, the policy object (None without --policy) and the generator from --seed; the output file gets the chosen plate's id, or -1 exactly when the library function returned None",
    'C06_model_is_source_cli_calculate_scores': 'the translation of the whole function calculate_scores.main regenerated on this run equals, for every record L of library functions and all parsed arguments, Cli.cli_calculate_scores (score_chunk on the loaded screen / concatenated thetas / concatenated distance matrix with rng from --seed, the chunk arguments and the --batch-plate-ids list; result saved)',
    'C06_model_is_source_cli_select_next_plate_scores': 'instance over Model/Scores.v with the library calls standing for the TRANSLATED select_next_plate and ChunkedScoresHolder.concat: the translated main = select_next on h_concat of the loaded score files; writes the id select_next answers, -1 exactly for None',
    'C06_model_is_source_cli_calculate_scores_scores': "instance over Model/Scores.v with the library call standing for the TRANSLATED score_chunk: the translated main = the model's score_chunk on the loaded screen and the --batch-plate-ids list, the scorer's answer (on the concatenated thetas / distance matrix and the seeded generator) stored by chunk_holder_of_answer, saved",
})
EXPLANATION += ("  (3) The CLI wrappers select_next_plate.main and calculate_scores.main are re-translated as WHOLE functions on every run (Generated/SrcCli.v) and proved equal to Model/Cli.v; two instances compose them with the translated library functions over Model/Scores.v.  These links trust the translator harness/py2gal.py (for these links extended by cfg typed_effects, kwcalls keys `module.function`, state_calls assigned to a tuple), the representation of Model/Cli.v (parsed arguments = a record of the plain argparse results, get_args() not translated = the primitive `get_args()` yielding that record; a main() denotes the list of (path, content) files it writes; `L` = ANY record of library functions over abstract types) and EXACTLY these primitives of harness/src_functions.py, each one field read / one library or constructor call standing for the function of that name (whose own link, where it exists, is the one of its property): CLI_PRNG (get_prng_from_seed_argument, reads args.seed only): numpy.random.SeedSequence(s).generate_state(1)[0] = seedseq_word mix s (ValueError for s < 0, `mix` an arbitrary function of the seed), numpy.random.default_rng(w) = Gen w. CLI_SELECT_NEXT_PLATE: the fields of `args` read as the record's projections (a store to one is refused); ignored: log_config.configure_logging(args), logger.info/warning; Screen.load_h5(p), args.policy_cls(**args.policy_params), get_prng_from_seed_argument(args) (translated), ChunkedScoresHolder.load_h5(p) / .concat(l), p.plate_id, the keyword call select_next_plate(...) with its defaults (batch_plate_ids=None, rng=None), the context open(p, 'w') = the path, typed effect f.write(str(n)) with n an int = append (f, n) (the file holds the decimal text of n). CLI_CALCULATE_SCORES: the fields of `args` read as the record's projections (a store to one is refused); ignored: log_config.configure_logging(args), logger.info/warning; Screen.load_h5(p), args.scorer_cls(**args.scorer_params), ThetaHolder(n_thetas=1) (a handle), h.load_h5(p), h.concat(l), ChunkedDistanceMatrix.load(p) / .concat(l), sum(l), s.plates, p.is_observed, p.plate_id (the three only feed a log line), get_prng_from_seed_argument(args) = the TRANSLATED function on the record's seed, the keyword call score_chunk(...) with the defaults of its signature (rng=None, progress_bar=False, n_chunks=1, chunk_index=0, batch_plate_ids=None; WHICH keywords are passed is read from the source), typed effect r.save_h5(p) = append (p, r) to the written files. ")
THEOREMS.update({
    'C06_model_is_source_cli_args_get_args': 'the translation of the WHOLE function select_next_plate.get_args (parse_args() = the raw namespace) equals Cli.sn_get_args: with --policy, class lookup among PlatePolicy subclasses, its required-argument annotations, --policy-param cast by them; without, policy_cls = None and policy_params = {} and no lookup',
    'C06_model_is_source_cli_args_select_next_plate': 'select_next_plate.main translated as a whole command (get_args() = the translated get_args; args.policy_cls(**args.policy_params) = construct on the two attributes) equals Cli.cli_select_next_plate_cmd: sn_mk_policy IS the resolved class instantiated with the cast parameters',
    'C06_model_is_source_cli_args_select_next_plate_world': 'the same with the introspection record made of the TRANSLATED get_class / get_required_init_args_with_annotations (Props/C18.v)',
})
import c18_args
EXPLANATION += c18_args.explanation(["get_args", "cmd"], "select_next_plate.get_args and select_next_plate.main as a whole command are") + (
    "cast_dict_to_type, str_to_bool and the introspection functions are linked in Props/C18.v (their primitives are listed in C18's evidence).  "
    "Runtime: get_args() is run on generated command lines (kind cli_args): policy_cls is the class named, policy_params are typed by its annotations.  ")

THEOREMS.update(c18_args.parser_theorems('C06', {'calculate_scores': ['fields', 'dests_derived', 'dests_distinct', 'seed', 'coordinates', 'params'], 'select_next_plate': ['fields', 'dests_derived', 'dests_distinct', 'seed', 'params']}))
EXPLANATION += c18_args.parser_explanation(['calculate_scores', 'select_next_plate'])

THEOREMS.update({
    "C06_model_is_source_size_scorer_score": "the translation of the whole method SizeScorer.score ({k: plate.size for k, plate in plates.items()}; distance_matrix, samples, rng, progress_bar are not read) equals the model's size_scorer on every plates dict (distinct keys, as in any Python dict): the same plate ids in the same order, each with the number of rows of its plate",
    "C06_model_is_source_size_scorer_score_general": "without the distinct-keys side condition: the comprehension is the left fold of dict_set over the entries",
})
EXPLANATION += ("  (4) SizeScorer.score is re-translated as a whole method (configuration L10B_SIZE_SCORER -> Generated/SrcScoring.v) and linked to "
                "Scores.size_scorer; trusted: the translator (extended by dict comprehensions over d.items()) and the one primitive p.size = the number of rows of the "
                "plate (a Plate where a ScreenSubset is expected is its rows in this vocabulary). ")

THEOREMS.update({
    "C06_select_sound_any_scorer": "gap review G6.1: for a scorer that is NOT a function of the plate (the call at position pos of the combine order is made by scorer pos - RandomScorer, sub-sampling DBAL) and any order containing every chunk index (repeats allowed: one plate then carries several scores): the pipeline does not raise; the returned plate is a candidate, allowed, and the score SOME call stored for it is <= the score ANY call stored for ANY allowed plate; None only if nothing is allowed",
    "C06_any_scorer_allowed_is_scored": "every allowed plate is handed to the scorer by at least one call of the combine order (the comparison of C06_select_sound_any_scorer is never vacuous)",
    "C06_pipeline_pos_constant": "for a scorer that is a function of the plate the positional pipeline IS the pipeline of C06_select_sound",
})
THEOREMS.update({
    "C06_model_is_source_conditioning_helpers": "gap review G6.3: primitives `a.combine(b)` -> subset_union, `ScreenSubset.concat(l)` -> subset_concat, `filter_dataset_to_unique_treatments(x)` -> uniq_first []: the translated ScreenSubset.combine / ScreenSubset.concat / filter_dataset_to_unique_treatments (Generated/SrcViews.v, SrcPlates.v), read through the representation sc_rows / sc_subset, give exactly the Scores subsets the configuration C06_SCORE_CHUNK says",
    "C06_model_is_source_conditioning": "composed as score_chunk composes them: the translated filter_dataset_to_unique_treatments(plate.combine(ScreenSubset.concat(batch plates))) selects uniq_first [] (subset_union plate (subset_concat batch plates)) - the rows the model's rows_for hands to the scorer",
})
EXPLANATION += ("  BRIDGE (gap review G6.3, replaces the sentence above saying it is not stated): Proofs/C06SourceBridge.v proves that the translated ScreenSubset.concat / combine / "
                "filter_dataset_to_unique_treatments, read through sc_rows / sc_subset, are Scores.subset_concat / subset_union / uniq_first [] (C06_model_is_source_conditioning_helpers, _conditioning); "
                "side conditions screen_wf / view_ok / same parent hold of every constructed screen and of the plates of one screen.  ")
# ---- gap review G6.1 / G6.2 / G5.5 / G6.4 + seeded C06-m10: what the generators explore in addition ----
RULE += ("  selcli: select_next_plate.main() on hand-written chunk files holding -inf / +inf / +-1.797e308 / +-5e-324 / scores one ulp apart / ties "
         "(and, in a smaller stream, NaN), with and without KPerSamplePlatePolicy, files shuffled, some empty, one possibly given twice: the plate written is unobserved, not in the batch, "
         "allowed by the policy (its recorded answer) and no allowed plate has a strictly lower score under Python's float ordering (-inf lowest), -1 only when nothing is allowed; "
         "without NaN the written id is also compared exactly with the model (first minimal allowed slot of the concatenation in command-line order).  "
         "pipeline, additional streams: scorer dbal = the real GaussianDBALScorer on real SparseDrugComboMCMCSample posterior samples and a complete distance matrix (3-5 samples, every triple enumerated), "
         "mostly WITH a batch so that the subsets handed over overlap (max_chunk 1 / 2 / 50), predicate: each candidate's score equals the scorer's score of exactly the rows handed for it, alone; "
         "scorer noisy / random with a REPEATED chunk (a plate carries two different scores in the combined holder): the selected plate's lowest stored score is <= every stored score of every allowed plate, "
         "the combination and argmin compared exactly with the model as a holder script; stub scores from the extreme table, sometimes NaN; screens of 12-40 plates of ONE common size "
         "(names P000.., two-digit ids), up to 45 chunks, batches of two-digit ids.  'Condition' in the batch-conditioning clause means the pair (sample id, treatment ids in column order): "
         "rows (A, B) and (B, A) are different conditions for the code, the model and the predicate alike.")
ASSUMPTIONS.append("NaN scores are outside the property's quantifier; what the unchanged tree does is documented, not judged: numpy argmin over the allowed slots returns the first NaN slot, "
                   "so an allowed plate with a NaN score is selected before every number (feature nan-wins); the predicate uses Python float comparisons, none of which is true of NaN")

logging.getLogger("batchie").setLevel(logging.ERROR)  # "No eligible plates remaining" warnings are not part of the check

TNAMES = ["", "a", "b", "c"]
DOSES = [0.0, 1.0, 2.0]
SCORES = [float("-inf"), -2.5, -1.0, -0.0, 0.0, 0.5, 1.0, 1.0, 3.25, 7.0]


def _tmpdir():
    os.makedirs(common.WORK, exist_ok=True)
    return tempfile.mkdtemp(dir=common.WORK)


# --------------------------------------------------------------------------- building the real objects


def build_screen(sd):
    from batchie.data import Screen

    rows = sd["rows"]
    n = len(rows)
    ar = sd["arity"]
    tn = np.array([[TNAMES[t] for t, _ in r[2]] for r in rows], dtype=str).reshape(n, ar)
    td = np.array([[DOSES[d] for _, d in r[2]] for r in rows], dtype=float).reshape(n, ar)
    mask = np.array([r[0] in sd["observed"] for r in rows], dtype=bool)
    screen = Screen(
        treatment_names=tn, treatment_doses=td,
        sample_names=np.array(["s%d" % r[1] for r in rows], dtype=str),
        plate_names=np.array([("P%%0%dd" % sd.get("pad", 1)) % r[0] for r in rows], dtype=str),
        observations=np.zeros(n, dtype=float), observation_mask=mask)
    part = sd.get("partial") or []
    if part:
        m = np.zeros(n, dtype=bool)
        m[part] = True
        screen.set_observed(m, np.zeros(int(m.sum()), dtype=float))
    return screen


def screen_wire(screen):
    return [[int(p), bool(o), int(s), [int(t) for t in tr]]
            for p, o, s, tr in zip(screen.plate_ids, screen.observation_mask, screen.sample_ids, screen.treatment_ids.tolist())]


def holder_contents(h):
    assert len(h.scores) == len(h.plate_ids)
    return [int(h.size), [[int(i), _fk(s)] for i, s in zip(h.plate_ids, h.scores)], int(h.current_index)]


def _fk(x):
    """order key of a score; NaN has none (such cases never reach the model)"""
    return "nan" if x != x else float_key(x)


def subset_rows(p):
    idx = np.where(p.selection_vector)[0].tolist()
    return [[int(i), int(s), [int(t) for t in tr]] for i, s, tr in zip(idx, p.sample_ids, p.treatment_ids.tolist())]


def _scorer_classes():
    from batchie.core import Scorer

    class Stub(Scorer):
        """records what it is handed; returns the prescribed score of each plate"""

        def __init__(self, table):
            self.table = table
            self.calls = []

        def score(self, plates, distance_matrix, samples, rng, progress_bar):
            self.calls.append([[int(k), subset_rows(p)] for k, p in plates.items()])
            return {k: self.table[int(k)] for k in plates.keys()}

    class Wrap(Scorer):
        """records what a real scorer is handed and what it returns"""

        def __init__(self, inner):
            self.inner = inner
            self.calls = []
            self.returned = []

        def score(self, plates, distance_matrix, samples, rng, progress_bar):
            self.calls.append([[int(k), subset_rows(p)] for k, p in plates.items()])
            self.objects = dict(plates)
            r = self.inner.score(plates=plates, distance_matrix=distance_matrix, samples=samples, rng=rng, progress_bar=progress_bar)
            self.returned.append([[int(k), float(v)] for k, v in r.items()])
            return r

    return Stub, Wrap


def _noisy_scorer_class():
    from batchie.core import Scorer

    class Noisy(Scorer):
        """a scorer that is NOT a function of the plate: the score of a plate depends on which call (position in the combine
        order) scored it - as RandomScorer or a sub-sampling DBAL scorer do.  Reproducible: value = table[(plate + 3 * position)]"""

        def __init__(self, table, pos):
            self.table, self.pos = table, pos
            self.calls, self.returned = [], []

        def score(self, plates, distance_matrix, samples, rng, progress_bar):
            self.calls.append([[int(k), subset_rows(p)] for k, p in plates.items()])
            r = {k: self.table[(int(k) + 3 * self.pos) % len(self.table)] for k in plates.keys()}
            self.returned.append([[int(k), float(v)] for k, v in r.items()])
            return r

    return Noisy


def _dbal_inputs(desc, screen):
    """posterior samples of the real SparseDrugCombo sample class (sized generously for the screen's ids) and a complete
    distance matrix over them; few samples, so that every triple is enumerated (the scorer draws a permutation, nothing else)"""
    import random as _random

    from batchie.core import ThetaHolder
    from batchie.distance_calculation import ChunkedDistanceMatrix
    from batchie.models.sparse_combo import SparseDrugComboMCMCSample

    r = _random.Random(desc["seed"])
    T = desc.get("T", 4)
    ns, nt, D = 8, 16, 2
    g = lambda *shape: np.array([r.randint(-16, 16) / 8.0 for _ in range(int(np.prod(shape)))]).reshape(shape)
    th = ThetaHolder(n_thetas=T)
    for _ in range(T):
        th.add_theta(SparseDrugComboMCMCSample(W=g(ns, D), W0=g(ns), V2=g(nt, D), V1=g(nt, D), V0=g(nt), alpha=r.randint(-8, 8) / 8.0,
                                               precision=2.0 ** r.randint(-2, 4)))
    dm = ChunkedDistanceMatrix(size=T)
    zero = desc.get("dist") == "zero"
    for i in range(T):
        for j in range(i):
            dm.add_value(i, j, 0.0 if zero else (r.choice([0.0, r.randint(1, 40) / 8.0, r.randint(1, 40) / 8.0])))
    return th, dm


def _same_score(a, b):
    a, b = float(a), float(b)
    return a == b or (a != a and b != b) or abs(a - b) <= 1e-9 * max(1.0, abs(a), abs(b))


class _RecPolicy:
    """delegates to a policy object (or a prescribed answer) and records the plate ids it returned"""

    def __init__(self, inner=None, keep=None, rogue=None, screen=None):
        self.inner, self.keep, self.rogue, self.screen = inner, keep, rogue, screen
        self.answer = None
        self.seen = None

    def filter_eligible_plates(self, batch_plates, unobserved_plates, rng):
        self.seen = ([int(p.plate_id) for p in batch_plates], [int(p.plate_id) for p in unobserved_plates])
        if self.inner is not None:
            res = self.inner.filter_eligible_plates(batch_plates=batch_plates, unobserved_plates=unobserved_plates, rng=rng)
        else:
            res = [p for p in unobserved_plates if int(p.plate_id) in self.keep]
            if self.rogue:
                res = res + [self.screen.get_plate(i) for i in self.rogue]
        self.answer = [int(p.plate_id) for p in res]
        return res


# --------------------------------------------------------------------------- independent reference (for pred only)


def ref_candidates(w, batch):
    """sorted ids of plates with an unobserved row, not in the batch — straight from the rows"""
    ids = sorted({r[0] for r in w})
    return [i for i in ids if not all(r[1] for r in w if r[0] == i) and i not in batch]


def pred_handed(w, batch, pid, rows):
    """the property's statement about the rows one candidate is scored on"""
    got = [r[0] for r in rows]
    for i, s, tr in rows:
        if not (0 <= i < len(w)) or w[i][2] != s or w[i][3] != tr:
            return "row handed to the scorer is not the screen's row at that position"
    own = [i for i, r in enumerate(w) if r[0] == pid]
    if not batch:
        return None if got == own else "without a batch plate %d was scored on rows %r, its own rows are %r" % (pid, got, own)
    union = [i for i, r in enumerate(w) if r[0] == pid or r[0] in batch]
    key = lambda i: (w[i][2], tuple(w[i][3]))
    if not set(got) <= set(union):
        return "plate %d scored on rows outside the union of its own and the batch plates' rows" % pid
    if len({key(i) for i in got}) != len(got):
        return "plate %d scored on two experiments with the same (sample, treatments)" % pid
    if {key(i) for i in got} != {key(i) for i in union}:
        return "plate %d: conditions of the scored rows differ from those of the union" % pid
    return None


# --------------------------------------------------------------------------- generators


def gen_screen(rng, single_sample=False, max_plates=8):
    npl = rng.choice([0, 1, 2, 3, 3, 4, 4, 5, 5, 6, 6, 7, 8, 8])
    npl = min(npl, max_plates)
    arity = rng.choice([1, 2, 2, 2, 3])
    nsamp = rng.choice([1, 2, 3])
    ntr = rng.choice([2, 3, 4])
    rows = []
    plate_sample = {}
    for p in range(npl):
        plate_sample[p] = rng.randrange(nsamp)
        for _ in range(rng.choice([1, 1, 2, 2, 3, 4])):
            sm = plate_sample[p] if single_sample else rng.randrange(nsamp)
            tr = [[rng.randrange(ntr), rng.choice([0, 1, 1, 1, 2, 2])] for _ in range(arity)]
            rows.append([p, sm, tr])
    if rng.random() < 0.7:
        rng.shuffle(rows)  # plates interleaved in storage order
    pat = rng.choice(["none", "none", "all", "rand", "rand", "rand", "rand", "rand"])
    observed = [p for p in range(npl) if pat == "all" or (pat == "rand" and rng.random() < 0.25)]
    sd = dict(rows=rows, arity=arity, observed=observed)
    if rows and rng.random() < 0.12:
        k = rng.randint(1, min(3, len(rows)))
        sd["partial"] = sorted(rng.sample(range(len(rows)), k))
    return sd, npl


def gen_batch(rng, sd, npl):
    """ids are those of the real Screen: P0..P(npl-1) sort to 0..npl-1 (npl <= 8 keeps single digits)"""
    mode = rng.choice(["none", "empty", "sel", "sel", "sel", "sel", "observed", "unknown", "mixed"])
    unobs = [p for p in range(npl) if p not in sd["observed"]]
    if mode == "none":
        return None
    if mode == "empty" or npl == 0 and mode != "unknown":
        return []
    if mode == "sel":
        pool = unobs or list(range(npl))
        return rng.sample(pool, rng.randint(1, min(3, len(pool))))
    if mode == "observed":
        pool = sd["observed"] or list(range(npl))
        return rng.sample(pool, rng.randint(1, min(2, len(pool))))
    if mode == "unknown":
        return [npl + rng.randint(0, 3)] + ([-1] if rng.random() < 0.3 else [])
    b = rng.sample(range(npl), rng.randint(1, min(3, npl))) + [npl + 1]
    rng.shuffle(b)
    return b + ([b[0]] if rng.random() < 0.2 else [])


def gen_order(rng, n, mode):
    idx = list(range(n))
    if mode == "identity":
        return idx
    if mode == "perm":
        rng.shuffle(idx)
        return idx
    if mode == "repeat":
        o = idx + [rng.randrange(n) for _ in range(rng.randint(1, 3))]
        rng.shuffle(o)
        return o
    if mode == "missing":
        o = [k for k in idx if rng.random() < 0.6]
        rng.shuffle(o)
        return o
    return idx


# the screen of the Examples in Props/C06.v (5 plates interleaved in storage order, plate 3 observed, plate 4 partly
# observed, duplicate conditions across plates), with the selections those Examples state
_AB, _AB2, _CB2 = [[1, 1], [2, 1]], [[1, 1], [2, 2]], [[0, 0], [2, 2]]
EX_SCREEN = dict(arity=2, observed=[3], partial=[7],
                 rows=[[2, 0, _AB], [0, 0, _AB], [1, 0, _AB], [0, 1, _AB], [2, 0, _AB2], [1, 1, _AB], [3, 2, _AB], [4, 0, _AB], [4, 2, _CB2]])
EX_TABLE = [7.0, 1.0, -3.0, 1.0, -3.0, 1.0, 1.0, 1.0, 1.0]


def _ex(order, n=3, policy="none", batch=(1,), **kw):
    return dict(kind="pipeline", screen=EX_SCREEN, batch=list(batch), n=n, order=order, scorer="stub", table=EX_TABLE,
                policy=policy, cli=False, seed=0, **kw)


FIXED = [
    (_ex([2, 0, 1]), [4]),                                                   # C06_example_select_tie_a
    (_ex([0, 1, 2]), [2]),                                                   # C06_example_select_tie_b
    (_ex([0, 1, 2, 1], policy="stubpol", keep=[0, 1, 3, 4, 5, 6, 7, 8]), [4]),  # C06_example_select_policy
    (_ex([1, 0], n=2, policy="stubpol", keep=[]), []),                       # C06_example_none (policy allows nothing)
    (_ex([1, 0], n=2, batch=(0, 1, 2, 4, 9)), []),                           # C06_example_none (no candidate)
    (_ex([0, 2]), [4]),                                                      # C06_example_missing_chunk
]


def extra(tier):
    """the vm_compute Examples of Props/C06.v replayed on the implementation"""
    out = []
    for i, (d, want) in enumerate(FIXED):
        r = run(d)
        got = r["impl"][2] if not isinstance(r["impl"], ImplError) else repr(r["impl"])
        out.append(("props-example-%d" % i, got == want,
                    "implementation selected %r, Props/C06.v example states %r" % (got, want)))
    r = run(_ex([0, 1, 2, 3, 4], n=5))                                     # C06_example_chunks
    want = [[[0, [1, 3]]], [[2, [0, 4, 5]]], [[4, [2, 5, 8]]], [], []]
    got = repr(r["impl"]) if isinstance(r["impl"], ImplError) else [[[pid, [x[0] for x in rows]] for pid, rows in handed] for handed, _ in r["impl"][0]]
    out.append(("props-example-chunks", got == want, "scorer was handed %r, Props/C06.v example states %r" % (got, want)))
    return out


def gen(rng, tier):
    big = tier != "quick"
    for d, _ in FIXED:
        yield d
    # np.array_split grid
    for ln in range(0, 13 if not big else 25):
        for n in range(1, 15 if not big else 30):
            yield dict(kind="split", len=ln, n=n)
    for _ in range(5 if not big else 40):
        yield dict(kind="split", len=rng.randint(13, 60), n=rng.randint(1, 80))
    # first-occurrence unique
    for _ in range(80 if not big else 800):
        m = rng.choice([0, 1, 2, 3, 5, 8, 12])
        ar = rng.choice([1, 2, 3])
        yield dict(kind="uniq", rows=[[rng.randrange(2), [rng.randint(-1, 1 if ar > 1 else 2) for _ in range(ar)]] for _ in range(m)], arity=ar)
    # holder scripts
    for _ in range(150 if not big else 1500):
        hs = []
        for _ in range(rng.choice([0, 1, 1, 1, 2, 2, 3, 4])):
            size = rng.choice([0, 1, 2, 3, 4])
            fill = rng.choice(["exact", "exact", "exact", "under", "over"])
            k = size if fill == "exact" else (rng.randint(0, size) if fill == "under" else size + rng.randint(1, 2))
            hs.append([size, [[rng.randint(0, 6), rng.choice(SCORES)] for _ in range(k)]])
        post = [[rng.randint(0, 6), rng.choice(SCORES)] for _ in range(rng.choice([0, 0, 0, 1, 2]))]
        el = rng.choice([None, None, sorted(rng.sample(range(0, 8), rng.randint(0, 5)))])
        yield dict(kind="holder", holders=hs, post=post, eligible=el, what=rng.choice([0, 1, 1]))
    # single score_chunk calls, including invalid arguments
    for _ in range(120 if not big else 1200):
        sd, npl = gen_screen(rng)
        batch = gen_batch(rng, sd, npl)
        n = rng.choice([1, 2, 2, 3, 3, 4, 5, 10, 0, -1, rng.randint(1, 10)])
        k = rng.choice([0, 0, 1, 1, max(0, n - 1), rng.randrange(max(1, n)), rng.randrange(max(1, n)), n, -1, -n, -n - 1, rng.randint(-3, 11)])
        yield dict(kind="chunk", screen=sd, batch=batch, n=n, k=k)
    # whole pipeline
    for it in range(420 if not big else 4500):
        scorer = rng.choice(["stub", "stub", "stub", "size", "random"])
        pol = rng.choice(["none", "none", "kper", "kper", "stubpol", "stubpol", "rogue"])
        sd, npl = gen_screen(rng, single_sample=(pol == "kper" and rng.random() < 0.85))
        batch = gen_batch(rng, sd, npl)
        mode = rng.choice(["identity", "perm", "perm", "perm", "repeat", "missing"])
        if it % 4 == 0:  # candidates for the CLI path
            scorer = rng.choice(["size", "random"])
            pol = rng.choice(["none", "kper"])
            sd, npl = gen_screen(rng, single_sample=(pol == "kper" and rng.random() < 0.85))
            sd.pop("partial", None)
            batch = gen_batch(rng, sd, npl)
        est = len([p for p in range(npl) if p not in sd["observed"] and p not in (batch or [])])
        n = min(10, max(1, rng.choice([1, 2, 2, 3, 3, est - 1, est - 1, est, est, est + 1, est + 3, rng.randint(1, 10)])))
        if scorer == "random" and mode == "repeat":
            mode = "perm"
        cli = ((it % 4 == 0) and not sd.get("partial") and npl > 0 and scorer != "stub" and pol in ("none", "kper")
               and all(x >= 0 for x in (batch or [])))
        if cli and mode == "missing":
            mode = "perm"
        order = gen_order(rng, n, mode)
        pool = rng.sample(SCORES, rng.choice([2, 3, 5, len(SCORES)]))
        table = [rng.choice(pool) for _ in range(9)]
        d = dict(kind="pipeline", screen=sd, batch=batch, n=n, order=order, scorer=scorer, table=table, policy=pol, cli=cli,
                 seed=rng.randrange(10 ** 6))
        if pol == "kper":
            d["k"] = rng.choice([1, 2, 2, 3])
        if pol in ("stubpol", "rogue"):
            d["keep"] = [p for p in range(9) if rng.random() < rng.choice([0.0, 0.3, 0.7, 1.0])]
        if pol == "rogue":
            d["rogue"] = rng.sample(range(max(1, npl)), min(max(1, npl), rng.randint(1, 2))) if npl else []
        yield d
    # get_score on holder scripts (after everything else, so that the streams above are unchanged): distinct ids mostly,
    # sometimes a repeated id, an absent id, the id 0 of an unfilled slot
    for _ in range(80 if not big else 800):
        hs = []
        ids = rng.sample(range(0, 9), 8)
        for _ in range(rng.choice([1, 1, 2, 3])):
            size = rng.choice([0, 1, 2, 3])
            k = rng.choice([size, size, max(0, size - 1)])
            adds = []
            for _ in range(k):
                adds.append([ids.pop() if ids and rng.random() < 0.85 else rng.randint(0, 8), rng.choice(SCORES)])
            hs.append([size, adds])
        used = [i for _, a in hs for i, _ in a]
        pid = rng.choice(used + used + [0, rng.randint(0, 9)]) if used else rng.randint(0, 3)
        yield dict(kind="holder", holders=hs, post=[], eligible=[pid], what=2)
    yield from gen_selcli(rng, tier)
    yield from gen_pipeline2(rng, tier)
    import c18_args
    yield from c18_args.gen_get_args(rng, tier, only="select_next_plate")
    yield from c18_args.gen_parser(rng, tier, commands=["calculate_scores"])      # the other parser this property states theorems about

# extreme score values for the select_next_plate command (kind selcli): as text, so that NaN / inf survive JSON
XSCORES = ["-inf", "-inf", "inf", "-1.7976931348623157e+308", "1.7976931348623157e+308", "5e-324", "-5e-324", "0.0", "-0.0",
           "1.0", "1.0000000000000002", "0.9999999999999999", "-2.5", "3.25", "1e+300", "-1e+300"]


def gen_selcli(rng, tier):
    """select_next_plate.main() on hand-written chunk files holding -inf / +inf / huge / denormal / 1-ulp-apart scores (and,
    in a smaller stream, NaN), with and without KPerSamplePlatePolicy, files shuffled, some of them empty, one possibly given
    twice"""
    for it in range(100 if tier == "quick" else 1000):
        pol = rng.choice(["none", "kper", "kper"])
        sd, npl = gen_screen(rng, single_sample=(pol == "kper"))
        sd.pop("partial", None)
        if npl == 0:
            continue
        unobs = [p for p in range(npl) if p not in sd["observed"]]
        batch = rng.choice([None, [], rng.sample(unobs, min(len(unobs), rng.randint(1, 2))) if unobs else []])
        cands = [p for p in unobs if p not in (batch or [])]
        flavour = rng.choice(["mixed", "mixed", "all-neg-inf", "neg-inf-vs-finite", "pos-inf", "nan"])
        if flavour == "all-neg-inf":
            pool = ["-inf"]
        elif flavour == "neg-inf-vs-finite":
            pool = ["-inf", "-1.7976931348623157e+308", "-1e+300", "0.0"]
        elif flavour == "pos-inf":
            pool = ["inf", "inf", "1.7976931348623157e+308", "-inf"]
        elif flavour == "nan":
            pool = ["nan", "nan", "-inf", "1.0", "inf"]
        else:
            pool = rng.sample(XSCORES, rng.choice([2, 3, 5, len(XSCORES)]))
        scored = [[p, rng.choice(pool)] for p in cands]
        nfiles = rng.choice([1, 2, 3, len(cands) + 2])
        cut = sorted(rng.randint(0, len(scored)) for _ in range(nfiles - 1))
        files = [scored[a:b] for a, b in zip([0] + cut, cut + [len(scored)])]
        nonempty = [f for f in files if f]
        if rng.random() < 0.4 and nonempty:
            dup = [list(x) for x in rng.choice(nonempty)]   # one chunk file given twice ...
            if rng.random() < 0.75:                         # ... scored again by a scorer that is not a function of the plate
                dup = [[pid, rng.choice([x for x in XSCORES if x != t] if flavour != "nan" else pool)] for pid, t in dup]
            files.append(dup)
        rng.shuffle(files)
        d = dict(kind="selcli", screen=sd, batch=batch, files=files, policy=pol, seed=rng.randrange(10 ** 6))
        if pol == "kper":
            d["k"] = rng.choice([1, 1, 2, 3])
        yield d


# --------------------------------------------------------------------------- running


def _float_of(v):
    return float(v)


def _score_wire(x):
    return float_key(x)


def run(desc):
    if desc.get("kind") == "cli_args":      # get_args() of this property's wrapper on generated command lines (harness/c18_args.py)
        import c18_args
        return c18_args.run_case(desc)
    k = desc["kind"]
    if k == "split":
        l = list(range(100, 100 + desc["len"]))
        n = desc["n"]
        impl = [[int(x) for x in c.tolist()] for c in np.array_split(l, n)]
        pred = None
        if [x for c in impl for x in c] != l or len(impl) != n:
            pred = "array_split sections do not concatenate to the list"
        feats = ["split"] + (["n>len"] if n > len(l) else []) + (["remainder"] if len(l) % n else []) + (["trivial"] if len(l) < 2 else [])
        return dict(wire=[3, l, n], impl=impl, pred=pred, features=feats)
    if k == "uniq":
        return run_uniq(desc)
    if k == "holder":
        return run_holder(desc)
    if k == "chunk":
        return run_chunk(desc)
    if k == "pipeline":
        return run_pipeline(desc)
    if k == "selcli":
        return run_selcli(desc)
    raise ValueError(k)


def run_uniq(desc):
    from batchie.common import select_unique_zipped_numpy_arrays

    rows = desc["rows"]
    ar = desc["arity"]
    arrs = [np.array([r[0] for r in rows], dtype=int)] + [np.array([r[1][j] for r in rows], dtype=int) for j in range(ar)]
    if rows:
        mask = select_unique_zipped_numpy_arrays(arrs)
        impl = [int(i) for i in np.where(mask)[0]]
    else:
        # np.unique(axis=0) of a (0, k) array is legal; keep whatever the implementation does
        r = impl_call(select_unique_zipped_numpy_arrays, arrs)
        impl = [] if isinstance(r, ImplError) else [int(i) for i in np.where(r)[0]]
    keys = [(r[0], tuple(r[1])) for r in rows]
    expect = [i for i, kk in enumerate(keys) if kk not in keys[:i]]
    pred = None if impl == expect else "mask does not select the first occurrence of every distinct row"
    feats = ["uniq"] + (["dups"] if len(set(keys)) < len(keys) else []) + (["trivial"] if len(rows) < 2 else [])
    return dict(wire=[4, [[r[0], r[1]] for r in rows]], impl=impl, pred=pred, features=feats)


def run_holder(desc):
    from batchie.scoring.main import ChunkedScoresHolder

    d = _tmpdir()
    try:
        def go():
            built = []
            for pos, (size, adds) in enumerate(desc["holders"]):
                h = ChunkedScoresHolder(size)
                for pid, sc in adds:
                    h.add_score(pid, sc)
                fn = os.path.join(d, "h%d.h5" % pos)
                h.save_h5(fn)
                h2 = ChunkedScoresHolder.load_h5(fn)
                if holder_contents(h2)[1:] != holder_contents(h)[1:] or h2.size != len(h.scores):
                    raise AssertionError("save/load changed the holder")
                # the model builds the holder without save/load: size stays the declared one
                built.append(h)
            h = ChunkedScoresHolder.concat(built)
            for pid, sc in desc["post"]:
                h.add_score(pid, sc)
            if desc["what"] == 0:
                return holder_contents(h)
            if desc["what"] == 2:      # get_score, before and after a save / load cycle of the combined holder
                fn = os.path.join(d, "combined.h5")
                h.save_h5(fn)
                got = [impl_call(lambda hh=hh: float_key(hh.get_score(desc["eligible"][0]))) for hh in (h, ChunkedScoresHolder.load_h5(fn))]
                if repr(got[0]) != repr(got[1]):
                    raise AssertionError("get_score differs after save/load: %r / %r" % (got[0], got[1]))
                if isinstance(got[0], ImplError):
                    raise ValueError("get_score raised " + got[0].cls)
                return got[0]
            return int(h.plate_id_with_minimum_score(desc["eligible"]))
        out = impl_call(go)
    finally:
        shutil.rmtree(d, ignore_errors=True)
    pred = None
    if isinstance(out, ImplError) and out.cls == "AssertionError":
        pred = "save_h5/load_h5 does not return the saved slots"
    exact = all(len(a) == s for s, a in desc["holders"]) and not desc["post"]
    if desc["what"] == 2 and pred is None:
        # the property's own reading of get_score: the score added for that plate id when exactly one slot carries it
        slots = [(i, sc) for sz, a in desc["holders"] for i, sc in (a + [[0, 0.0]] * max(0, sz - len(a)))[:max(sz, 0)]]
        mine = [sc for i, sc in slots if i == desc["eligible"][0]]
        overfull = any(len(a) > sz for sz, a in desc["holders"])
        if not overfull and len(mine) == 1 and (isinstance(out, ImplError) or out != float_key(mine[0])):
            pred = "get_score does not return the score stored for the plate id"
        if not overfull and len(mine) != 1 and not isinstance(out, ImplError):
            pred = "get_score answered although no / several slots carry the plate id"
    if exact and desc["what"] == 1 and not isinstance(out, ImplError):
        slots = [x for _, a in desc["holders"] for x in a]
        el = desc["eligible"]
        ok = [(i, s) for i, s in slots if el is None or i in el]
        if not ok or out not in [i for i, _ in ok] or any(s < min(s2 for i2, s2 in ok if i2 == out) for _, s in ok):
            pred = "argmin over the eligibility mask is not an eligible plate of minimal score"
    feats = ["holder", {0: "contents", 1: "argmin", 2: "get_score"}[desc["what"]]] + (["exact-fill"] if exact else ["over/under-fill"]) \
        + (["mask"] if desc["eligible"] is not None else []) + (["raises"] if isinstance(out, ImplError) else []) \
        + (["-inf"] if any(sc == float("-inf") for _, a in desc["holders"] for _, sc in a) else []) \
        + (["trivial"] if sum(len(a) for _, a in desc["holders"]) < 2 else [])
    wire = [2, desc["what"], [[s, [[i, float_key(sc)] for i, sc in a]] for s, a in desc["holders"]],
            [[i, float_key(sc)] for i, sc in desc["post"]], None if desc["eligible"] is None else [desc["eligible"]]]
    return dict(wire=wire, impl=out, pred=pred, features=feats, cmp=cmp_result())


def run_chunk(desc):
    from batchie.scoring.main import score_chunk

    screen = build_screen(desc["screen"])
    w = screen_wire(screen)
    batch = desc["batch"]
    Stub, _ = _scorer_classes()
    stub = Stub({i: float(i) for i in range(-2, 20)})

    def go():
        h = score_chunk(scorer=stub, thetas=None, screen=screen, distance_matrix=None, rng=np.random.default_rng(0),
                        n_chunks=desc["n"], chunk_index=desc["k"], batch_plate_ids=batch)
        if len(stub.calls) != 1:
            raise AssertionError("scorer called %d times" % len(stub.calls))
        return stub.calls[0]
    out = impl_call(go)
    b = batch or []
    valid = desc["n"] >= 1 and 0 <= desc["k"] < desc["n"] and (not b or any(r[0] in b for r in w))
    pred = None
    if valid and isinstance(out, ImplError):
        pred = "score_chunk raised on valid arguments: %r" % (out,)
    if not isinstance(out, ImplError):
        cands = ref_candidates(w, b)
        if any(pid not in cands for pid, _ in out):
            pred = "a plate that is observed or in the batch was scored"
        for pid, rows in out:
            pred = pred or pred_handed(w, b, pid, rows)
    feats = ["chunk"] + (["raises"] if isinstance(out, ImplError) else []) + (["valid"] if valid else ["invalid-args"]) \
        + (["batch"] if b else []) + (["neg-index"] if desc["k"] < 0 else []) + (["trivial"] if len({r[0] for r in w}) < 2 else [])
    return dict(wire=[0, w, b, desc["n"], desc["k"]], impl=out, pred=pred, features=feats, cmp=cmp_result())


@contextlib.contextmanager
def _argv(args):
    with mock.patch.object(sys, "argv", args), mock.patch("batchie.log_config.configure_logging"):
        yield


def _write_aux(d):
    """thetas + distance matrix files the calculate_scores CLI insists on loading"""
    from batchie.core import ThetaHolder
    from batchie.distance_calculation import ChunkedDistanceMatrix
    from batchie.models.sparse_combo import SparseDrugComboMCMCSample

    th = ThetaHolder(n_thetas=1)
    th.add_theta(SparseDrugComboMCMCSample(W=np.zeros((2, 2)), W0=np.zeros((2,)), V2=np.zeros((2, 2)), V1=np.zeros((2, 2)),
                                           V0=np.zeros((2,)), alpha=5.0, precision=100.0))
    th.save_h5(os.path.join(d, "thetas.h5"))
    dm = ChunkedDistanceMatrix(size=2)
    dm.add_value(1, 0, 1.0)
    dm.save(os.path.join(d, "dm.h5"))


def run_pipeline(desc):
    from batchie.data import Screen
    from batchie.policies.k_per_sample import KPerSamplePlatePolicy
    from batchie.scoring.main import ChunkedScoresHolder, score_chunk, select_next_plate
    from batchie.scoring.rand import RandomScorer
    from batchie.scoring.size import SizeScorer

    Stub, Wrap = _scorer_classes()
    screen = build_screen(desc["screen"])
    batch = desc["batch"]
    b = batch or []
    n, order = desc["n"], desc["order"]
    table = {i: desc["table"][i % len(desc["table"])] for i in range(-2, 64)}
    if desc.get("xtable"):      # extreme stub scores as text (inf / NaN survive JSON)
        table = {i: float(desc["xtable"][i % len(desc["xtable"])]) for i in range(-2, 64)}
    cli = desc.get("cli")
    allvals = {}       # plate id -> every score a scorer call returned for it (a repeated chunk scores its plates again)
    dbal_bad = []
    thetas_in = dm_in = None
    if desc["scorer"] == "dbal":
        thetas_in, dm_in = _dbal_inputs(desc, screen)
    d = _tmpdir()
    recorded = {}      # plate id -> score the scorer returned
    rescored = []      # a plate scored twice with different values (random scorer with repeats: not generated)
    polrec = None
    try:
        if cli:
            screen.save_h5(os.path.join(d, "screen.h5"))
            screen = Screen.load_h5(os.path.join(d, "screen.h5"))
            _write_aux(d)
        w = screen_wire(screen)

        def note(returned):
            for pid, v in returned:
                if pid in recorded and recorded[pid] != v and not (v != v and recorded[pid] != recorded[pid]):
                    rescored.append(pid)
                recorded[pid] = v
                allvals.setdefault(pid, []).append(v)

        def go():
            nonlocal polrec
            per = []
            loaded = []
            for pos, kidx in enumerate(order):
                fn = os.path.join(d, "scores_%d.h5" % pos)
                if cli:
                    from batchie.cli import calculate_scores
                    cls = SizeScorer if desc["scorer"] == "size" else RandomScorer
                    calls, rets = [], []
                    orig = cls.score

                    def rec_score(self, plates, distance_matrix, samples, rng, progress_bar, _orig=orig):
                        calls.append([[int(kk), subset_rows(p)] for kk, p in plates.items()])
                        r = _orig(self, plates=plates, distance_matrix=distance_matrix, samples=samples, rng=rng, progress_bar=progress_bar)
                        rets.append([[int(kk), float(v)] for kk, v in r.items()])
                        return r
                    args = ["calculate_scores", "--scorer", cls.__name__, "--data", os.path.join(d, "screen.h5"),
                            "--thetas", os.path.join(d, "thetas.h5"), "--distance-matrix", os.path.join(d, "dm.h5"),
                            "--n-chunks", str(n), "--chunk-index", str(kidx), "--output", fn]
                    if b:
                        args += ["--batch-plate-ids"] + [str(x) for x in b]
                    with _argv(args), mock.patch.object(cls, "score", rec_score):
                        calculate_scores.main()
                else:
                    if desc["scorer"] == "stub":
                        sc = Stub(table)
                    elif desc["scorer"] == "noisy":
                        sc = _noisy_scorer_class()(desc["table"], pos)
                    elif desc["scorer"] == "dbal":
                        from batchie.scoring.gaussian_dbal import GaussianDBALScorer
                        sc = Wrap(GaussianDBALScorer(max_chunk=desc.get("max_chunk", 50), max_triples=5000))
                    else:
                        sc = Wrap(SizeScorer() if desc["scorer"] == "size" else RandomScorer())
                    h = score_chunk(scorer=sc, thetas=thetas_in, screen=screen, distance_matrix=dm_in,
                                    rng=np.random.default_rng(desc["seed"] + pos), n_chunks=n, chunk_index=kidx,
                                    batch_plate_ids=batch)
                    h.save_h5(fn)
                    calls = sc.calls
                    rets = sc.returned if desc["scorer"] != "stub" else [[[pid, table[pid]] for pid, _ in c] for c in sc.calls]
                    if desc["scorer"] == "dbal" and len(calls) == 1:
                        # the real DBAL scorer on the (overlapping, batch-conditioned) subsets: the score of a candidate is the
                        # scorer's score of exactly the rows it was handed for that candidate, whatever else is in the dict
                        for pid_, v_ in rets[0]:
                            alone = GaussianDBALScorer(max_chunk=50, max_triples=5000).score(
                                plates={pid_: sc.objects[pid_]}, distance_matrix=dm_in, samples=thetas_in,
                                rng=np.random.default_rng(7), progress_bar=False)
                            if not _same_score(list(alone.values())[0], v_):
                                dbal_bad.append((pid_, v_, float(list(alone.values())[0])))
                if len(calls) != 1:
                    raise AssertionError("scorer called %d times for one chunk" % len(calls))
                note(rets[0])
                h2 = ChunkedScoresHolder.load_h5(fn)
                per.append([calls[0], holder_contents(h2)])
                loaded.append(h2)
            # selection
            if cli:
                from batchie.cli import select_next_plate as snp_cli
                out = os.path.join(d, "selected.txt")
                args = ["select_next_plate", "--data", os.path.join(d, "screen.h5"), "--output", out,
                        "--scores"] + [os.path.join(d, "scores_%d.h5" % pos) for pos in range(len(order))]
                if b:
                    args += ["--batch-plate-id"] + [str(x) for x in b]
                ans = {}
                if desc["policy"] == "kper":
                    args += ["--policy", "KPerSamplePlatePolicy", "--policy-param", "k=%d" % desc["k"]]
                    orig_f = KPerSamplePlatePolicy.filter_eligible_plates

                    def rec_f(self, batch_plates, unobserved_plates, rng, _orig=orig_f):
                        res = _orig(self, batch_plates=batch_plates, unobserved_plates=unobserved_plates, rng=rng)
                        ans["answer"] = [int(p.plate_id) for p in res]
                        return res
                    with _argv(args), mock.patch.object(KPerSamplePlatePolicy, "filter_eligible_plates", rec_f):
                        snp_cli.main()
                    polrec = ans.get("answer")
                else:
                    with _argv(args):
                        snp_cli.main()
                txt = open(out).read()
                sel = [] if txt == "-1" else [int(txt)]
                combined = ChunkedScoresHolder.concat(loaded)
            else:
                combined = ChunkedScoresHolder.concat(loaded)
                if desc["policy"] == "none":
                    pol = None
                elif desc["policy"] == "kper":
                    pol = _RecPolicy(inner=KPerSamplePlatePolicy(k=desc["k"]))
                else:
                    pol = _RecPolicy(keep=desc["keep"], rogue=desc.get("rogue"), screen=screen)
                try:
                    p = select_next_plate(scores=combined, screen=screen, policy=pol, batch_plate_ids=batch,
                                          rng=np.random.default_rng(desc["seed"]))
                finally:
                    if pol is not None:
                        polrec = pol.answer
                sel = [] if p is None else [int(p.plate_id)]
            return [per, holder_contents(combined), sel]
        out = impl_call(go)
    finally:
        shutil.rmtree(d, ignore_errors=True)

    has_policy = desc["policy"] != "none"
    policy_raised = has_policy and polrec is None and isinstance(out, ImplError) and "KPerSampleBatcher" in out.msg
    covers = set(order) >= set(range(n)) and all(0 <= x < n for x in order)
    batch_ok = (not b) or any(r[0] in b for r in w)
    cands = ref_candidates(w, b)
    pred = None
    if dbal_bad:
        pred = ("GaussianDBALScorer gave plate %d the score %r inside the chunk's dict, %r on the same rows alone: "
                "the candidate is not scored on the rows it was handed" % dbal_bad[0])
    if isinstance(out, ImplError):
        if out.cls == "AssertionError":
            pred = "scorer not called exactly once per chunk: " + out.msg
        elif covers and batch_ok and not policy_raised and desc["policy"] != "rogue":
            pred = "pipeline raised on valid input: %r" % (out,)
    else:
        per, combined, sel = out
        for (handed, _), kidx in zip(per, order):
            for pid, rows in handed:
                pred = pred or pred_handed(w, b, pid, rows)
        if covers:
            first = {}
            for (handed, _), kidx in zip(per, order):
                first.setdefault(kidx, [pid for pid, _ in handed])
            scored = [pid for kidx in range(n) for pid in first[kidx]]
            if scored != cands:
                pred = pred or "plates scored over all chunk indices %r != unobserved plates not in the batch %r" % (scored, cands)
            if desc["policy"] != "rogue":
                eligible = cands if not has_policy else (polrec or [])
                if has_policy and not set(eligible) <= set(cands):
                    pred = pred or "harness: policy returned non-candidates"
                if not sel:
                    if eligible:
                        pred = pred or "nothing returned although plates %r are allowed" % (eligible,)
                else:
                    s0 = sel[0]
                    if s0 not in cands:
                        pred = pred or "selected plate %d is observed or already in the batch" % s0
                    elif s0 not in eligible:
                        pred = pred or "selected plate %d is not allowed by the policy" % s0
                    elif any(v < min(allvals[s0]) for e in eligible for v in allvals[e]) and not any(v != v for v in allvals[s0]):
                        # every stored score counts: a plate scored again by a repeated chunk (a scorer that is not a function
                        # of the plate) competes with ALL its values; Python float ordering, so -inf is lowest and no
                        # comparison with NaN is true (NaN is outside the quantifier; numpy argmin picks the first NaN)
                        pred = pred or "an allowed plate has a strictly lower score than the selected plate %d" % s0
        if desc["scorer"] == "size":
            for handed, _ in per:
                for pid, rows in handed:
                    if recorded.get(pid) != float(len(rows)):
                        pred = pred or "SizeScorer score is not the number of rows handed"

    vals = [recorded[e] for e in recorded]
    has_nan = any(v != v for l in allvals.values() for v in l)
    feats = ["pipeline", "scorer:" + desc["scorer"], "policy:" + desc["policy"]] + (["cli"] if cli else []) \
        + (["rescored-differently"] if rescored else []) + (["nan-score"] if has_nan else []) \
        + (["+inf"] if any(v == float("inf") for v in vals) else []) \
        + (["two-digit-ids"] if len({r[0] for r in w}) > 10 else []) + (["batch-conditioned-dbal"] if (desc["scorer"] == "dbal" and b) else []) \
        + (["batch"] if b else []) + (["batch-none"] if batch is None else []) + (["covers"] if covers else ["missing-chunk"]) \
        + (["repeat"] if len(order) != len(set(order)) else []) + (["n_chunks>cands"] if n > len(cands) else []) \
        + (["raises"] if isinstance(out, ImplError) else []) + (["policy-raises"] if policy_raised else []) \
        + (["tie"] if len(set(vals)) < len(vals) else []) + (["-inf"] if any(v == float("-inf") for v in vals) else []) \
        + (["partial-observed"] if desc["screen"].get("partial") else []) \
        + (["none-selected"] if (not isinstance(out, ImplError) and not out[2]) else []) \
        + (["unknown-batch-id"] if any(x not in {r[0] for r in w} for x in b) else []) \
        + (["trivial"] if len({r[0] for r in w}) < 2 else [])
    if policy_raised:
        # the policy object itself refused (a plate with two samples): outside the model, which takes the policy's answer as data
        return dict(wire=None, impl=out, pred=pred, features=feats)
    if has_nan or rescored:
        # outside the model's scorer type (a function plate -> order key): no whole-pipeline correspondence; the combination
        # and selection are still compared exactly, as a holder script (driver op 2: concat of the loaded files, argmin over
        # the allowed ids) whenever a plate was selected and no NaN is involved
        if has_nan or isinstance(out, ImplError) or not out[2] or desc["policy"] == "rogue":
            return dict(wire=None, impl=out if isinstance(out, ImplError) else None, pred=pred, features=feats)
        eligible = ref_candidates(w, b) if not has_policy else (polrec or [])
        hw = [[hc[0], hc[1]] for _, hc in out[0]]
        return dict(wire=[2, 1, hw, [], [sorted(eligible)]], impl=out[2][0], pred=pred, features=feats + ["as-holder-script"], cmp=cmp_result())
    tbl = [[pid, float_key(v)] for pid, v in sorted(recorded.items())]
    if desc["scorer"] == "stub":
        # a NaN entry can only belong to a plate no call scored here (a scored NaN took the branch above): its value is never read
        tbl = [[pid, float_key(table[pid]) if table[pid] == table[pid] else 0] for pid in sorted({r[0] for r in w})]
    polw = None if not has_policy else [polrec if polrec is not None else []]
    if has_policy and polrec is None and not isinstance(out, ImplError):
        polw = [[]]

    def cmp(m, i):
        if isinstance(m, str):
            return "model driver failure: " + m
        tr, pl = m
        r = cmp_result()(tr, i)
        if r:
            return r
        if common.is_ok(tr) and not (common.is_ok(pl) and pl[1] == tr[1][2]):
            return "Model.Scores.pipeline disagrees with the traced pipeline: %r" % (pl,)
        if common.is_err(tr) and not common.is_err(pl):
            return "Model.Scores.pipeline returned a value where the trace fails"
        return None
    return dict(wire=[1, w, b, n, order, tbl, polw], impl=out, pred=pred, features=feats, cmp=cmp)


def gen_pipeline2(rng, tier):
    """gap review G6.1 / G6.2 / G5.5 / G6.4: the real GaussianDBALScorer in the pipeline (batch-conditioned, overlapping subsets);
    scorers that are not a function of the plate with a repeated chunk; +inf / huge / 1-ulp-apart / NaN stub scores; many
    equal-sized plates with two-digit ids and many chunks"""
    big = tier != "quick"

    def base(scorer, sd, npl, pol=None, modes=("identity", "perm", "perm", "repeat"), nmax=10, **kw):
        pol = pol or rng.choice(["none", "none", "kper", "stubpol"])
        batch = gen_batch(rng, sd, npl)
        est = len([p for p in range(npl) if p not in sd["observed"] and p not in (batch or [])])
        n = min(nmax, max(1, rng.choice([1, 2, 3, est - 1, est, est + 1, est + 3])))
        d = dict(kind="pipeline", screen=sd, batch=batch, n=n, order=gen_order(rng, n, rng.choice(modes)), scorer=scorer,
                 table=[rng.choice(SCORES) for _ in range(9)], policy=pol, cli=False, seed=rng.randrange(10 ** 6), **kw)
        if pol == "kper":
            d["k"] = rng.choice([1, 2, 3])
        if pol == "stubpol":
            d["keep"] = [p for p in range(64) if rng.random() < rng.choice([0.3, 0.7, 1.0])]
        return d

    def small_screen(pol):
        while True:
            sd, npl = gen_screen(rng, single_sample=(pol == "kper"), max_plates=6)
            if sd["arity"] <= 2:
                return sd, npl

    for _ in range(36 if not big else 400):
        pol = rng.choice(["none", "none", "kper", "stubpol"])
        sd, npl = small_screen(pol)
        d = base("dbal", sd, npl, pol=pol, T=rng.choice([3, 4, 4, 5]), max_chunk=rng.choice([1, 2, 50]),
                 dist=rng.choice(["mixed", "mixed", "mixed", "zero"]))
        if d["batch"] is None or not any(0 <= x < npl for x in d["batch"]):
            if npl >= 2 and rng.random() < 0.7:          # most DBAL cases carry a batch: that is where subsets overlap
                d["batch"] = rng.sample(range(npl), rng.randint(1, min(2, npl - 1)))
        yield d
    for _ in range(36 if not big else 400):
        pol = rng.choice(["none", "none", "kper", "stubpol"])
        sd, npl = gen_screen(rng, single_sample=(pol == "kper"))
        yield base(rng.choice(["noisy", "noisy", "random"]), sd, npl, pol=pol, modes=("repeat", "repeat", "repeat", "perm"))
    for _ in range(30 if not big else 300):
        pol = rng.choice(["none", "none", "kper", "stubpol"])
        sd, npl = gen_screen(rng, single_sample=(pol == "kper"))
        pool = rng.sample(XSCORES, rng.choice([2, 3, 5, len(XSCORES)])) + (["nan"] if rng.random() < 0.25 else [])
        yield base("stub", sd, npl, pol=pol, xtable=[rng.choice(pool) for _ in range(11)])
    # many plates of ONE common size (the production shape; np.array_split goes through np.array(list of Plate)), ids of two digits
    for _ in range(10 if not big else 80):
        npl = rng.choice([12, 16, 24, 33, 40])
        size = rng.choice([1, 2, 2, 3])
        arity = rng.choice([1, 2])
        nsamp = rng.choice([1, 2, 3])
        rows = []
        for p_ in range(npl):
            sm = rng.randrange(nsamp)
            for _k in range(size):
                rows.append([p_, sm, [[rng.randrange(4), rng.choice([0, 1, 1, 2])] for _ in range(arity)]])
        if rng.random() < 0.5:
            rng.shuffle(rows)
        observed = [p_ for p_ in range(npl) if rng.random() < 0.2]
        sd = dict(rows=rows, arity=arity, observed=observed, pad=3)
        d = base(rng.choice(["stub", "stub", "size", "noisy"]), sd, npl, pol=rng.choice(["none", "kper", "stubpol"]), nmax=45)
        unobs = [p_ for p_ in range(npl) if p_ not in observed]
        d["batch"] = rng.choice([None, [], rng.sample(unobs, min(len(unobs), 3)), rng.sample(range(10, npl), 2)])
        est = len([p_ for p_ in unobs if p_ not in (d["batch"] or [])])
        d["n"] = max(1, rng.choice([1, 3, 7, 11, est, est + 2]))
        d["order"] = gen_order(rng, d["n"], rng.choice(["identity", "perm", "perm", "repeat"]))
        yield d


def run_selcli(desc):
    """select_next_plate.main() on hand-written chunk files with extreme scores (see gen_selcli)"""
    from batchie.cli import select_next_plate as snp_cli
    from batchie.data import Screen
    from batchie.policies.k_per_sample import KPerSamplePlatePolicy
    from batchie.scoring.main import ChunkedScoresHolder

    screen = build_screen(desc["screen"])
    batch = desc["batch"]
    b = batch or []
    files = [[[int(pid), float(txt)] for pid, txt in f] for f in desc["files"]]
    d = _tmpdir()
    ans = {}
    try:
        screen.save_h5(os.path.join(d, "screen.h5"))
        screen = Screen.load_h5(os.path.join(d, "screen.h5"))
        w = screen_wire(screen)

        def go():
            names = []
            for pos, f in enumerate(files):
                h = ChunkedScoresHolder(len(f))
                for pid, v in f:
                    h.add_score(pid, v)
                names.append(os.path.join(d, "scores_%d.h5" % pos))
                h.save_h5(names[-1])
            out = os.path.join(d, "selected.txt")
            args = ["select_next_plate", "--data", os.path.join(d, "screen.h5"), "--output", out, "--scores"] + names
            if b:
                args += ["--batch-plate-id"] + [str(x) for x in b]
            if desc["policy"] == "kper":
                args += ["--policy", "KPerSamplePlatePolicy", "--policy-param", "k=%d" % desc["k"]]
            orig_f = KPerSamplePlatePolicy.filter_eligible_plates

            def rec_f(self, batch_plates, unobserved_plates, rng, _orig=orig_f):
                res = _orig(self, batch_plates=batch_plates, unobserved_plates=unobserved_plates, rng=rng)
                ans["answer"] = [int(p.plate_id) for p in res]
                return res
            with _argv(args), mock.patch.object(KPerSamplePlatePolicy, "filter_eligible_plates", rec_f):
                snp_cli.main()
            txt = open(out).read()
            return [] if txt == "-1" else [int(txt)]
        out = impl_call(go)
    finally:
        shutil.rmtree(d, ignore_errors=True)
    has_policy = desc["policy"] == "kper"
    polrec = ans.get("answer")
    policy_raised = has_policy and polrec is None and isinstance(out, ImplError) and "KPerSampleBatcher" in out.msg
    cands = ref_candidates(w, b)
    score = {}
    for f in files:
        for pid, v in f:
            score.setdefault(pid, []).append(v)
    has_nan = any(v != v for l in score.values() for v in l)
    pred = None
    eligible = cands if not has_policy else (polrec or [])
    if isinstance(out, ImplError):
        if not policy_raised:
            pred = "select_next_plate command failed on valid chunk files: %r" % (out,)
    elif not out:
        if eligible:
            pred = "-1 written although plates %r are allowed" % (eligible,)
        elif has_policy and polrec is None and cands:
            pred = "-1 written without consulting the policy although plates %r are unobserved and outside the batch" % (cands,)
    else:
        s0 = out[0]
        if s0 not in cands:
            pred = "selected plate %d is observed or already in the batch" % s0
        elif s0 not in eligible:
            pred = "selected plate %d is not allowed by the policy" % s0
        elif not any(v != v for v in score[s0]) and any(v < min(score[s0]) for e in eligible for v in score[e]):
            # Python float ordering: -inf is the lowest score, +inf the highest, no comparison with NaN is true
            pred = "an allowed plate has a strictly lower score than the selected plate %d" % s0
    allv = [v for l in score.values() for v in l]
    feats = ["selcli", "policy:" + desc["policy"]] + (["batch"] if b else []) + (["nan-score"] if has_nan else []) \
        + (["-inf"] if float("-inf") in allv else []) + (["+inf"] if float("inf") in allv else []) \
        + (["all--inf"] if allv and all(v == float("-inf") for v in allv) else []) \
        + (["empty-chunk-file"] if any(not f for f in files) else []) + (["policy-raises"] if policy_raised else []) \
        + (["none-selected"] if out == [] else []) + (["tie"] if len(set(allv)) < len(allv) else []) \
        + (["trivial"] if len({r[0] for r in w}) < 2 else [])
    if has_nan and not isinstance(out, ImplError) and out and eligible:
        # what the unchanged tree does with NaN (outside the quantifier; documented, not judged): numpy argmin over the allowed
        # slots returns the first NaN slot, so an allowed plate with a NaN score wins over every number
        nan_allowed = [pid for f in files for pid, v in f if v != v and pid in eligible]
        feats.append("nan-wins" if (nan_allowed and out[0] == nan_allowed[0]) else ("nan-not-allowed" if not nan_allowed else "nan-loses"))
    if has_nan or isinstance(out, ImplError) or not out or policy_raised:
        return dict(wire=None, impl=None, pred=pred, features=feats)
    # exact comparison with the model: concat of the files in command-line order, first minimal slot among the allowed ids
    hw = [[len(f), [[pid, float_key(v)] for pid, v in f]] for f in files]
    return dict(wire=[2, 1, hw, [], [sorted(eligible)]], impl=out[0], pred=pred, features=feats, cmp=cmp_result())


def shrink(desc):
    if desc.get("kind") == "cli_args":
        return
    k = desc["kind"]
    if k == "selcli":
        fs = desc["files"]
        for i in range(len(fs)):
            if len(fs) > 1 and not fs[i]:
                yield dict(desc, files=fs[:i] + fs[i + 1:])
        return
    if k in ("pipeline", "chunk"):
        sd = desc["screen"]
        rows = sd["rows"]
        for i in range(len(rows)):
            part = [j - (j > i) for j in (sd.get("partial") or []) if j != i]
            yield dict(desc, screen=dict(sd, rows=rows[:i] + rows[i + 1:], partial=part))
        if desc.get("batch"):
            for i in range(len(desc["batch"])):
                yield dict(desc, batch=desc["batch"][:i] + desc["batch"][i + 1:])
    if k == "pipeline":
        o = desc["order"]
        for i in range(len(o)):
            yield dict(desc, order=o[:i] + o[i + 1:])
        if desc["n"] > 1 and all(x < desc["n"] - 1 for x in o):
            yield dict(desc, n=desc["n"] - 1)
    if k == "holder":
        hs = desc["holders"]
        for i in range(len(hs)):
            if len(hs) > 1:
                yield dict(desc, holders=hs[:i] + hs[i + 1:])
            if hs[i][1]:
                yield dict(desc, holders=hs[:i] + [[hs[i][0], hs[i][1][:-1]]] + hs[i + 1:])


def signature(desc, res):
    return "%s:%s" % (desc.get("kind"), (res.get("pred") or "")[:60])
