"""C01 — Screen identifiers are a faithful, dense encoding of names and doses."""
import numpy as np

import common
import screenlib as sl
from common import ImplError, cmp_result, float_key, impl_call

ID = "C01"
LEVEL = "proof"
RULE = ("kinds: ctor (random rows, arity 1-3, names incl. '' / non-ASCII / the control name in any column, doses incl. "
        "negative, -0.0, 0, subnormal, repeated; observations/mask given or not), reuse (construct a superset screen, then "
        "construct a random sub-list of its rows with the superset's own mappings), corrupt (supplied mapping with a gap, "
        "a missing key, a non-integer dtype, shifted ids), valid_ids (numpy_array_is_0_indexed_integers on random id arrays), "
        "space (an ExperimentSpace built directly from random mapping arrays - repeated names / ids, names that are absent, the control "
        "name, dose 0.0 / -0.0 - and asked all six query methods), space_of_screen (the same queries on from_screen of a constructed screen). "
        "Non-trivial: at least 2 rows; distinct by canonical description.  Big screens (16 quick / 192 thorough, kinds ctor and reuse): 11-40 distinct "
        "sample names, 11-40 plate names, 8-40 treatment names drawn as random unicode strings (blanks inside and at either end, digit-only names, "
        "combining marks, astral code points, case pairs; up to 40 characters, thorough 120), up to 200 rows (thorough 400), 2-18 distinct doses: ids reach "
        "two digits.  In kind reuse the SUPERSET screen is judged by the predicate too, and on the sub-screen (mapping supplied, batchie-made, same control "
        "name) the sentinel-iff-control clause and the decode direction of the mapping (one id per key, a non-control id names one key, one id per "
        "sample name) are evaluated as well.")
THEOREMS = {
    "C01_sentinel_from_source": "the model's sentinel is the CONTROL_SENTINEL_VALUE read from /repo on this run",
    "C01_decode_treatments": "stored treatment ids = mapping lookup of each experiment's (name, dose); that pair is a mapping row",
    "C01_decode_samples": "same for sample ids", "C01_decode_plates": "same for plate ids",
    "C01_control_iff": "sentinel iff name = control name or dose <= 0 (no supplied mapping)",
    "C01_treatment_ids_dense": "non-control ids in use are exactly 0..space size-1",
    "C01_treatment_ids_injective": "equal non-control ids iff equal (name, dose)",
    "C01_sample_ids_dense": "sample ids in use are exactly 0..n_unique_samples-1", "C01_sample_ids_injective": "equal iff same name",
    "C01_plate_ids_dense": "plate ids are exactly 0..#plates-1", "C01_plate_ids_injective": "equal iff same name",
    "C01_supplied_verbatim": "a supplied treatment mapping becomes the screen's mapping unchanged (and is dense)",
    "C01_supplied_samples_verbatim": "same for sample mapping",
    "C01_supplied_not_dense_rejected": "non-dense / non-integer supplied mapping => Err",
    "C01_supplied_uncovered_rejected": "supplied mapping missing a key of the data => never Ok",
    "C01_zero_indexed_spec": "numpy_array_is_0_indexed_integers characterised",
    "C01_superset_stable": "a screen's own mappings are accepted back unchanged on any rows they cover",
    "C01_treatment_ids_bounded": "every treatment id < ExperimentSpace.n_unique_treatments",
    "C01_sample_ids_bounded": "every sample id < n_unique_samples", "C01_sample_ids_bounded_supplied": "same with a key-unique supplied mapping",
    "C01_control_test_from_source": "is_control = (round-1 constant: the comparison operator of dose_is_zero read from the source) || name == control name",
    "C01_model_is_source_numpy_array_is_0_indexed_integers": "the translation of the WHOLE function numpy_array_is_0_indexed_integers (dtype test, "
        "sentinel membership, the two comparisons against arange), regenerated from the source on every run, equals Ok (zero_indexed isint ids) for "
        "every id array",
    "C01_model_is_source_encode_treatment_arrays": "the translation of the WHOLE function encode_treatment_arrays_to_0_indexed_ids (the pandas "
        "pipeline, one primitive per call) equals, for all arguments: Err 15 when the arrays / the supplied mapping's arrays differ in length "
        "(pandas' ValueError), else encode_treatments on the zipped keys, returning (ids all non-NaN, the mapping's three columns); hypothesis: a "
        "supplied mapping is key-unique",
    "C01_model_is_source_assign": "the else branch of that function (drop_duplicates, sort_values by name then dose, reset_index, dose <= 0, name == "
        "control, |, cumsum, index - cumsum, sentinel override by label AFTER the subtraction, the two dels) builds exactly build_tmapping",
    "C01_model_is_source_dose_test_consistent": "the round-1 constant src_dose_is_control is the comparison the translation applies to the dose "
        "column (redundant now, consistent)",
    "C01_model_is_source_encode_1d_array": "the translation of the WHOLE function encode_1d_array_to_0_indexed_ids equals encode_names (tag 6) for all "
        "arguments; hypothesis: a supplied mapping is key-unique",
    "C01_model_is_source_init_control_name": "the translated first statement of Screen.__init__ stores the parameter control_treatment_name",
    "C01_model_is_source_init_ids": "the translated id-encoding statements of Screen.__init__ (column-major flatten for any arity, validation of "
        "both supplied mappings, the three encoder calls with their existing_mapping arguments, split / vstack / T, the six stores), run on the "
        "arrays of a constructor call, equal the id part of mk_screen read back by stored_ids, after mk_screen's arity and per-plate checks; "
        "hypotheses: arity > 0, supplied mappings key-unique",
    "C01_model_is_source_n_unique_samples": "the translated property ExperimentSpace.n_unique_samples on the sample-mapping tuple a constructed "
        "screen stores = space_n_samples",
    "C01_model_is_source_n_unique_treatments": "the translated property ExperimentSpace.n_unique_treatments (np.unique of np.setdiff1d(ids, "
        "[sentinel])) on the stored treatment-mapping tuple = space_n_treatments",
    "C01_model_is_source_space_init": "the translated ExperimentSpace.__init__ stores exactly its three arguments (treatment-mapping tuple, "
        "sample-mapping tuple, control name), whatever the instance held before",
    "C01_model_is_source_space_init_arrays": "the constructor-call primitive arrays_space of the from_screen / load_h5 links (C02) agrees with "
        "the translated __init__: when it answers a model space, __init__ on a fresh instance builds that space's object",
    "C01_model_is_source_n_unique_treatment_types": "translated property = number of distinct treatment names other than the control name",
    "C01_model_is_source_n_unique_doses": "translated property = number of distinct doses other than 0.0",
    "C01_model_is_source_doses_for_treatment": "translated method = the distinct non-zero doses of the mapping rows of that name, ascending",
    "C01_model_is_source_treatment_ids_from_treatment_name": "translated method = the distinct ids of the mapping rows of that name, ascending",
    "C01_model_is_source_sample_id_from_sample_name": "translated method = the id of the ONLY sample-mapping row with that name; no row or "
        "several rows: .item() raises (Err 36)",
    "C01_model_is_source_sample_name_from_sample_id": "translated method = the name of the ONLY sample-mapping row with that id, else Err 36",
    "C01_space_sample_lookups_inverse": "on the space from_screen builds for a constructed screen the two TRANSLATED lookups are mutually "
        "inverse: id_of(name) = Ok i iff name_of(i) = Ok name (a supplied sample mapping must not repeat a name or an id)",
    "C01_space_sample_id_of_row": "there, every sample name of the screen has an id: the one its experiments carry",
    "C01_space_sample_id_bounded": "there (mapping built by the constructor) an id the translated lookup returns satisfies 0 <= id < n_unique_samples",
    "C01_space_treatment_ids_bounded": "every id treatment_ids_from_treatment_name returns is the sentinel or lies in 0..n_unique_treatments-1",
    "C01_space_doses_for_treatment_spec": "d is returned by doses_for_treatment(name) iff d != 0 and (name, d) is a key of the treatment mapping",
    "C01_model_is_source_init": "mk_screen (for whatever the call passes) = refuse ragged rows; the two translated observation-mask runs of "
        "Screen.__init__ (C12 link); then the translated id run on the rows they leave - the constructor model tied to the source statement "
        "by statement; same hypotheses",
}
THEOREMS.update({
    "C01_mapping_keys_are_row_keys": "decode direction: the mapping a screen builds lists exactly the (name, dose) pairs of its rows, each once",
    "C01_mapping_decodes": "decode direction: an id of the built mapping is the sentinel exactly on controls, a non-control id belongs to exactly one (name, dose), "
                           "and looking a (name, dose) up returns the id stored with it",
    "C01_sample_mapping_decodes": "the built sample mapping lists exactly the rows' sample names, each once, and no two names share an id",
    "C01_control_iff_supplied": "a screen constructed WITH the treatment mapping batchie built for another screen (same control name; any rows, arity, flags): "
                                "sentinel iff control name or dose <= 0 on every key of its rows (construction succeeding implies coverage)",
    "C01_treatment_ids_injective_supplied": "on such a screen equal non-control ids iff equal (name, dose)",
    "C01_ids_of_superset_supplied": "its ids are the superset screen's ids of the same (name, dose), below the superset's space size, which is its own space size too",
    "C01_sample_ids_injective_supplied": "a screen constructed with the sample mapping batchie built for another screen: equal sample ids iff equal sample names",
})
ASSUMPTIONS = [
    "doses cross the wire as order keys (common.float_key): an order isomorphism on finite doubles identifying -0.0 and 0.0, "
    "as pandas drop_duplicates/merge do; NaN doses are outside the quantifier",
    "names are compared by code point (Python str order, pandas object sort, numpy '<U' sort); names containing NUL are not generated",
    "pandas drop_duplicates/sort_values/merge(how=left) are modelled by their documented effect; supplied mappings are key-unique",
]
EXPLANATION = ("Model: Model/Encode.v + Model/Screen.v (mk_screen). Compared exactly: treatment_ids, sample_ids, plate_ids, the three "
               "mappings in stored order, ExperimentSpace sizes, or error-ness.  "
               "SOURCE LINK (C01_model_is_source_*): numpy_array_is_0_indexed_integers, encode_treatment_arrays_to_0_indexed_ids, "
               "encode_1d_array_to_0_indexed_ids (whole functions) two statement runs of Screen.__init__ (the first statement; the id-encoding "
               "statements from `treatment_arity = ...` to `self._plate_mapping = ...`) and the properties ExperimentSpace.n_unique_samples / "
               "n_unique_treatments are re-translated from the source on every run by "
               "harness/py2gal.py (configurations C01_* in harness/src_functions.py, output coq/theories/Generated/SrcEncode.v and SrcScreenIds.v) "
               "and proved equal to the model for all inputs (Proofs/C01Source.v, C01SourceInit.v).  Hypotheses of the links: a supplied mapping is "
               "key-unique (every mapping batchie builds is; with a repeated key pandas' merge duplicates rows where the model takes the first "
               "match), and for the constructor run arity > 0 (for treatment arrays of shape (n, 0) numpy's concatenate raises where the model "
               "builds a screen without treatments: the model is more permissive there, the harness generates arity 1-3).  "
               "The link TRUSTS the translator and exactly these primitives (meanings: end of Model/Encode.v and Model/Screen.v), ONE numpy / "
               "pandas call each.  numpy (a 1-d array = the list of its values; an id array also carries 'integer dtype'): "
               "np.issubdtype(a.dtype, int); `x in a`; np.unique(a) (sorted distinct values); np.sort; a.shape[0]; np.arange(n); np.array(list); "
               "np.concatenate([a, b]) and np.concatenate(list) (ValueError for no array); a == b (elementwise, equal shapes); np.all; "
               "the constant CONTROL_SENTINEL_VALUE (read from common.py); a.shape[1] and a[:, i] of a 2-d array = (shape[1], rows) (IndexError "
               "outside the columns); tuple projections m[0], m[1], m[2], m[-1], x[0], x[1]; np.split(a, n) (n equal parts, else ValueError); "
               "np.vstack (the arrays become rows, ValueError for none / unequal lengths); a.T; np.setdiff1d(a, b) (sorted distinct values of a not in "
               "b); a.size.  pandas (a DataFrame = the list of its rows in "
               "order, each with its index label, typed by its column set; a Series = the list of its values, Series operators and column "
               "assignment positional): `with pandas.option_context('mode.copy_on_write', True)` changes no value; pandas.DataFrame({...}) from "
               "two / three / one arrays (fresh RangeIndex; ValueError when lengths differ); drop_duplicates() (keep the first of equal rows, "
               "labels kept); sort_values(by=['name', 'dose']) / (by='val') (ascending by those keys; name order = code points, doses = order "
               "keys); reset_index(drop=True) (relabel 0..n-1); reset_index(drop=False) (old labels become column 'index'); d['dose'], d['name'], "
               "d.is_control, d.index, d.new_index, d.name, d.dose, d.val (column reads); s <= 0 (the ONE float comparison: dose <= 0 iff key <= 0); "
               "s == control_treatment_name; a | b; s.cumsum() on booleans (inclusive running count); Index - Series; Index[boolean Series]; "
               "d['is_control'] = s and d['new_index'] = s (append a column); d.loc[labels, 'new_index'] = v (rows whose LABEL is in labels); "
               "del d['index'], del d['is_control']; rename(columns={'index': 'new_index'}); l.merge(r, on=keys, how='left') (for each row of l in "
               "order one row per matching row of r, or one row with NaN); s.notna(); s.values / s.to_numpy() (the column's values).  Everything "
               "else - which column is compared with what, that the override follows the subtraction, that a supplied mapping replaces the whole "
               "computed table, that a failed merge raises, the loop over range(arity), which existing_mapping each encoder call receives, the "
               "validation raises - is read from the source by the translation.  The three callee names inside Screen.__init__ run their own "
               "translations.  Statements of Screen.__init__ outside the translated runs (shape / dtype checks of the other arrays, the plain "
               "attribute stores at the end) are not covered.  "
               "EXPERIMENTSPACE (configurations LS_SPACE_* in harness/src_functions.py, output Generated/SrcSpaceMethods.v, proofs "
               "Proofs/C01Source_Space{Init,Counts,ByName,SampleLookup}.v, models: last part of Model/Persist.v): __init__, n_unique_treatment_types, "
               "n_unique_doses, doses_for_treatment, treatment_ids_from_treatment_name, sample_id_from_sample_name, sample_name_from_sample_id are "
               "translated whole; the object is pyspace = its three attributes as stored (typed fields: self.treatment_mapping / .sample_mapping / "
               ".control_treatment_name read and stored as the components of the triple).  Primitives trusted there, ONE call each: the tuple "
               "projections m[0], m[1], m[2]; np.array([x]) (the same values); a == v elementwise on a str / int array; a[mask] (the elements where "
               "the mask is True, IndexError = tag 35 unless the lengths agree); a.item() (the only element of an array of size 1, else ValueError = "
               "tag 36); np.unique (sorted distinct values); np.sort; a.size; np.setdiff1d(a, b) (sorted distinct values of a not in b); the float "
               "literal 0.0 as the dose key 0.  Which column is compared with the argument, which column the mask selects from, that the control "
               "name / 0.0 is removed before counting, and the order of the calls are read from the source.")


def _pred_screen(d, s, batchie_made=False):
    """the property's clauses evaluated on a real Screen built from description d; batchie_made: the supplied mappings are the
    ones batchie itself built for a superset of the data under the same control name (the sentinel clause and the decode
    direction of the MAPPING then hold as for a built mapping; density of the ids in use does not: the sub-screen may use a part)"""
    from batchie.data import ExperimentSpace

    ctrl = d["ctrl"]
    tn, td = s.treatment_names, s.treatment_doses
    tids = np.asarray(s.treatment_ids).reshape(s.size, tn.shape[1])
    mn, md, mi = s.treatment_mapping
    mp = {}
    for n_, d_, i_ in zip(mn, md, mi):
        mp.setdefault((str(n_), float_key(d_)), []).append(int(i_))
    supplied = d.get("tmap") is not None
    key_of_id = {}
    for i in range(s.size):
        for j in range(tn.shape[1]):
            k = (str(tn[i, j]), float_key(td[i, j]))
            tid = int(tids[i, j])
            if tid not in mp.get(k, []):
                return "row %d col %d: id %d does not decode to its (name, dose) through the mapping" % (i, j, tid)
            isctrl = (k[0] == ctrl) or (td[i, j] <= 0)
            if (not supplied or batchie_made) and (tid == -1) != isctrl:
                return "row %d col %d: sentinel iff control violated (id %d, name %r, dose %r)" % (i, j, tid, k[0], float(td[i, j]))
            if tid != -1:
                if key_of_id.setdefault(tid, k) != k:
                    return "treatment id %d used for two different (name, dose)" % tid
    if not supplied:
        nonctrl = sorted(set(int(x) for x in mi if x != -1))
        if nonctrl != list(range(len(nonctrl))):
            return "non-control treatment ids of the mapping are not dense 0..m-1: %r" % (nonctrl,)
        used = sorted(set(int(x) for x in tids.flatten() if x != -1))
        if used != nonctrl:
            return "mapping built from the data lists ids that no row uses"
        ids_by_key = {}
        for k, v in mp.items():
            if len(v) != 1:
                return "duplicate key in built mapping"
            ids_by_key[k] = v[0]
        inv = {}
        for k, v in ids_by_key.items():
            if v != -1 and inv.setdefault(v, k) != k:
                return "two keys share non-control id %d" % v
    if supplied and batchie_made:
        # decode direction of a batchie-made mapping: one id per key, sentinel exactly on controls, a non-control id names one key
        inv = {}
        for (n_, dk), v in mp.items():
            if len(v) != 1:
                return "duplicate key in the batchie-made supplied mapping"
            if (v[0] == -1) != ((n_ == ctrl) or dk <= 0):
                return "supplied batchie-made mapping: sentinel iff control violated for (%r, dose key %d): id %d" % (n_, dk, v[0])
            if v[0] != -1 and inv.setdefault(v[0], (n_, dk)) != (n_, dk):
                return "supplied batchie-made mapping: two keys share non-control id %d" % v[0]
        sm_ = {}
        for n_, i_ in zip(s.sample_mapping[0], s.sample_mapping[1]):
            if sm_.setdefault(int(i_), str(n_)) != str(n_):
                return "supplied batchie-made sample mapping: two names share id %d" % int(i_)
        if len({(str(n_), int(i_)) for n_, i_ in zip(s.sample_names, s.sample_ids)}) != len({str(n_) for n_ in s.sample_names}):
            return "sample ids of the sub-screen are not one per name"
    for nm, ids, names, mapping, what in [("sample", s.sample_ids, s.sample_names, s.sample_mapping, d.get("smap")),
                                          ("plate", s.plate_ids, s.plate_names, s.plate_mapping, None)]:
        mm = {str(n_): int(i_) for n_, i_ in zip(mapping[0], mapping[1])}
        for i in range(s.size):
            if mm.get(str(names[i])) != int(ids[i]):
                return "%s id of row %d does not decode to its name" % (nm, i)
        if what is None:
            u = sorted(set(int(x) for x in ids))
            if u != list(range(len(u))):
                return "%s ids not dense" % nm
            if len(set(zip([str(x) for x in names], [int(x) for x in ids]))) != len(u):
                return "%s ids not injective" % nm
    sp = ExperimentSpace.from_screen(s)
    if s.size and tids.size and int(tids.max()) >= sp.n_unique_treatments and int(tids.max()) != -1:
        return "treatment id %d not below experiment-space size %d" % (int(tids.max()), sp.n_unique_treatments)
    if s.size and int(np.max(s.sample_ids)) >= sp.n_unique_samples:
        return "sample id not below experiment-space size"
    return None


def gen(rng, tier):
    N = 1 if tier == "quick" else 12
    for _ in range(220 * N):
        ctrl = rng.choice(sl.CTRLS)
        rows, a = sl.gen_rows(rng, ctrl=ctrl)
        og = rng.random() < 0.8
        mg = og and rng.random() < 0.7
        yield dict(kind="ctor", rows=rows, arity=a, ctrl=ctrl, obs_given=og, mask_given=mg, tmap=None, smap=None)
    for _ in range(30 * N):  # mixed plates / mask without observations
        ctrl = rng.choice(sl.CTRLS)
        rows, a = sl.gen_rows(rng, ctrl=ctrl, uniform_plates=False)
        og = rng.random() < 0.8
        yield dict(kind="ctor", rows=rows, arity=a, ctrl=ctrl, obs_given=og, mask_given=rng.random() < 0.8, tmap=None, smap=None)
    for _ in range(150 * N):
        ctrl = rng.choice(sl.CTRLS)
        rows, a = sl.gen_rows(rng, n=rng.choice([2, 3, 4, 6, 8, 10, 12]), ctrl=ctrl)
        sel = [rng.random() < 0.6 for _ in rows]
        yield dict(kind="reuse", rows=rows, arity=a, ctrl=ctrl, obs_given=True, mask_given=True, tmap=None, smap=None, sel=sel)
    for i in range(16 * N):      # big screens: many samples / plates / treatments, long random unicode names (gap review g1, C01 gaps 5, 6)
        rows, a, ctrl = _big_case(rng, tier)
        if i % 2 == 0:
            yield dict(kind="ctor", rows=rows, arity=a, ctrl=ctrl, obs_given=True, mask_given=True, tmap=None, smap=None)
        else:
            yield dict(kind="reuse", rows=rows, arity=a, ctrl=ctrl, obs_given=True, mask_given=True, tmap=None, smap=None,
                       sel=[rng.random() < 0.5 for _ in rows])
    for _ in range(24 * N):     # treatment names that differ from the control name only in letter case / by a blank: NOT controls
        ctrl = rng.choice(["DMSO", "control", "Ctrl", "\u00c9talon"])
        near = [ctrl.lower(), ctrl.upper(), ctrl.capitalize(), ctrl.swapcase(), ctrl + " ", " " + ctrl]
        names = [x for x in dict.fromkeys(near) if x != ctrl][:rng.randint(1, 4)] + rng.sample(sl.NAMES, 2) + [ctrl]
        rows, a = sl.gen_rows(rng, n=rng.choice([3, 4, 6, 8, 10]), names=names, ctrl=ctrl)
        yield dict(kind="ctor", rows=rows, arity=a, ctrl=ctrl, obs_given=True, mask_given=True, tmap=None, smap=None)
    for _ in range(100 * N):
        ctrl = rng.choice(sl.CTRLS)
        rows, a = sl.gen_rows(rng, n=rng.choice([2, 3, 4, 6, 8]), ctrl=ctrl)
        yield dict(kind="corrupt", rows=rows, arity=a, ctrl=ctrl, obs_given=True, mask_given=True, tmap=None, smap=None,
                   how=rng.choice(["gap", "missing", "nonint", "shift", "missing_sample", "sample_gap", "sample_nonint", "none"]),
                   pick=rng.random())
    for _ in range(60 * N):
        m = rng.randint(0, 7)
        ids = [rng.choice([-1, 0, 1, 2, 3, 4, 5, -2]) for _ in range(m)]
        if rng.random() < 0.5:
            u = rng.randint(0, 5)
            ids = list(range(u)) + [rng.randrange(u) for _ in range(rng.randint(0, 3) if u else 0)] + ([-1] if rng.random() < 0.5 else [])
            rng.shuffle(ids)
        yield dict(kind="valid_ids", ids=ids, isint=rng.random() < 0.85)
    for _ in range(80 * N):
        tm = [[rng.choice(sl.NAMES[:6]), rng.choice(sl.DOSES), rng.choice([-1, 0, 1, 2, 3])] for _ in range(rng.choice([0, 1, 2, 3, 5, 8]))]
        sm = [[rng.choice(sl.NAMES[:5]), rng.choice([0, 1, 2, 3])] for _ in range(rng.choice([0, 1, 2, 3, 4, 6]))]
        if rng.random() < 0.5:      # a proper sample mapping: distinct names, ids 0..n-1
            names = rng.sample(sl.NAMES, rng.randint(0, 5))
            sm = [[n, i] for i, n in enumerate(sorted(names))]
        yield dict(kind="space", tmap=tm, smap=sm, ctrl=rng.choice(sl.CTRLS), tname=rng.choice(sl.NAMES[:6]), sname=rng.choice(sl.NAMES[:6]),
                   sid=rng.choice([-1, 0, 1, 2, 3, 4]))
    for _ in range(60 * N):
        ctrl = rng.choice(sl.CTRLS)
        rows, a = sl.gen_rows(rng, n=rng.choice([1, 2, 3, 4, 6, 8, 10]), ctrl=ctrl)
        yield dict(kind="space_of_screen", rows=rows, arity=a, ctrl=ctrl, obs_given=True, mask_given=True, tmap=None, smap=None,
                   tname=rng.choice(sl.NAMES[:6] + [ctrl]), sname=rng.choice(sl.NAMES), sid=rng.choice([-1, 0, 1, 2, 3, 4]))


_ALPHABET = list("abcXYZ0192 _-.,;/") + ["é", "ß", "á", "日", "本", "𝛼", "β", "\u0301", "\u00a0", "İ", "ı", "Ω"]


def _rand_name(rng, maxlen):
    """any unicode string without NUL (numpy's str arrays strip trailing NULs): blanks inside / at either end, digits-only,
    combining marks, astral code points, up to maxlen characters"""
    r = rng.random()
    if r < 0.15:
        return str(rng.choice([0, 1, 2, 9, 10, 11, 19, 20, 100, 101]))      # digit-only names: string order is not numeric order
    if r < 0.25:
        return rng.choice(["", " ", "a", "a ", " a", "A", "control", "Control", "control "])
    return "".join(rng.choice(_ALPHABET) for _ in range(rng.choice([1, 2, 3, 5, 8, 13, maxlen // 2, maxlen])))


def _big_case(rng, tier):
    """a screen with 11-40 distinct sample / plate names (ids >= 10: string-sorted or narrow-dtype renumbering shows), 8-40 distinct
    treatment names, up to 200 rows (thorough: 400), random unicode names up to 40 (thorough: 120) characters"""
    big = tier != "quick"
    maxlen = 120 if big else 40

    def pool(k):
        out = set()
        while len(out) < k:
            out.add(_rand_name(rng, maxlen))
        return sorted(out, key=lambda _: rng.random())
    ctrl = rng.choice(sl.CTRLS + ["control ", "10"])
    samples, plates = pool(rng.randint(11, 40)), pool(rng.randint(11, 40))
    names = pool(rng.randint(8, 40)) + [ctrl]
    doses = rng.sample(sl.DOSES, rng.randint(2, 6)) + [rng.choice([0.1, 0.25, 10.0, 1e-9, 7.0]) * rng.randint(1, 50) for _ in range(rng.randint(0, 12))]
    n = rng.choice([60, 100, 150, 200] + ([300, 400] if big else []))
    rows, a = sl.gen_rows(rng, n=n, arity=rng.choice([1, 2, 2, 3]), names=names, doses=doses, samples=samples, plates=plates, ctrl=ctrl)
    return rows, a, ctrl


def _features(d):
    f = [d["kind"], "arity%d" % d.get("arity", 0)]
    if len({r["s"] for r in d.get("rows", [])}) > 10 or len({r["p"] for r in d.get("rows", [])}) > 10:
        f.append("ids_beyond_9")
    if any(len(x) > 20 for r in d.get("rows", []) for x in (r["s"], r["p"])):
        f.append("long_names")
    rows = d.get("rows", [])
    if len(rows) < 2:
        f.append("trivial")
    if any(t[0] == d.get("ctrl") for r in rows for t in r["t"]):
        f.append("control_by_name")
    if any(t[1] <= 0 for r in rows for t in r["t"]):
        f.append("control_by_dose")
    if any(ord(c) > 127 for r in rows for t in r["t"] for c in t[0]):
        f.append("non_ascii")
    if any(r["s"] == "" or r["p"] == "" for r in rows):
        f.append("empty_name")
    return f


def run(desc):
    from batchie.data import numpy_array_is_0_indexed_integers

    k = desc["kind"]
    if k == "ctor":
        s = impl_call(sl.build, desc)
        pred = None
        if isinstance(s, ImplError):
            impl = s
            uniform = all(len({r["m"] for r in desc["rows"] if r["p"] == p}) == 1 for p in {r["p"] for r in desc["rows"]})
            if (uniform or not (desc["obs_given"] and desc["mask_given"])) and (desc["obs_given"] or not desc["mask_given"]):
                pred = "valid constructor arguments rejected: %r" % (s,)
        else:
            impl = sl.canon_screen(s)
            pred = _pred_screen(desc, s)
            if desc["obs_given"] and not desc["mask_given"] and not all(s.observation_mask):
                pred = "observations without mask are not all observed"
            if not desc["obs_given"] and any(s.observation_mask):
                pred = "no observations but some rows observed"
        f = _features(desc) + (["rejected"] if isinstance(s, ImplError) else [])
        return dict(wire=[0, sl.wire_mk_args(desc)], impl=impl, pred=pred, features=f, cmp=cmp_result())
    if k == "reuse":
        sub = [r for r, b in zip(desc["rows"], desc["sel"]) if b]

        def go():
            s1 = sl.build(desc)
            d2 = dict(desc, rows=sub, tmap=dict(rows=[[str(n), float(x), int(i)] for n, x, i in zip(*s1.treatment_mapping)], isint=True),
                      smap=dict(rows=[[str(n), int(i)] for n, i in zip(*s1.sample_mapping)], isint=True))
            s2 = sl.build(d2)
            return s1, s2, d2
        r = impl_call(go)
        pred = None
        if isinstance(r, ImplError):
            impl = r
            pred = "sub-screen with the superset's own mappings rejected: %r" % (r,)
        else:
            s1, s2, d2 = r
            impl = sl.canon_screen(s2)
            pred = _pred_screen(desc, s1) or _pred_screen(d2, s2, batchie_made=True)
            # verbatim + superset stability: same ids as in the superset screen, same mappings
            idx = [i for i, b in enumerate(desc["sel"]) if b]
            if pred is None and not (np.array_equal(np.asarray(s1.treatment_ids)[idx].reshape(len(idx), desc['arity']), np.asarray(s2.treatment_ids).reshape(len(idx), desc['arity']))
                                     and np.array_equal(np.asarray(s1.sample_ids)[idx], s2.sample_ids)):
                pred = "ids of the sub-screen differ from the superset's ids for the same rows"
            if pred is None and sl.canon_tmap(s1.treatment_mapping) != sl.canon_tmap(s2.treatment_mapping):
                pred = "supplied treatment mapping not kept verbatim"
            if pred is None and sl.canon_nmap(s1.sample_mapping) != sl.canon_nmap(s2.sample_mapping):
                pred = "supplied sample mapping not kept verbatim"
        f = _features(desc) + (["strict_superset"] if not all(desc["sel"]) else [])
        return dict(wire=[1, sl.wire_mk_args(desc), [sl.wire_row(x) for x in sub]], impl=impl, pred=pred, features=f, cmp=cmp_result())
    if k == "corrupt":
        s1 = sl.build(desc)
        tm = [[str(n), float(x), int(i)] for n, x, i in zip(*s1.treatment_mapping)]
        sm = [[str(n), int(i)] for n, i in zip(*s1.sample_mapping)]
        how, pick = desc["how"], desc["pick"]
        tint = sint = True
        must_reject = False
        if how == "gap" and any(r[2] >= 0 for r in tm):
            mx = max(r[2] for r in tm)
            for r in tm:
                if r[2] == mx:
                    r[2] = mx + 1
            must_reject = True
        elif how == "missing" and tm:
            j = int(pick * len(tm)) % len(tm)
            gone = tm.pop(j)
            # dense-ness may break too; either way the data must be covered
            must_reject = any(t[0] == gone[0] and float_key(t[1]) == float_key(gone[1]) for r in desc["rows"] for t in r["t"])
        elif how == "nonint":
            tint = False
            must_reject = True
        elif how == "shift":
            for r in tm:
                if r[2] >= 0:
                    r[2] += 1
            must_reject = any(r[2] >= 0 for r in tm)
        elif how == "missing_sample" and sm:
            j = int(pick * len(sm)) % len(sm)
            gone = sm.pop(j)
            must_reject = any(r["s"] == gone[0] for r in desc["rows"])
        elif how == "sample_gap" and sm:
            mx = max(r[1] for r in sm)
            for r in sm:
                if r[1] == mx:
                    r[1] = mx + 1
            must_reject = True
        elif how == "sample_nonint":
            sint = False
            must_reject = True
        d2 = dict(desc, tmap=dict(rows=tm, isint=tint), smap=dict(rows=sm, isint=sint))
        s2 = impl_call(sl.build, d2)
        pred = None
        if isinstance(s2, ImplError):
            impl = s2
            if not must_reject and how == "none":
                pred = "intact supplied mapping rejected: %r" % (s2,)
        else:
            impl = sl.canon_screen(s2)
            if must_reject:
                pred = "supplied mapping that %s was accepted" % how
        f = _features(desc) + ["corrupt_" + how]
        return dict(wire=[0, sl.wire_mk_args(d2)], impl=impl, pred=pred, features=f, cmp=cmp_result())
    if k == "valid_ids":
        ids = desc["ids"]
        arr = np.array(ids, dtype=int if desc["isint"] else float)
        out = bool(numpy_array_is_0_indexed_integers(arr))
        u = sorted(set(ids))
        expect = desc["isint"] and (u == ([-1] + list(range(len(u) - 1)) if -1 in ids else list(range(len(u)))))
        pred = None if out == expect else "numpy_array_is_0_indexed_integers(%r) = %r" % (ids, out)
        return dict(wire=[2, desc["isint"], ids], impl=out, pred=pred, features=["valid_ids"] + (["trivial"] if len(ids) < 2 else []),
                    cmp=lambda m, i: None if bool(m) == i else "model %r impl %r" % (m, i))
    if k in ("space", "space_of_screen"):
        return _run_space(desc)
    raise ValueError(k)


def _space_queries(sp, tname, sname, sid):
    """the six query methods of a real ExperimentSpace, canonical"""
    return [int(sp.n_unique_treatment_types), int(sp.n_unique_doses),
            [float_key(x) for x in sp.doses_for_treatment(tname)],
            [int(x) for x in sp.treatment_ids_from_treatment_name(tname)],
            _nested(impl_call(lambda: int(sp.sample_id_from_sample_name(sname)))),
            _nested(impl_call(lambda: common.s2l(str(sp.sample_name_from_sample_id(sid)))))]


def _nested(x):
    """an exception inside a compound answer, JSON-able (common.cmp_result reads {"err": ...} as a raise)"""
    return {"err": x.cls} if isinstance(x, ImplError) else x


def _cmp_space(m, i):
    if isinstance(m, str) or not isinstance(m, list) or len(m) != 6:
        return "model driver failure / malformed output: %r" % (m,)
    for j, what in enumerate(["n_unique_treatment_types", "n_unique_doses", "doses_for_treatment", "treatment_ids_from_treatment_name"]):
        if m[j] != i[j]:
            return "%s: model %r impl %r" % (what, m[j], i[j])
    for j, what in [(4, "sample_id_from_sample_name"), (5, "sample_name_from_sample_id")]:
        r = cmp_result()(m[j], i[j])
        if r is not None:
            return what + ": " + r
    return None


def _run_space(desc):
    from batchie.data import ExperimentSpace

    k = desc["kind"]
    pred = None
    if k == "space":
        tm, sm = desc["tmap"], desc["smap"]
        sp = ExperimentSpace(treatment_mapping=sl.np_tmap(dict(rows=tm, isint=True)), sample_mapping=sl.np_smap(dict(rows=sm, isint=True)),
                             control_treatment_name=desc["ctrl"])
        if (str(sp.control_treatment_name), sl.canon_tmap(sp.treatment_mapping), sl.canon_nmap(sp.sample_mapping)) != (
                desc["ctrl"], sl.canon_tmap(sl.np_tmap(dict(rows=tm, isint=True))), sl.canon_nmap(sl.np_smap(dict(rows=sm, isint=True)))):
            pred = "ExperimentSpace.__init__ does not store its arguments"
    else:
        s = sl.build(desc)
        sp = ExperimentSpace.from_screen(s)
        tm = [[str(n), float(x), int(i)] for n, x, i in zip(*s.treatment_mapping)]
        sm = [[str(n), int(i)] for n, i in zip(*s.sample_mapping)]
        # the property's clauses on the space of a constructed screen
        for n_, i_ in sm:
            if sp.sample_id_from_sample_name(n_) != i_ or str(sp.sample_name_from_sample_id(i_)) != n_:
                pred = "sample lookups are not mutually inverse on sample %r / id %d" % (n_, i_)
            if not 0 <= i_ < sp.n_unique_samples:
                pred = "sample id %d not below n_unique_samples %d" % (i_, sp.n_unique_samples)
        for n_ in {r[0] for r in tm}:
            for i_ in sp.treatment_ids_from_treatment_name(n_):
                if not (i_ == -1 or 0 <= i_ < sp.n_unique_treatments):
                    pred = "treatment id %d of %r neither the sentinel nor below n_unique_treatments" % (i_, n_)
    q = _space_queries(sp, desc["tname"], desc["sname"], desc["sid"])
    doses = q[2]
    want = sorted({float_key(x) for n, x, _ in tm if n == desc["tname"] and float_key(x) != 0})
    if pred is None and doses != want:
        pred = "doses_for_treatment(%r) = %r, the mapping's non-zero doses of that name are %r" % (desc["tname"], doses, want)
    f = [k] + (["trivial"] if len(tm) + len(sm) < 2 else []) + (["lookup_raises"] if isinstance(q[4], dict) or isinstance(q[5], dict) else [])
    wire = [3, [[[common.s2l(n), float_key(x)], int(i)] for n, x, i in tm], [[common.s2l(n), int(i)] for n, i in sm], common.s2l(desc["ctrl"]),
            common.s2l(desc["tname"]), common.s2l(desc["sname"]), int(desc["sid"])]
    return dict(wire=wire, impl=q, pred=pred, features=f, cmp=_cmp_space)


def shrink(desc):
    rows = desc.get("rows")
    if rows:
        for i in range(len(rows)):
            d = dict(desc, rows=rows[:i] + rows[i + 1:])
            if "sel" in d:
                d["sel"] = desc["sel"][:i] + desc["sel"][i + 1:]
            yield d
