"""C09 — predictions are pure, row-wise, treatment-order-symmetric and control-neutral."""
import copy
import math
from fractions import Fraction

import numpy as np

import common
from common import ImplError, frac, impl_call, is_err, is_ok, short

ID = "C09"
LEVEL = "proof"
RULE = ("size regions: a screen of 1025 experiments x 1 sample and 257 experiments x 5 samples in a holder (thorough: 1023 / 1024 / 1025 / 4097 "
        "experiments, 33 / 65 samples in a holder, both sample types), same predicates.  " +
        "kinds: theta (one SparseDrugComboMCMCSample / SparseDrugComboInteractionMCMCSample with random parameters -- "
        "short dyadic k/2^m values plus a minority of full-precision doubles, non-zero LAST embedding row, embedding "
        "dim 0..3 -- predicting mean / viability / variance on a screen of arity 1 or 2 (<= 12 rows) built through the real "
        "batchie.data.Screen with control in either / both columns by name or by dose; plus Screen.subset, every Plate, nested "
        "ScreenSubset.subset, a row permutation (or index list with repeats), the column-swapped screen and the "
        "single-agent arity-1 screen); all (a ThetaHolder of 0..4 samples through predict_*_all / predict_*_avg); "
        "malformed (embedding too small, arity 3, interaction type on arity 1, missing lookup key, declared n_thetas "
        "!= stored, precision 0).  Non-trivial: screen has >= 1 row; distinct by canonical case description.")
THEOREMS = {
    "C09_rowwise_sparse2": "vectorised predict (arity 2) = map of the one-experiment formula over the rows",
    "C09_rowwise_sparse1": "vectorised predict_single_drug = map of the one-experiment formula",
    "C09_rowwise_inter": "interaction type: vectorised mean and viability = map of the one-experiment formulas",
    "C09_subset": "any Theta, mean/viability/variance: prediction on a boolean-mask subset = the masked entries of the whole-screen prediction (index validity is inherited)",
    "C09_take": "same for any in-range index list (row permutations, repeats)",
    "C09_swap_row": "one-experiment mean is symmetric in the two treatments (both sample types)",
    "C09_swap": "swapping the two treatment columns of a screen changes no prediction of any kind, errors included",
    "C09_control_neutral_sparse": "for rectangular V1: (s,a,-1) and (s,-1,a) predict exactly the arity-1 value of (s,a)",
    "C09_control_only_sparse": "(s,-1,-1) and arity-1 (s,-1) predict alpha + W0[s] whatever the last embedding rows hold",
    "C09_control_neutral_inter": "interaction type: a row with a control in either column has interaction mean 0",
    "C09_control_viability_inter": "interaction type, for any oracle with exp(ln x) = x on x > 0: viability of (s,a,-1) = clip(clip(L[s,a]*L[s,-1]))",
    "C09_viability_is_clipped_logistic": "sparse type: every viability entry = clip(expit(mean entry), 0.01, 0.99)",
    "C09_viability_range": "every viability entry of either sample type lies in [0.01, 0.99], for every oracle",
    "C09_inter_viability_not_logistic_refuted": "the interaction type's viability is NOT clip(expit(mean)) (witness; it is exp(mean + ln(clipped single effects)), modelled as coded)",
    "C09_variance": "variance = 1/precision repeated size times for every experiment; positive when precision is",
    "C09_all_rows": "predict_*_all returns n_thetas rows, row i = prediction of the i-th stored sample",
    "C09_avg_exact": "predict_*_avg entry j = (sum over samples of entry j) / n_thetas",
    # the model is the source: Generated/SrcPredict.v is re-translated from /repo's common.py, data.py, models/sparse_combo.py on every run
    "C09_model_is_source_copy_zero": "translation of the WHOLE copy_array_with_control_treatments_set_to_zero (fancy-index copy, mask `ids == CONTROL_SENTINEL_VALUE`, masked store of 0.0), for axis-0 entries of any shape: IndexError iff an id is outside [-n,n), else the model's zero_where over gather",
    "C09_model_is_source_copy_zero_shapes": "at a matrix (rows zeroed) and at a vector (numbers zeroed) the translation is the model's gather_zero2 / gather_zero1",
    "C09_model_is_source_predict": "translation of sparse_combo.predict on any arity-2 data = the model's sp_predict (Scr2): which embedding is gathered with which id column, products, row sums, intercept, Mu, the viability branch clip(expit(Mu), 0.01, 0.99); IndexError cases included",
    "C09_model_is_source_predict_single_drug": "translation of sparse_combo.predict_single_drug on any arity-1 data = the model's sp_predict (Scr1)",
    "C09_model_is_source_size_arity": "translations of ScreenBase.size / treatment_arity (treatment_ids.shape[0] / [1]) = the model's scr_size / arity",
    "C09_model_is_source_predict_viability": "translation of SparseDrugComboMCMCSample.predict_viability (arity 1 -> predict_single_drug, 2 -> predict, viability=True, else NotImplementedError) = theta_predict KViab on the sparse type",
    "C09_model_is_source_predict_conditional_mean": "same for predict_conditional_mean (viability=False) = theta_predict KMean",
    "C09_model_is_source_predict_conditional_variance": "translation of predict_conditional_variance (np.repeat(1 / precision, repeats=data.size)) = the model's variance, ZeroDivisionError at precision 0.0 included",
    "C09_model_is_source_inter_predict_conditional_mean": "translation of SparseDrugComboInteractionMCMCSample.predict_conditional_mean (arity guard, gathered W * zeroed V2 * zeroed V2 summed over the last axis) = theta_predict KMean on the interaction type",
    "C09_model_is_source_inter_predict_viability": "translation of its predict_viability (guard, the mean, the comprehension of lookup[c,dd1]*lookup[c,dd2] over zip(sample_ids, column 0, column 1) with KeyError, clip, exp(interaction + log(single)), clip) = theta_predict KViab on the interaction type",
    "C09_model_is_source_inter_predict_conditional_variance": "translation of its predict_conditional_variance = the model's variance",
    "C09_model_is_source_theta_predict": "the model's Theta interface theta_predict = the dispatch to the six translated methods, every kind, both sample types, every screen",
    "C09_model_is_source_predict_viability_all": "translation of models.main.predict_viability_all (np.zeros, loop over range(n_thetas), get_theta, the method, row store, NaN raise) = predict_all KViab, for ANY implementation of the Theta methods that agrees with the model on the stored samples",
    "C09_model_is_source_predict_mean_all": "same for predict_mean_all = predict_all KMean",
    "C09_model_is_source_predict_variance_all": "translation of predict_variance_all (append loop, size raise, NaN raise, np.stack with its ValueError on no samples) = predict_all KVar",
    "C09_model_is_source_predict_mean_avg": "translation of predict_mean_avg (zeros, accumulation loop, division by n_thetas) = predict_avg KMean",
    "C09_model_is_source_predict_viability_avg": "translation of predict_viability_avg = predict_avg KViab",
    "C09_model_is_source_main": "the five translated helpers of models/main.py run over the six translated methods = predict_all / predict_avg: no hypothesis about the methods is left",
}
ASSUMPTIONS = [
    "numpy integer fancy indexing returns a fresh copy; a negative index i reads row i+n; outside [-n,n) raises IndexError (exercised: ids -1, last row, too-small embeddings)",
    "floating point is abstracted: the model computes the real-number value, compared with tolerance 1e-9*max(1,|value|); the clip bounds are the exact rationals 1/100 and 99/100",
    "expit / exp / ln are oracles (libm on the nearest double) in the model; theorems hold for every oracle (one states exp(ln x)=x as a hypothesis)",
    "embedding arrays are rectangular with a common width (a numpy invariant; the boolean predicate sparse_wfb, satisfied by every generated case)",
    "purity (no mutation of theta / screen, outputs not aliasing theta) is checked on the implementation only (deep copies before / after)",
    "treatment / sample ids are taken from the real Screen; their encoding is the subject of C01",
]
EXPLANATION = ("Model: Model/Predict.v (gather copy with python index -1 = last row, then zeroing of control rows, as coded; "
               "vectorised predict / predict_single_drug; interaction type with exp / ln and its lookup table; predict_*_all / "
               "_avg over a holder with declared n_thetas).  Not modelled: NaN checks of predict_*_all, broadcasting errors for "
               "inconsistent embedding widths, float rounding.  'Viability is the logistic of the mean' holds for the sparse "
               "type only; the interaction type's exp-based formula is modelled as coded and the literal clause is stated as "
               "refuted for it (replayed on the real code by an extra check).  Observation: with an embedding of 0 rows the "
               "control sentinel itself is an invalid index (IndexError), so an all-control screen cannot be predicted by a "
               "sample trained on an experiment space without treatments (index validity is a hypothesis of the property).  "
               "SOURCE LINK (C09_model_is_source_*): copy_array_with_control_treatments_set_to_zero (common.py), ScreenBase.size / "
               "treatment_arity (data.py), predict, predict_single_drug and SparseDrugComboMCMCSample.predict_viability / "
               "predict_conditional_mean / predict_conditional_variance (models/sparse_combo.py), the same three methods of "
               "SparseDrugComboInteractionMCMCSample (models/sparse_combo_interaction.py) and predict_viability_all / predict_mean_all / "
               "predict_variance_all / predict_mean_avg / predict_viability_avg (models/main.py) are re-translated from VERIF_REPO into "
               "coq/theories/Generated/SrcPredict.v on every run and proved equal to the model for all inputs (the model's screens standing "
               "for the ScreenBase objects pydata_of gives; ScrN only at arities other than 1 and 2).  Which embedding is gathered with "
               "which id column, what is multiplied / added / summed, the control zeroing, the viability branch, the arity dispatch and "
               "its raise come from the translation.  Trusted: the translator harness/py2gal.py (incl. typed operator prims under "
               "`overload`, raising assign_effects) and the primitives of the C09_* configurations in harness/src_functions.py, one "
               "attribute / operator / call each: the seven dataclass fields of the sample (sW .. sprec); data.sample_ids, "
               "data.treatment_ids; a.shape[0], a.shape[1] of the id matrix; a[:, k] (np_col: column k, IndexError outside the arity); "
               "a[ids] = a[ids, ...] (np_take: fresh array, negative index + n, IndexError outside [-n,n)); ids == v (np_eq_scalar); "
               "results[mask, ...] = 0.0 (np_mask_zero: entries of axis 0 under the mask become zeros, IndexError on a mask of another "
               "length); CONTROL_SENTINEL_VALUE (Generated/Consts.v, re-read from common.py); the elementwise operators float + vec "
               "(sadd), vec + vec (vadd), mat + mat (madd), mat * mat (mmul) for operands of EQUAL shape (numpy broadcasting of unequal "
               "shapes / its ValueError is not represented, as in the model); np.sum(x, -1) (sum_last); scipy expit (the oracle, "
               "entrywise); np.clip(x, a_min, a_max) (vclip); the literals 0.01, 0.99 as exact rationals; 1 / p (py_recip: "
               "ZeroDivisionError at 0.0); np.repeat(x, repeats=n).  Interaction type: its fields W, V2, precision; zip(a, b, c) (zip3); "
               "single_effect_lookup[c, d] (lookup_key: the value under the key, KeyError when absent); float * float (qmul); np.exp, "
               "np.log (the oracle, entrywise); np.clip of a Python list of floats.  models/main.py: thetas.n_thetas (the declared "
               "count h_n), thetas.get_theta(i) (holder_get: ValueError outside 0..len-1, as ThetaHolder.get_theta which C10 links), "
               "the three Theta method calls (the parameter pm; the theorem C09_model_is_source_main instantiates it with the "
               "translated methods), np.zeros((n,)) / np.zeros((n, m)); result[i, :] (np_row); result[i, :] = v (np_set_row: "
               "IndexError outside, ValueError unless v has the row's length or length 1 = broadcast); np.isnan(x).any() / "
               "np.any(np.isnan(x)) (false: no NaN over the rationals, the floating-point abstraction of the model); x.size; "
               "np.stack (ValueError on no arrays / unequal lengths); vec + vec; vec / int (np_div_int: entrywise, by 0 a non-empty "
               "array becomes non-finite = the model's ERR_NAN).  Calls of translated functions (copy_array_..., predict, "
               "predict_single_drug, self.predict_conditional_mean, data.size, data.treatment_arity) run their translations.  "
               "Translator additions used: `T1 | T2` variable types (result in predict_variance_all), tuple-target comprehensions.")

NAMES = ["a", "b", "c", "d"]
DOSES = [0.5, 1.0, 2.0]
SAMPLES = ["s0", "s1", "s2"]
TOL = 1e-9

ERR_CLASSES = {
    1: ("IndexError",),
    2: ("NotImplementedError", "ValueError"),
    3: ("KeyError",),
    4: ("ValueError",),
    5: ("ValueError",),
    6: ("ZeroDivisionError",),
    7: ("FloatingPointError",),
}

# --------------------------------------------------------------------------- generation


def _val(rng):
    u = rng.random()
    if u < 0.72:
        return rng.randint(-32, 32) / float(1 << rng.randint(3, 5))  # |v| <= 4: exp() of the interaction stays finite
    if u < 0.92:
        return rng.uniform(-3.0, 3.0)
    return 0.0


def _nonzero(rng):
    while True:
        v = _val(rng)
        if v != 0.0:
            return v


def _mat(rng, n, d, last_nonzero=False):
    m = [[_val(rng) for _ in range(d)] for _ in range(n)]
    if last_nonzero and n > 0:
        m[-1] = [_nonzero(rng) for _ in range(d)]
    return m


def _vec(rng, n, last_nonzero=False):
    v = [_val(rng) for _ in range(n)]
    if last_nonzero and n > 0:
        v[-1] = _nonzero(rng)
    return v


def _prec(rng):
    return rng.choice([0.5, 1.0, 2.0, 4.0, 3.0, 100.0, 0.1, rng.uniform(0.05, 20.0), rng.uniform(0.05, 20.0), -2.0])


def _gen_theta(rng, ttype, ns, nt, d):
    if ttype == "sparse":
        return dict(type="sparse", ns=ns, nt=nt, D=d, W=_mat(rng, ns, d), W0=_vec(rng, ns),
                    V2=_mat(rng, nt, d, True), V1=_mat(rng, nt, d, True), V0=_vec(rng, nt, True),
                    alpha=_val(rng), precision=_prec(rng))
    look = []
    for c in range(ns):
        for t in range(-1, nt):
            if t == -1 and rng.random() < 0.85:
                v = 1.0
            else:
                v = rng.choice([rng.randint(1, 20) / 16.0, rng.uniform(0.005, 1.3), rng.randint(1, 20) / 16.0, 0.0, -0.25])
            look.append([c, t, v])
    return dict(type="inter", ns=ns, nt=nt, D=d, W=_mat(rng, ns, d), V2=_mat(rng, nt, d, True),
                precision=_prec(rng), lookup=look)


def _gen_screen(rng, arity, n, ctrl, p_ctrl):
    tn, td = [], []
    for _ in range(n):
        rn, rd = [], []
        for _ in range(arity):
            if rng.random() < p_ctrl:
                mode = rng.choice(["name", "name", "dose", "both"])
                if mode == "name":
                    rn.append(ctrl)
                    rd.append(rng.choice([0.0, 1.0]))
                elif mode == "dose":
                    rn.append(rng.choice(NAMES))
                    rd.append(0.0)
                else:
                    rn.append(ctrl)
                    rd.append(0.0)
            else:
                rn.append(rng.choice(NAMES))
                rd.append(rng.choice(DOSES))
        tn.append(rn)
        td.append(rd)
    return dict(arity=arity, tn=tn, td=td, sn=[rng.choice(SAMPLES) for _ in range(n)],
                pn=[rng.choice(["p0", "p1"]) for _ in range(n)], ctrl=ctrl)


def _is_ctrl(scr, name, dose):
    return dose <= 0 or name == scr["ctrl"]


def _counts(scr):
    combos = {(n, d) for rn, rd in zip(scr["tn"], scr["td"]) for n, d in zip(rn, rd) if not _is_ctrl(scr, n, d)}
    return len(combos), len(set(scr["sn"]))


def _views(rng, n):
    mode = rng.choice(["rand", "rand", "rand", "none", "all", "one"])
    if mode == "rand":
        mask = [rng.random() < 0.6 for _ in range(n)]
    elif mode == "none":
        mask = [False] * n
    elif mode == "all":
        mask = [True] * n
    else:
        mask = [False] * n
        if n:
            mask[rng.randrange(n)] = True
    mask2 = [rng.random() < 0.6 for _ in range(sum(mask))]
    if rng.random() < 0.7:
        idx = list(range(n))
        rng.shuffle(idx)
    else:
        idx = [rng.randrange(n) for _ in range(rng.randint(0, n + 2))] if n else []
    return mask, mask2, idx


def _gen_case(rng, ttype, arity, dmin=0):
    n = rng.choice([0, 1, 2, 3, 4, 5, 6, 7, 8, 9, 10, 12, 4, 6, 8])
    ctrl = rng.choice(["", "", "", "DMSO"])
    scr = _gen_screen(rng, arity, n, ctrl, rng.choice([0.0, 0.25, 0.4, 0.6, 1.0, 0.3]))
    u, ns = _counts(scr)
    d = max(dmin, rng.choice([0, 1, 2, 2, 3, 3]))
    nt = max(1, u + rng.choice([0, 0, 0, 1, 2]))
    th = _gen_theta(rng, ttype, ns + rng.choice([0, 0, 1]), nt, d)
    return scr, th


def gen(rng, tier):
    k = 1 if tier == "quick" else 12
    # size regions: around and beyond 1024 rows, dozens of thetas (blocked implementations)
    for n in ([1025] if tier == "quick" else [1023, 1024, 1025, 4097]):
        for ttype in (["sparse"] if tier == "quick" else ["sparse", "inter"]):
            yield dict(kind="theta", big=[n, rng.randrange(10 ** 6), ttype, 0])
            yield dict(kind="all", big=[n if tier != "quick" else 257, rng.randrange(10 ** 6), ttype, 5 if tier == "quick" else rng.choice([33, 65])])
    for _ in range(260 * k):
        ttype = rng.choice(["sparse", "sparse", "sparse", "inter", "inter"])
        arity = 2 if ttype == "inter" else rng.choice([1, 2, 2])
        scr, th = _gen_case(rng, ttype, arity)
        mask, mask2, idx = _views(rng, len(scr["sn"]))
        yield dict(kind="theta", theta=th, scr=scr, mask=mask, mask2=mask2, idx=idx)
    for _ in range(110 * k):
        ttype = rng.choice(["sparse", "sparse", "inter", "mixed"])
        arity = rng.choice([1, 2, 2]) if ttype == "sparse" else 2
        scr, th0 = _gen_case(rng, "sparse" if ttype != "inter" else "inter", arity)
        m = rng.choice([0, 1, 2, 3, 3, 4])
        ths = []
        for j in range(m):
            tt = ttype if ttype != "mixed" else rng.choice(["sparse", "inter"])
            ths.append(_gen_theta(rng, tt, th0["ns"], th0["nt"], th0["D"]))
        n_decl = m if rng.random() < 0.85 else max(0, m + rng.choice([-1, 1, -2]))
        yield dict(kind="all", thetas=ths, n_decl=n_decl, scr=scr)
    for _ in range(60 * k):
        what = rng.choice(["small-embedding", "small-embedding", "arity3", "inter-arity1", "missing-key", "precision0",
                           "small-W", "empty-embedding"])
        ttype = "inter" if what in ("inter-arity1", "missing-key") else rng.choice(["sparse", "inter"])
        arity = {"arity3": 3, "inter-arity1": 1}.get(what, 2 if ttype == "inter" else rng.choice([1, 2]))
        # width >= 1: numpy does not bounds-check an index whose result has no elements (width-0 embeddings)
        scr, th = _gen_case(rng, ttype, arity, dmin=1)
        u, ns = _counts(scr)
        if what == "small-embedding":
            th = _gen_theta(rng, ttype, th["ns"], max(0, u - rng.choice([1, 1, 2])), th["D"])
            if ttype == "sparse" and rng.random() < 0.5 and u >= 1:
                # only one of the three treatment embeddings is too small
                big = _gen_theta(rng, ttype, th["ns"], u, th["D"])
                keep = rng.choice(["V2", "V1", "V0"])
                for key in ("V2", "V1", "V0"):
                    if key != keep:
                        th[key] = big[key]
                th["nts"] = {key: (th["nt"] if key == keep else u) for key in ("V2", "V1", "V0")}
        elif what == "small-W":
            th = _gen_theta(rng, ttype, max(0, ns - 1), th["nt"], th["D"])
        elif what == "empty-embedding":
            th = _gen_theta(rng, ttype, th["ns"], 0, th["D"])
        elif what == "missing-key" and th["lookup"]:
            drop = rng.randrange(len(th["lookup"]))
            th["lookup"] = th["lookup"][:drop] + th["lookup"][drop + 1:]
        elif what == "precision0":
            th["precision"] = 0.0
        mask, mask2, idx = _views(rng, len(scr["sn"]))
        yield dict(kind="theta", theta=th, scr=scr, mask=mask, mask2=mask2, idx=idx, malformed=what)


# --------------------------------------------------------------------------- implementation adapters


def _mk_theta(td):
    from batchie.models.sparse_combo import SparseDrugComboMCMCSample
    from batchie.models.sparse_combo_interaction import SparseDrugComboInteractionMCMCSample

    d, ns, nt = td["D"], td["ns"], td["nt"]
    nts = td.get("nts", {})
    arr2 = lambda key, n: np.array(td[key], dtype=float).reshape(n, d)
    if td["type"] == "sparse":
        return SparseDrugComboMCMCSample(
            W=arr2("W", ns), W0=np.array(td["W0"], dtype=float).reshape(ns),
            V2=arr2("V2", nts.get("V2", nt)), V1=arr2("V1", nts.get("V1", nt)),
            V0=np.array(td["V0"], dtype=float).reshape(nts.get("V0", nt)),
            alpha=float(td["alpha"]), precision=float(td["precision"]))
    return SparseDrugComboInteractionMCMCSample(
        W=arr2("W", ns), V2=arr2("V2", nt), precision=float(td["precision"]),
        single_effect_lookup={(int(c), int(t)): float(v) for c, t, v in td["lookup"]})


def _theta_wire(td):
    mat = lambda m: [[frac(x) for x in r] for r in m]
    vec = lambda v: [frac(x) for x in v]
    if td["type"] == "sparse":
        return [0, mat(td["W"]), vec(td["W0"]), mat(td["V2"]), mat(td["V1"]), vec(td["V0"]),
                frac(td["alpha"]), frac(td["precision"])]
    return [1, mat(td["W"]), mat(td["V2"]), frac(td["precision"]), [[c, t, frac(v)] for c, t, v in td["lookup"]]]


def _build_screen(s, rows=None, cols=None, mapping=None, extra_ctrl_col=False):
    from batchie.data import Screen

    n = len(s["sn"])
    rows = list(range(n)) if rows is None else rows
    cols = list(range(s["arity"])) if cols is None else cols
    tn = [[s["tn"][i][c] for c in cols] for i in rows]
    td = [[s["td"][i][c] for c in cols] for i in rows]
    if extra_ctrl_col:
        tn = [r + [s["ctrl"]] for r in tn]
        td = [r + [0.0] for r in td]
    width = len(cols) + (1 if extra_ctrl_col else 0)
    kw = {}
    if mapping is not None:
        kw = dict(treatment_mapping=mapping.treatment_mapping, sample_mapping=mapping.sample_mapping)
    return Screen(
        treatment_names=np.array(tn, dtype=str).reshape(len(rows), width),
        treatment_doses=np.array(td, dtype=float).reshape(len(rows), width),
        sample_names=np.array([s["sn"][i] for i in rows], dtype=str).reshape(len(rows)),
        plate_names=np.array([s["pn"][i] for i in rows], dtype=str).reshape(len(rows)),
        control_treatment_name=s["ctrl"], **kw)


def _screen_wire(scr):
    sid = [int(x) for x in scr.sample_ids]
    tid = [[int(x) for x in r] for r in scr.treatment_ids]
    return [int(scr.treatment_arity), [[s] + t for s, t in zip(sid, tid)]]


METHODS = ("predict_conditional_mean", "predict_viability", "predict_conditional_variance")


def _arr(x):
    """implementation output -> list of floats, or ImplError (NaN results are reported as FloatingPointError)"""
    if isinstance(x, ImplError):
        return x
    a = np.asarray(x, dtype=float)
    if np.isnan(a).any():
        return ImplError(FloatingPointError("NaN in result"))
    return a.tolist()


def _predict3(theta, scr, scribble=True):
    import warnings

    outs = []
    for m in METHODS:
        with warnings.catch_warnings():
            warnings.simplefilter("ignore")
            r = impl_call(getattr(theta, m), scr)
        o = _arr(r)
        if scribble and isinstance(r, np.ndarray) and r.flags.writeable:
            r[...] = 12345.0  # a result aliasing theta / the screen would now corrupt them (purity check)
        outs.append(o)
    return outs


def _snap(theta, scr):
    s = {}
    for k, v in theta.__dict__.items():
        s["theta." + k] = copy.deepcopy(v)
    base = getattr(scr, "screen", scr)
    for k in ("_treatment_ids", "_sample_ids", "_plate_ids", "_observations", "_observation_mask", "_sample_names",
              "_treatment_names", "_treatment_doses", "plate_names"):
        s["screen." + k] = copy.deepcopy(getattr(base, k))
    if hasattr(scr, "selection_vector"):
        s["subset.selection_vector"] = scr.selection_vector.copy()
    # the attribute NAMES too: the sample's private parameters are its __dict__ (models/sparse_combo.py private_parameters_dict),
    # so an attribute added by a prediction method (a memo) changes what ThetaHolder.save_h5 writes and what from_dicts accepts
    s["screen.__dict__ keys"] = sorted(getattr(base, "__dict__", {}).keys())
    if base is not scr:
        s["subset.__dict__ keys"] = sorted(getattr(scr, "__dict__", {}).keys())
    return s


def _snap_diff(before, theta, scr):
    after = _snap(theta, scr)
    added = sorted(set(after) - set(before))
    if added:
        return added[0] + " (attribute added by the prediction)"
    for k, v in before.items():
        if k not in after:
            return k + " (attribute removed by the prediction)"
        w = after[k]
        if isinstance(v, np.ndarray):
            same = isinstance(w, np.ndarray) and v.shape == w.shape and v.dtype == w.dtype and np.array_equal(v, w)
        else:
            same = (v == w) and type(v) is type(w)
        if not same:
            return k
    return None


def _veq(a, b, tol=TOL):
    """two implementation vectors agree (both errors of the same class, or element-wise close)"""
    if isinstance(a, ImplError) or isinstance(b, ImplError):
        return isinstance(a, ImplError) and isinstance(b, ImplError) and a.cls == b.cls
    if len(a) != len(b):
        return False
    return all(abs(x - y) <= tol * max(1.0, abs(x), abs(y)) for x, y in zip(a, b))


def _sel(v, idx):
    return v if isinstance(v, ImplError) else [v[i] for i in idx]


def _cmp_vec(m, i, what):
    if isinstance(m, str):
        return "model driver failure: " + m
    if is_err(m):
        if isinstance(i, ImplError) and i.cls in ERR_CLASSES.get(m[1], ()):
            return None
        return "%s: model refuses with tag %s but implementation gave %s" % (what, m[1], short(i, 200))
    if not is_ok(m):
        return "%s: model output is not a result: %s" % (what, short(m, 200))
    if isinstance(i, ImplError):
        return "%s: implementation raised %r but model returned %s" % (what, i, short(m[1], 200))
    mv = m[1]
    if len(mv) != len(i):
        return "%s: lengths differ: model %d impl %d" % (what, len(mv), len(i))
    for j, (q, x) in enumerate(zip(mv, i)):
        if not common.close(q, x, TOL):
            return "%s[%d]: model %r impl %r" % (what, j, float(Fraction(q[0], q[1])), x)
    return None


def _cmp_mat(m, i, what):
    if isinstance(m, str) or is_err(m) or not is_ok(m) or isinstance(i, ImplError):
        return _cmp_vec(m, i, what)
    if len(m[1]) != len(i):
        return "%s: row counts differ: model %d impl %d" % (what, len(m[1]), len(i))
    for r, (mr, ir) in enumerate(zip(m[1], i)):
        d = _cmp_vec([0, mr], ir, "%s[%d]" % (what, r))
        if d:
            return d
    return None


def _cmp_theta(m, i):
    if isinstance(m, str):
        return "model driver failure: " + m
    for what, mm, ii in zip(("mean", "viability", "variance"), m, i):
        d = _cmp_vec(mm, ii, what)
        if d:
            return d
    return None


def _cmp_all(m, i):
    if isinstance(m, str):
        return "model driver failure: " + m
    names = ("mean_all", "viability_all", "variance_all", "mean_avg", "viability_avg")
    for k, (what, mm, ii) in enumerate(zip(names, m, i)):
        d = (_cmp_mat if k < 3 else _cmp_vec)(mm, ii, what)
        if d:
            return d
    return None


# --------------------------------------------------------------------------- property predicates on the implementation


def _pred_theta(desc, theta, scr, base):
    """the clauses of C09 evaluated directly on the implementation; returns None or the first failing clause"""
    s = desc["scr"]
    n = len(s["sn"])
    mean, viab, var = base
    names = ("mean", "viability", "variance")
    sid = [int(x) for x in scr.sample_ids]
    tid = [[int(x) for x in r] for r in scr.treatment_ids]
    sparse = desc["theta"]["type"] == "sparse"

    # purity: same answer when asked again
    again = _predict3(theta, scr)
    for nm, a, b in zip(names, base, again):
        if not (_veq(a, b, 0.0)):
            return "%s changes when the same prediction is repeated" % nm

    # viability range / variance
    if not isinstance(viab, ImplError):
        if any(not (0.01 <= v <= 0.99) for v in viab):
            return "viability outside [0.01, 0.99]: %r" % (viab,)
        if sparse and not isinstance(mean, ImplError):
            from scipy.special import expit
            exp_v = [min(max(float(expit(m)), 0.01), 0.99) for m in mean]
            if not _veq(viab, exp_v):
                return "viability is not clip(expit(mean), 0.01, 0.99)"
    if not isinstance(var, ImplError):
        p = float(desc["theta"]["precision"])
        if len(var) != n or any(v != 1.0 / p for v in var):
            return "variance is not 1/precision for every experiment"
        if p > 0 and any(not v > 0 for v in var):
            return "variance not positive"

    ok_base = not any(isinstance(x, ImplError) for x in (mean, viab))

    # subsets: Screen.subset and ScreenSubset.subset
    mask = np.array(desc["mask"], dtype=bool).reshape(n)
    sub = scr.subset(mask)
    keep = [i for i in range(n) if desc["mask"][i]]
    snap = _snap(theta, sub)
    got = _predict3(theta, sub)
    k = _snap_diff(snap, theta, sub)
    if k:
        return "prediction on a subset mutated %s" % k
    if ok_base:
        for nm, a, b in zip(names, got, base):
            if not _veq(a, _sel(b, keep), 0.0):
                return "%s on Screen.subset differs from the corresponding entries of the whole-screen prediction" % nm
        mask2 = np.array(desc["mask2"], dtype=bool).reshape(len(keep))
        sub2 = sub.subset(mask2)
        keep2 = [keep[j] for j in range(len(keep)) if desc["mask2"][j]]
        for nm, a, b in zip(names, _predict3(theta, sub2), base):
            if not _veq(a, _sel(b, keep2), 0.0):
                return "%s on a nested subset differs from the corresponding entries of the whole-screen prediction" % nm

        # per-plate scoring: every Plate of the screen
        for plate in scr.plates:
            pk = [i for i in range(n) if plate.selection_vector[i]]
            for nm, a, b in zip(names, _predict3(theta, plate), base):
                if not _veq(a, _sel(b, pk), 0.0):
                    return "%s on plate %d differs from the corresponding entries of the whole-screen prediction" % (nm, plate.plate_id)

    # row order: a screen built from the rows in another order (or with repeats)
    idx = desc["idx"]
    if ok_base and n > 0:
        pscr = _build_screen(s, rows=idx, mapping=scr)
        if [int(x) for x in pscr.sample_ids] != [sid[i] for i in idx] or \
                [[int(x) for x in r] for r in pscr.treatment_ids] != [tid[i] for i in idx]:
            raise RuntimeError("reordered screen got different ids (C01 territory)")
        for nm, a, b in zip(names, _predict3(theta, pscr), base):
            if not _veq(a, _sel(b, idx), 0.0):
                return "%s on reordered rows differs from the reordered whole-screen prediction" % nm

    # treatment-order symmetry
    if ok_base and s["arity"] == 2:
        sw = _build_screen(s, cols=[1, 0])
        if [[int(x) for x in r] for r in sw.treatment_ids] != [[r[1], r[0]] for r in tid]:
            raise RuntimeError("column-swapped screen got different ids (C01 territory)")
        for nm, a, b in zip(names, _predict3(theta, sw), base):
            if not _veq(a, b):
                return "%s changes when the two treatment columns are swapped" % nm

    # control neutrality
    if ok_base and s["arity"] == 2:
        if sparse:
            th = desc["theta"]
            for i in range(n):
                if tid[i] == [-1, -1]:
                    want = th["alpha"] + th["W0"][sid[i]]
                    if abs(mean[i] - want) > TOL * max(1.0, abs(want)):
                        return "all-control experiment does not predict alpha + W0[sample]: row %d" % i
            single = [i for i in range(n) if (tid[i][0] == -1) != (tid[i][1] == -1)]
            if single:
                s1 = dict(s, arity=1,
                          tn=[[s["tn"][i][0 if tid[i][1] == -1 else 1]] for i in range(n)],
                          td=[[s["td"][i][0 if tid[i][1] == -1 else 1]] for i in range(n)])
                one = _build_screen(s1, rows=single, mapping=scr)
                if [int(x) for x in one.treatment_ids[:, 0]] != [max(tid[i]) for i in single]:
                    raise RuntimeError("single-agent screen got different ids (C01 territory)")
                for nm, a, b in zip(names, _predict3(theta, one), base):
                    if not _veq(a, _sel(b, single)):
                        return "%s of a pair with control differs from the single-agent prediction" % nm
        else:
            lk = {(int(c), int(t)): float(v) for c, t, v in desc["theta"]["lookup"]}
            for i in range(n):
                if -1 in tid[i] and mean[i] != 0.0:
                    return "interaction mean of a pair with control is not 0: row %d" % i
                k1, k2 = (sid[i], tid[i][0]), (sid[i], tid[i][1])
                if -1 in tid[i] and k1 in lk and k2 in lk:
                    # no interaction term: the viability is the (clipped) product of the two single-effect table entries alone
                    want = min(max(min(max(lk[k1] * lk[k2], 0.01), 0.99), 0.01), 0.99)
                    if abs(viab[i] - want) > TOL * max(1.0, abs(want)):
                        return "interaction viability of a pair with control is %r, not the clipped product of its single-effect entries %r: row %d" % (viab[i], want, i)
    if ok_base and s["arity"] == 1 and sparse:
        th = desc["theta"]
        for i in range(n):
            if tid[i] == [-1]:
                want = th["alpha"] + th["W0"][sid[i]]
                if abs(mean[i] - want) > TOL * max(1.0, abs(want)):
                    return "control experiment (arity 1) does not predict alpha + W0[sample]: row %d" % i
        if n > 0:
            two = _build_screen(s, extra_ctrl_col=True)
            if [int(x) for x in two.treatment_ids[:, 0]] != [r[0] for r in tid]:
                raise RuntimeError("padded screen got different ids (C01 territory)")
            padded = _predict3(theta, two)
            # (a too-small V2 is never read by the arity-1 code: the padded screen then has no valid prediction)
            if not (desc.get("malformed") and any(isinstance(x, ImplError) for x in padded)):
                for nm, a, b in zip(names, padded, base):
                    if not _veq(a, b):
                        return "%s of (agent, control) differs from the single-agent prediction" % nm
    return None


def _features(desc, scr):
    s = desc["scr"]
    f = [desc["kind"], "arity%d" % s["arity"]]
    tids = [[int(x) for x in r] for r in scr.treatment_ids]
    if s["arity"] == 2:
        if any(r[0] == -1 and r[1] != -1 for r in tids):
            f.append("ctrl-col0")
        if any(r[1] == -1 and r[0] != -1 for r in tids):
            f.append("ctrl-col1")
        if any(r == [-1, -1] for r in tids):
            f.append("ctrl-both")
        if any(r[0] == r[1] != -1 for r in tids):
            f.append("self-combination")
    elif any(-1 in r for r in tids):
        f.append("ctrl")
    if any(d <= 0 and nm != s["ctrl"] for rn, rd in zip(s["tn"], s["td"]) for nm, d in zip(rn, rd)):
        f.append("ctrl-by-dose")
    if s["ctrl"] != "":
        f.append("custom-control-name")
    if not s["sn"]:
        f += ["empty-screen", "trivial"]
    return f


def _theta_features(td, tids):
    f = [td["type"], "D=%d" % td["D"]]
    if any(t == td["nt"] - 1 for r in tids for t in r):
        f.append("last-row-used-as-treatment")
    if any(abs(x) * 32 != int(abs(x) * 32) for r in td["W"] for x in r):
        f.append("full-precision")
    if td["precision"] < 0:
        f.append("negative-precision")
    return f


def _expand_big(desc):
    """big = [n, seed, type, n_thetas]: a screen with ~a thousand / several thousand experiments written compactly (the whole
    description is regenerated from the seed); an implementation that works in blocks of rows or of thetas shows here"""
    import random as _random
    n, seed, ttype, m = desc["big"]
    g = _random.Random(seed)
    scr = _gen_screen(g, 2, n, "", 0.3)
    u, ns = _counts(scr)
    if desc["kind"] == "theta":
        th = _gen_theta(g, ttype, ns, max(1, u), 1)
        mask, mask2, idx = _views(g, n)
        return dict(kind="theta", theta=th, scr=scr, mask=mask, mask2=mask2, idx=idx, big=desc["big"])
    ths = [_gen_theta(g, ttype, ns, max(1, u), 1) for _ in range(m)]
    return dict(kind="all", thetas=ths, n_decl=m, scr=scr, big=desc["big"])


def run(desc):
    from batchie.core import ThetaHolder
    from batchie.models import main as mm

    if "big" in desc and "scr" not in desc:
        r = run(_expand_big(desc))
        r["features"] = list(r["features"]) + ["big:n>=%d" % (1000 if desc["big"][0] < 4000 else 4000), "big-thetas:%d" % desc["big"][3]]
        return r
    k = desc["kind"]
    scr = _build_screen(desc["scr"])
    tids = [[int(x) for x in r] for r in scr.treatment_ids]
    scr_wire = _screen_wire(scr)  # taken before any prediction runs
    if k == "theta":
        theta = _mk_theta(desc["theta"])
        snap = _snap(theta, scr)
        base = _predict3(theta, scr)
        pred = None
        kd = _snap_diff(snap, theta, scr)
        if kd:
            pred = "prediction mutated %s" % kd
        if pred is None:
            pred = _pred_theta(desc, theta, scr, base)
        if pred is None:
            kd = _snap_diff(snap, theta, scr)
            if kd:
                pred = "prediction mutated %s" % kd
        feats = _features(desc, scr) + _theta_features(desc["theta"], tids)
        if desc.get("malformed"):
            feats.append("malformed:" + desc["malformed"])
        if not any(desc["mask"]):
            feats.append("empty-subset")
        if len(set(desc["idx"])) != len(desc["idx"]):
            feats.append("idx-repeats")
        if any(isinstance(x, ImplError) for x in base):
            feats.append("raises")
        return dict(wire=[0, _theta_wire(desc["theta"]), scr_wire], impl=base, pred=pred,
                    features=feats, cmp=_cmp_theta)
    if k == "all":
        import warnings

        ths = [_mk_theta(t) for t in desc["thetas"]]
        h = ThetaHolder(n_thetas=desc["n_decl"])
        h.thetas = list(ths)
        snaps = [_snap(t, scr) for t in ths]
        fns = (mm.predict_mean_all, mm.predict_viability_all, mm.predict_variance_all, mm.predict_mean_avg,
               mm.predict_viability_avg)
        outs = []
        with warnings.catch_warnings():
            warnings.simplefilter("ignore")
            for fn in fns:
                r = impl_call(fn, scr, h)
                outs.append(_arr(r))
        pred = None
        for t, sn in zip(ths, snaps):
            kd = _snap_diff(sn, t, scr)
            if kd:
                pred = "predict_*_all / _avg mutated %s" % kd
        n = desc["n_decl"]
        for j, (nm, meth) in enumerate(zip(("mean", "viability", "variance"), METHODS)):
            a = outs[j]
            if isinstance(a, ImplError) or pred:
                continue
            if len(a) != n:
                pred = "predict_%s_all returned %d rows for %d samples" % (nm, len(a), n)
                break
            for i in range(n):
                want = _arr(impl_call(getattr(ths[i], meth), scr))
                if not _veq(a[i], want, 0.0):
                    pred = "row %d of predict_%s_all is not the prediction of sample %d of the holder" % (i, nm, i)
                    break
            if j < 2 and not pred and not isinstance(outs[3 + j], ImplError) and n > 0:
                avg = outs[3 + j]
                want = [sum(a[i][c] for i in range(n)) / n for c in range(len(avg))]
                if not _veq(avg, want, 1e-12):
                    pred = "predict_%s_avg is not the mean over the samples" % nm
        feats = _features(desc, scr) + ["n_thetas=%d" % n, "holder:" + "+".join(sorted({t["type"] for t in desc["thetas"]}))]
        if n != len(ths):
            feats.append("declared!=stored")
        if any(isinstance(x, ImplError) for x in outs):
            feats.append("raises")
        return dict(wire=[1, [n, [_theta_wire(t) for t in desc["thetas"]]], scr_wire], impl=outs, pred=pred,
                    features=feats, cmp=_cmp_all)
    raise ValueError(k)


def shrink(desc):
    if "big" in desc and "scr" not in desc:
        n, seed, ttype, m = desc["big"]
        for n2 in (n // 2, n - 1):
            if n2 >= 1:
                yield dict(desc, big=[n2, seed, ttype, m])
        return
    s = desc["scr"]
    n = len(s["sn"])
    for i in range(n):
        s2 = dict(s, tn=s["tn"][:i] + s["tn"][i + 1:], td=s["td"][:i] + s["td"][i + 1:],
                  sn=s["sn"][:i] + s["sn"][i + 1:], pn=s["pn"][:i] + s["pn"][i + 1:])
        # ids are assigned from the sorted distinct values: only drop a row if that keeps every id
        if _counts(s2) != _counts(s) or sorted(set(s2["sn"])) != sorted(set(s["sn"])):
            continue
        d2 = dict(desc, scr=s2)
        if desc["kind"] == "theta":
            d2["mask"] = desc["mask"][:i] + desc["mask"][i + 1:]
            d2["mask2"] = [True] * sum(d2["mask"])
            d2["idx"] = list(range(n - 1))
        yield d2


# --------------------------------------------------------------------------- whole-run checks


def extra(tier):
    import random
    from unittest import mock

    res = []

    # (a) the refutation witness of C09_inter_viability_not_logistic_refuted, replayed on the real code
    from batchie.data import Screen
    from batchie.models.sparse_combo_interaction import SparseDrugComboInteractionMCMCSample
    from scipy.special import expit

    scr = Screen(treatment_names=np.array([["a", ""]], dtype=str), treatment_doses=np.array([[1.0, 0.0]]),
                 sample_names=np.array(["s"], dtype=str), plate_names=np.array(["p"], dtype=str))
    th = SparseDrugComboInteractionMCMCSample(W=np.array([[1.0]]), V2=np.array([[1.0]]), precision=1.0,
                                              single_effect_lookup={(0, 0): 0.25, (0, -1): 1.0})
    v = float(th.predict_viability(scr)[0])
    m = float(th.predict_conditional_mean(scr)[0])
    res.append(("inter-viability-witness", abs(v - 0.25) < 1e-12 and m == 0.0 and abs(float(expit(m)) - 0.5) < 1e-12,
                "interaction type on (s,a,control) with single effect 0.25: mean %r, viability %r, clip(expit(mean)) = 0.5 "
                "(documented: this type's viability is exp(mean + ln single), not the logistic of the mean)" % (m, v)))

    # (b) detection self-test: an implementation that forgets to zero the gathered control rows must be caught
    def forgets_zeroing(arr, treatment_array):
        return arr[treatment_array, ...]

    def zeroes_wrong_rows(arr, treatment_array):
        results = arr[treatment_array, ...]
        results[treatment_array == 0, ...] = 0.0
        return results

    def view_not_copy(arr, treatment_array):
        arr[-1, ...] = 0.0  # zeroes the last row of the parameter itself instead of a copy
        return arr[treatment_array, ...]

    for name, bad in (("forgets-zeroing", forgets_zeroing), ("zeroes-wrong-rows", zeroes_wrong_rows),
                      ("mutates-theta", view_not_copy)):
        rng = random.Random(909)
        caught_pred = caught_cmp = tried = 0
        with mock.patch("batchie.models.sparse_combo.copy_array_with_control_treatments_set_to_zero", bad), \
                mock.patch("batchie.models.sparse_combo_interaction.copy_array_with_control_treatments_set_to_zero", bad):
            descs = [d for d in gen(rng, "quick") if d["kind"] == "theta" and not d.get("malformed")][:40]
            ran = common.evaluate_cases(__import__("c09"), descs)
        for r in ran:
            f = r["features"]
            # (with a width-0 interaction embedding every mean is 0 and the mutation is semantically invisible)
            if any(x in f for x in ("ctrl-col0", "ctrl-col1", "ctrl-both", "ctrl")) and not ("inter" in f and "D=0" in f):
                tried += 1
                caught_pred += bool(r.get("pred"))
                caught_cmp += bool(r.get("disagree"))
        res.append(("detects-" + name,
                    tried >= 10 and caught_pred >= 0.9 * tried and (name == "mutates-theta" or caught_cmp >= 0.9 * tried),
                    "%d cases with a control: property predicate caught %d, model comparison caught %d" % (tried, caught_pred, caught_cmp)))
    return res
