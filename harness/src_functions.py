"""Configurations of the whole-function translations (harness/py2gal.py) written into
coq/theories/Generated/ on every run by gen_consts.py.  One entry per translated function."""

C16_FILTER = dict(
    file="src/batchie/policies/k_per_sample.py", cls="KPerSamplePlatePolicy", func="filter_eligible_plates",
    out="SrcPolicy.v", imports="Model.Policy", name="src_filter_eligible_plates",
    pyparams=["self", "batch_plates", "unobserved_plates", "rng"], unused_params=["rng"],
    params=[("k", "Z"), ("batch_plates", "list plate"), ("unobserved_plates", "list plate")],
    returns="list plate",
    vars={
        "plate": "plate", "sample_id": "Z", "v": "Z",
        "n_plates_per_sample": "dict", "n_plates_already_selected_per_sample": "dict",
        "sample_ids_with_insufficient_plates": "set", "sample_chosen": "opt Z",
        "result": "list plate", "sample_id_has_not_yet_been_selected": "bool",
    },
    prims=[
        ("self.k", "k", "Z"),
        ("__p.n_unique_samples", "n_unique (rows {p})", "Z"),     # Plate.n_unique_samples = len(np.unique(sample_ids))
        ("__p.sample_ids[0]", "sample_of {p}", "Z"),              # first row's sample id
        ("defaultdict(int)", "[]", "dict"),
        ("set()", "[]", "set"),
    ],
    raises=[("KPerSampleBatcher only works if all plates", 1)],
)

C17_SAMPLE = dict(
    file="src/batchie/sampling.py", func="sample",
    out="SrcSampling.v", imports="Model.Sampling", name="src_sample",
    pyparams=["model", "results", "seed", "n_chains", "chain_index", "n_burnin", "thin", "progress_bar"],
    # kind: which class the model object is an instance of (0 MCMCModel, 1 VIModel, other neither);
    # n_thetas = results.n_thetas; w = (calls so far, len(results.thetas)); returned = len(model.sample(...))
    params=[("kind", "Z"), ("seed", "Z"), ("n_chains", "opt Z"), ("chain_index", "opt Z"), ("n_burnin", "opt Z"),
            ("thin", "opt Z"), ("n_thetas", "Z"), ("w", "world"), ("returned", "nat")],
    returns="world",
    vars={"seeds": "seeds", "rng": "rngkey", "total_steps": "Z", "step_index": "Z", "samples": "list theta", "theta": "theta"},
    match_class={"model": {"MCMCModel": "kind =? 0", "VIModel": "kind =? 1"}},
    range_like=("range", "trange"),     # tqdm.trange(n, disable=...) iterates range(n)
    prims=[
        ("results.n_thetas", "n_thetas", "Z"),
        ("results", "w", "world"),
        ("numpy.random.SeedSequence(__s).spawn(__n)", "!spawn_seeds {s} {n}", "seeds", {"s": "Z", "n": "Z"}),
        ("numpy.random.default_rng(__q[__i])", "!rng_of_spawned {q} {i}", "rngkey", {"q": "seeds", "i": "Z"}),
        ("numpy.random.default_rng(__s)", "!rng_of_seed {s}", "rngkey", {"s": "Z"}),
    ],
    effects=[
        ("model.reset_model()", "w", "emit {state} Reset"),
        ("model.set_rng(__r)", "w", "emit {state} (SetRng (fst {r}) (snd {r}))"),
        ("model.step()", "w", "emit {state} Step"),
        ("results.add_theta(model.get_model_state())", "w", "!add_theta n_thetas {state}"),
        ("results.add_theta(__t)", "w", "!add_theta n_thetas {state}"),
    ],
    effect_calls=[
        ("model.sample(num_samples=__n)", "w", "emit {state} (SampleVI {n})", "vi_samples returned", "list theta"),
    ],
    ignore=["logger.info(__a)"],
    raises=[("n_chains must be set", 5), ("chain_index must be set", 5), ("n_burnin must be set", 5),
            ("thin must be set", 5), ("model must be one of", 6)],
)

# ---- C10: batchie.core.ThetaHolder.  A holder object is a value (class id, attribute values) of type pyobj (Model/Thetas.v).
_OBJ, _THETA = "(pyobj P S)", "(theta P S)"
_C10 = dict(
    file="src/batchie/core.py", cls="ThetaHolder", out="SrcThetas.v", imports="Model.Thetas",
    # the two instance attributes (set in __init__) are the two fields of the model's holder
    fields={"thetas": (_OBJ, "list " + _THETA, "attr_thetas {obj}", "set_attr_thetas {obj} {val}"),
            "_n_thetas": (_OBJ, "Z", "attr_n_thetas {obj}", "set_attr_n_thetas {obj} {val}")},
)
_LEN = ("len(__l)", "Z.of_nat (length {l})", "Z")
# property access h.n_thetas runs the translated property ThetaHolder.n_thetas
_N_THETAS = ("__h.n_thetas", "!src_n_thetas P S {h}", "Z", {"h": _OBJ})
# ThetaHolder(n): a new instance of class 0 (ThetaHolder itself) initialised by the translated __init__
_NEW_HOLDER = "!src_init P S (py_blank 0) {n}"
_TYPE_NE = ("type(__a) != type(__b)", "negb (py_class {a} =? py_class {b})", "bool", {"a": _OBJ, "b": _OBJ})

C10_INIT = dict(
    _C10, func="__init__", name="src_init", pyparams=["self", "n_thetas"],     # (*args, **kwargs are not read)
    params=[("P", "Type"), ("S", "Type"), ("self", _OBJ), ("n_thetas", "Z")], returns=_OBJ, vars={},
    implicit_return="{self}",
)
C10_N_THETAS = dict(
    _C10, func="n_thetas", name="src_n_thetas", pyparams=["self"],
    params=[("P", "Type"), ("S", "Type"), ("self", _OBJ)], returns="Z", vars={},
)
C10_GET = dict(
    _C10, func="get_theta", name="src_get_theta", pyparams=["self", "step_index"],
    params=[("P", "Type"), ("S", "Type"), ("self", _OBJ), ("step_index", "Z")], returns=_THETA, vars={},
    prims=[_LEN, ("__l[__i]", "!list_get {l} {i}", _THETA, {"l": "list " + _THETA, "i": "Z"})],
    raises=[("step_index out of bounds", 2)],
)
C10_ADD = dict(
    _C10, func="add_theta", name="src_add_theta", pyparams=["self", "theta"],
    params=[("P", "Type"), ("S", "Type"), ("self", _OBJ), ("theta", _THETA)], returns=_OBJ, vars={},
    prims=[_LEN, _N_THETAS],
    raises=[("Cannot add more samples to the results object", 1)],
    implicit_return="{self}",
)
C10_IS_COMPLETE = dict(
    _C10, func="is_complete", name="src_is_complete", pyparams=["self"],
    params=[("P", "Type"), ("S", "Type"), ("self", _OBJ)], returns="bool", vars={},
    prims=[_LEN, _N_THETAS],
)
C10_COMBINE = dict(
    _C10, func="combine", name="src_combine", pyparams=["self", "other"],
    params=[("P", "Type"), ("S", "Type"), ("self", _OBJ), ("other", _OBJ)], returns=_OBJ,
    vars={"n_thetas": "Z", "result": _OBJ},
    prims=[_TYPE_NE, _N_THETAS,
           ("ThetaHolder(__n)", _NEW_HOLDER, _OBJ, {"n": "Z"})],
    raises=[("Cannot combine with different type", 6)],
)
C10_CONCAT = dict(
    _C10, func="concat", name="src_concat", pyparams=["cls", "instances"], unused_params=["cls"],
    params=[("P", "Type"), ("S", "Type"), ("instances", "list " + _OBJ)], returns=_OBJ,
    vars={"first": _OBJ, "instance": _OBJ},
    prims=[_LEN, _TYPE_NE,
           ("__l[1:]", "tl {l}", "list " + _OBJ, {"l": "list " + _OBJ}),
           ("__l[__i]", "!list_get {l} {i}", _OBJ, {"l": "list " + _OBJ, "i": "Z"}),
           # a.combine(b) runs the translated method ThetaHolder.combine
           ("__a.combine(__b)", "!src_combine P S {a} {b}", _OBJ, {"a": _OBJ, "b": _OBJ})],
    raises=[("Cannot concatenate an empty list of ThetaHolder", 3), ("Cannot concatenate different types of ThetaHolder", 7)],
)

_FILE = "(file P S)"
# "read an HDF5 group into a dict" (attributes first, then every dataset): the group's content IS that dict in the model
_READ_SHARED = """
shared_params = {}
shared_grp = __f['shared_params']
shared_params.update(shared_grp.attrs.items())
for key in shared_grp.keys():
    shared_params[key] = shared_grp[key][:]
"""
_READ_PRIVATE = """
private_params = {}
private_params.update(__g.attrs.items())
for key in __g.keys():
    private_params[key] = __g[key][:]
"""
C10_LOAD = dict(
    _C10, func="load_h5", name="src_load_h5", pyparams=["path"],
    params=[("P", "Type"), ("S", "Type"), ("h5", _FILE)], returns=_OBJ,     # h5 = what the file at `path` holds
    vars={"f": _FILE, "n_thetas": "Z", "result": _OBJ, "theta_class": "sample_class", "theta_module": "sample_class",
          "ThetaClass": "sample_class", "shared_params": "S", "private_grp": "(h5groups P)", "theta_keys": "list h5name",
          "theta_key": "h5name", "i_grp": "P", "private_params": "P", "theta": _THETA},
    contexts=[("h5py.File(path, 'r')", "h5", _FILE)],
    prims=[("__f.attrs['n_thetas']", "f_n {f}", "Z", {"f": _FILE}),
           ("__f.attrs['theta_class']", "tt", "sample_class", {"f": _FILE}),
           ("__f.attrs['theta_module']", "tt", "sample_class", {"f": _FILE}),
           ("getattr(importlib.import_module(__m), __c)", "tt", "sample_class", {"m": "sample_class", "c": "sample_class"}),
           ("ThetaHolder(n_thetas=__n)", _NEW_HOLDER, _OBJ, {"n": "Z"}),
           ("__f['private_params']", "f_groups {f}", "(h5groups P)", {"f": _FILE}),
           ("sorted(list(__g.keys()), key=int)", "sorted_by_int (group_names {g})", "list h5name", {"g": "(h5groups P)"}),
           ("__g[__k]", "!group_member {g} {k}", "P", {"g": "(h5groups P)", "k": "h5name"}),
           # from_dicts rebuilds the sample from its two dicts: a sample IS the pair in the model
           ("__c.from_dicts(private_params=__p, shared_params=__s)", "({p}, {s})", _THETA, {"c": "sample_class", "p": "P", "s": "S"})],
    stmt_prims=[(_READ_SHARED, "shared_params", "f_shared {f}", "S", {"f": _FILE}),
                (_READ_PRIVATE, "private_params", "{g}", "P", {"g": "P"})],
    # result.add_theta(t) runs the translated method add_theta on the local object
    effects=[("result.add_theta(__t)", "result'", "!src_add_theta P S {state} {t}")],
)

_H5W = "(h5w P S)"
# "write a dict into an HDF5 group" (arrays as datasets, scalars as attributes)
_WRITE_SHARED = """
shared_grp = f.create_group('shared_params')
for key, val in __d.items():
    if isinstance(val, ArrayType):
        shared_grp.create_dataset(key, data=val, compression='gzip')
    else:
        shared_grp.attrs.create(key, val)
"""
_WRITE_PRIVATE = """
i_grp = private_grp.create_group(str(__i))
private_params = __t.private_parameters_dict()
for key, val in private_params.items():
    if isinstance(val, ArrayType):
        i_grp.create_dataset(key, data=val, compression='gzip')
    else:
        i_grp.attrs.create(key, val)
"""
C10_SAVE = dict(
    _C10, func="save_h5", name="src_save_h5", pyparams=["self", "fn"],
    params=[("P", "Type"), ("S", "Type"), ("self", _OBJ)], returns=_H5W,       # returns what has been written to `fn`
    vars={"shared_params": "S", "theta_class": "sample_class", "theta_module": "sample_class", "f": _H5W,
          "private_grp": "h5handle", "i": "Z", "theta": _THETA},
    contexts=[("h5py.File(fn, 'w')", "h5_new", _H5W)],
    prims=[_LEN, _N_THETAS,
           ("__t.shared_parameters_dict()", "snd {t}", "S", {"t": _THETA}),     # a sample IS the pair (private, shared)
           ("__t.__class__.__name__", "tt", "sample_class", {"t": _THETA}),
           ("__t.__class__.__module__", "tt", "sample_class", {"t": _THETA}),
           ("__l[__i]", "!list_get {l} {i}", _THETA, {"l": "list " + _THETA, "i": "Z"})],
    effects=[("f.attrs.create('n_thetas', __v)", "f'", "h5_set_n {state} {v}"),
             ("f.attrs.create('theta_class', __c)", "f'", "{state}"),            # the sample class is not modelled
             ("f.attrs.create('theta_module', __c)", "f'", "{state}")],
    effect_calls=[("f.create_group('private_params')", "f'", "h5_create_private {state}", "tt", "h5handle")],
    # str(i) of a non-negative int is its decimal string; private_parameters_dict() is the first component of the pair
    stmt_prims=[(_WRITE_SHARED, "f", "h5_write_shared f' {d}", _H5W, {"d": "S"}),
                (_WRITE_PRIVATE, "f", "h5_add_group f' (key_of_index (Z.to_nat {i})) (fst {t})", _H5W, {"i": "Z", "t": _THETA})],
    globals=["isinstance", "ArrayType", "str"],
    raises=[("Cannot save an empty ThetaHolder", 4)],
    implicit_return="{f}",
)

# ---- scoring/main.py (C06 vocabulary: Model/Scores.v) ----
# Trusted per entry: one attribute / library call each.  A Plate object is Scores.plate (its id and the (position, row)
# pairs it selects), the Screen is the list of its rows, the ScoresHolder is Scores.holder, the policy an optional
# function (batch plates, candidates) -> plates.
_SCORING_PRIMS = [
    ("np.random.default_rng()", "fresh_rng", "rng_t"),
    ("screen.plates", "plates screen'", "list plate"),                 # [get_plate(x) for x in np.unique(plate_ids)]
    ("__p.plate_id", "p_id {p}", "Z", {"p": "plate"}),
    ("__p.is_observed", "is_observed {p}", "bool", {"p": "plate"}),   # np.all(observation_mask)
    ("sorted(__l, key=lambda p: p.plate_id)", "sorted_by_id {l}", "list plate", {"l": "list plate"}),   # stable
]

C06_SELECT = dict(
    file="src/batchie/scoring/main.py", func="select_next_plate",
    out="SrcScoring.v", imports="Model.Scores", name="src_select_next_plate",
    pyparams=["scores", "screen", "policy", "batch_plate_ids", "rng"],
    params=[("scores", "holder"), ("screen", "screen"), ("policy", "opt policy_t"), ("batch_plate_ids", "opt list Z"),
            ("rng", "opt rng_t")],
    returns="opt plate",
    vars={
        "rng": "rng_t", "batch_plate_ids": "list Z",       # narrowed by the `if x is None: x = default` idiom
        "plate": "plate", "batch_plates": "list plate", "unobserved_plates_not_already_selected": "list plate",
        "eligible_plates": "list plate", "eligible_plate_ids": "list Z", "best_plate_id": "Z", "best_plate": "plate",
        "best_plate_name": "nat",
    },
    prims=_SCORING_PRIMS + [
        # the policy object is its filter function; rng is handed on unread
        ("__f.filter_eligible_plates(batch_plates=__b, unobserved_plates=__u, rng=__r)", "{f} {b} {u}", "list plate",
         {"f": "policy_t", "b": "list plate", "u": "list plate", "r": "rng_t"}),
        ("scores.plate_id_with_minimum_score(__e)", "!min_plate scores' (Some {e})", "Z", {"e": "list Z"}),
        ("screen.get_plate(__i)", "get_plate screen' {i}", "plate", {"i": "Z"}),     # Plate(screen, plate_ids == i)
        ("__p.plate_name", "!plate_name {p}", "nat", {"p": "plate"}),
    ],
    ignore=["logger.warning(__a)", "logger.info(__a)"],
)

C06_SCORE_CHUNK = dict(
    file="src/batchie/scoring/main.py", func="score_chunk",
    out="SrcScoring.v", imports="Model.Scores", name="src_score_chunk",
    pyparams=["scorer", "thetas", "screen", "distance_matrix", "rng", "progress_bar", "n_chunks", "chunk_index", "batch_plate_ids"],
    # thetas, distance_matrix, progress_bar are only handed on to scorer.score, whose answer is an arbitrary function of the plates dict
    params=[("scorer", "scorer_fn"), ("screen", "screen"), ("rng", "opt rng_t"), ("n_chunks", "Z"), ("chunk_index", "Z"),
            ("batch_plate_ids", "opt list Z")],
    returns="holder",
    vars={
        "rng": "rng_t", "plate": "plate", "p": "plate",
        "unobserved_plates": "list plate", "chunk_plates": "list plate", "previously_selected_plates": "list plate",
        "previously_selected_plates_combined": "subset", "conditioned_plate": "subset", "plates_to_score": "dict subset",
        "scores_holder": "holder", "scores": "dict", "k": "Z", "v": "Z",
    },
    coerce=[("plate", "subset", "p_rows {x}")],        # a Plate is a ScreenSubset: its selection
    prims=_SCORING_PRIMS + [
        ("np.array_split(__l, __n)[__i].tolist()", "!array_split_at {l} {n} {i}", "list plate", {"l": "list plate", "n": "Z", "i": "Z"}),
        ("ScreenSubset.concat(__l)", "!subset_concat screen' {l}", "subset", {"l": "list subset"}),
        ("__p.combine(__q)", "subset_union screen' {p} {q}", "subset", {"p": "subset", "q": "subset"}),
        ("filter_dataset_to_unique_treatments(__x)", "uniq_first [] {x}", "subset", {"x": "subset"}),
        ("len(__d)", "Z.of_nat (length {d})", "Z"),
        ("ChunkedScoresHolder(__n)", "holder_new (Z.to_nat {n})", "holder", {"n": "Z"}),
        ("scorer.score(plates=__p, distance_matrix=distance_matrix, samples=thetas, rng=__r, progress_bar=progress_bar)",
         "scorer' {p}", "dict", {"p": "dict subset", "r": "rng_t"}),
    ],
    effects=[("scores_holder.add_score(__k, __v)", "scores_holder'", "!add_score {state} {k} {v}")],
    ignore=["logger.info(__a)"],
)

# ---- scoring/main.py select_next_plate once more, in the C16 vocabulary (Model/Policy.v): a Plate object is (id, sample ids),
# `observed` its is_observed attribute, the ScoresHolder the list of its (plate id, score key) slots, the policy object
# KPerSamplePlatePolicy(k) is k and its method the C16 model function (itself linked to the source by C16_model_is_source)
C16_SELECT = dict(
    file="src/batchie/scoring/main.py", func="select_next_plate",
    out="SrcScoringPolicy.v", imports="Model.Policy", name="src_select_next_plate_k",
    pyparams=["scores", "screen", "policy", "batch_plate_ids", "rng"],
    params=[("observed", "plate -> bool"), ("scores", "list (Z * Z)"), ("screen", "list plate"), ("policy", "opt Z"),
            ("batch_plate_ids", "opt list Z"), ("rng", "opt rng_t")],
    returns="opt plate",
    vars={
        "rng": "rng_t", "batch_plate_ids": "list Z",       # narrowed by the `if x is None: x = default` idiom
        "plate": "plate", "batch_plates": "list plate", "unobserved_plates_not_already_selected": "list plate",
        "eligible_plates": "list plate", "eligible_plate_ids": "list Z", "best_plate_id": "Z", "best_plate": "plate",
        "best_plate_name": "Z",
    },
    prims=[
        ("np.random.default_rng()", "fresh_rng", "rng_t"),
        ("screen.plates", "screen'", "list plate"),
        ("__p.plate_id", "plate_id {p}", "Z", {"p": "plate"}),
        ("__p.is_observed", "observed {p}", "bool", {"p": "plate"}),
        ("sorted(__l, key=lambda p: p.plate_id)", "sort_by_id {l}", "list plate", {"l": "list plate"}),   # stable
        ("__f.filter_eligible_plates(batch_plates=__b, unobserved_plates=__u, rng=__r)", "!filter_eligible {f} {b} {u}", "list plate",
         {"f": "Z", "b": "list plate", "u": "list plate", "r": "rng_t"}),
        ("scores.plate_id_with_minimum_score(__e)", "!min_score_id scores' {e}", "Z", {"e": "list Z"}),
        ("screen.get_plate(__i)", "get_plate screen' {i}", "plate", {"i": "Z"}),
        ("__p.plate_name", "!plate_name {p}", "Z", {"p": "plate"}),
    ],
    ignore=["logger.warning(__a)", "logger.info(__a)"],
)

# ---- ChunkedScoresHolder: the two numpy arrays are lists, `self` is (scores, plate_ids, current_index) ----
_HOLDER_ATTRS = {"self.scores": "scores", "self.plate_ids": "plate_ids", "self.current_index": "current_index"}
_HOLDER_STATE = [("scores", "list Z"), ("plate_ids", "list Z"), ("current_index", "Z")]

C06_ADD_SCORE = dict(
    file="src/batchie/scoring/main.py", cls="ChunkedScoresHolder", func="add_score",
    out="SrcScoring.v", imports="Model.Scores", name="src_add_score",
    pyparams=["self", "plate_id", "score"], attr_vars=_HOLDER_ATTRS,
    params=_HOLDER_STATE + [("plate_id", "Z"), ("score", "Z")],
    returns="(list Z * list Z * Z)", vars={}, prims=[],
    index_error=4,                                             # a[i] = v past the end
    implicit_return="({scores}, {plate_ids}, {current_index})",   # the state of self when the method ends
)

C06_COMBINE = dict(
    file="src/batchie/scoring/main.py", cls="ChunkedScoresHolder", func="combine",
    out="SrcScoring.v", imports="Model.Scores", name="src_combine",
    pyparams=["self", "other"],
    attr_vars=dict(_HOLDER_ATTRS, **{"other.scores": "other_scores", "other.plate_ids": "other_plate_ids"}),
    params=_HOLDER_STATE + [("other_scores", "list Z"), ("other_plate_ids", "list Z")],
    returns="(list Z * list Z * Z)", vars={"scores": "list Z", "plate_ids": "list Z"},
    prims=[
        ("np.concatenate((__a, __b))", "{a} ++ {b}", "list Z", {"a": "list Z", "b": "list Z"}),
        ("len(__a)", "Z.of_nat (length {a})", "Z"),
        ("self", "(scores', plate_ids', current_index')", "(list Z * list Z * Z)"),     # `return self`: its state at that point
    ],
)

C06_MIN_SCORE = dict(
    file="src/batchie/scoring/main.py", cls="ChunkedScoresHolder", func="plate_id_with_minimum_score",
    out="SrcScoring.v", imports="Model.Scores", name="src_plate_id_with_minimum_score",
    pyparams=["self", "eligible_plate_ids"], attr_vars=_HOLDER_ATTRS,
    params=[("scores", "list Z"), ("plate_ids", "list Z"), ("eligible_plate_ids", "opt list Z")],
    returns="Z", vars={"mask": "list bool"},
    prims=[
        ("__a[__i].item()", "!array_item {a} {i}", "Z", {"a": "list Z", "i": "Z"}),
        ("__a.argmin()", "!argmin_index {a}", "Z", {"a": "list Z"}),       # numpy: first minimum, ValueError on empty
        ("np.isin(__a, __l)", "isin {a} {l}", "list bool", {"a": "list Z", "l": "list Z"}),
        ("__a[__m]", "!mask_select {a} {m}", "list Z", {"a": "list Z", "m": "list bool"}),
    ],
)

C06_CONCAT = dict(
    file="src/batchie/scoring/main.py", cls="ChunkedScoresHolder", func="concat",
    out="SrcScoring.v", imports="Model.Scores", name="src_concat",
    pyparams=["cls", "scores_list"], params=[("scores_list", "list holder")],
    returns="holder", vars={"current": "holder", "scores": "holder"},
    prims=[
        ("__l[0]", "!list_head {l}", "holder", {"l": "list holder"}),
        ("__l[1:]", "tl {l}", "list holder", {"l": "list holder"}),
        ("__a.combine(__b)", "h_combine {a} {b}", "holder", {"a": "holder", "b": "holder"}),   # linked by C06_COMBINE
    ],
    raises=[("Must provide at least one ChunkedScoresHolder", 5)],
)

C07_LOWER_TRI = dict(
    file="src/batchie/distance_calculation.py", func="lower_triangular_indices",
    out="SrcChunks.v", imports="Model.Chunks", name="src_lower_triangular_indices",
    pyparams=["n"], params=[("n", "Z")], returns="list (Z * Z)", generator="(Z * Z)",
    vars={"i": "Z", "j": "Z"},
)

# C11 / C13: the wrappers of every retrospective generator / smoother (core.py).  `f` is the abstract method
# (self._generate_plates / self._smooth_plates): ANY function of the screen and the unread recorded answers `ds`.
_C11_WRAP = dict(
    file="src/batchie/core.py", out="SrcRetro.v", imports="Model.Encode Model.Screen Model.Retro",
    pyparams=["self", "screen", "rng"],
    params=[("f", "inner"), ("screen", "screen_t"), ("ds", "list draw")],
    returns="screen_t", return_state=["ds"],
    vars={"unobserved_subset": "opt subset_t", "observed_subset": "opt subset_t",
          "new_unobserved_subset": "screen_t", "combined_screen": "screen_t"},
    prims=[
        ("__s.subset_unobserved()", "subset_unobserved {s}", "opt subset_t", {"s": "screen_t"}),
        ("__s.subset_observed()", "subset_observed {s}", "opt subset_t", {"s": "screen_t"}),
        ("__s.to_screen()", "to_screen {s}", "screen_t", {"s": "subset_t"}),
        ("__a.combine(__b)", "!combine_screens {a} {b}", "screen_t", {"a": "screen_t", "b": "screen_t"}),
    ],
    ignore=["logger.warning(__a)"],
)
C11_GENERATE_PLATES = dict(
    _C11_WRAP, cls="RetrospectivePlateGenerator", func="generate_plates", name="src_generate_plates",
    state_calls=[("self._generate_plates(__s, rng)", ["ds"], "f {s} ds", "screen_t", {"s": "screen_t"})])
C11_SMOOTH_PLATES = dict(
    _C11_WRAP, cls="RetrospectivePlateSmoother", func="smooth_plates", name="src_smooth_plates",
    state_calls=[("self._smooth_plates(__s, rng)", ["ds"], "f {s} ds", "screen_t", {"s": "screen_t"})])

# MergeMinPlateSmoother (retrospective.py).  A Plate is its selection vector (`bvec`) into its parent screen `s`, which
# Plate.merge mutates in place: the parent of every plate the method handles is `current_screen` (they all come from
# current_screen.plates), so the primitives that read or write the parent name that variable.
C13_MERGEMIN_SAMPLE_ID = dict(
    file="src/batchie/retrospective.py", cls="MergeMinPlateSmoother", func="_get_plate_sample_id",
    out="SrcRetro.v", imports="Model.Encode Model.Screen Model.Retro", name="src_merge_min_get_plate_sample_id",
    pyparams=["self", "plate"], params=[("s", "screen_t"), ("plate", "bvec")], returns="name", vars={},
    prims=[
        ("__p.unique_sample_ids", "plate_unique_samples {p} s", "list name", {"p": "bvec"}),
        ("len(__l)", "zlen {l}", "Z"),
        ("__l[0]", "!first_item {l}", "name", {"l": "list name"}),
    ],
    raises=[("only valid for one-sample-per-plate designs", 4)],
)
C13_MERGEMIN = dict(
    file="src/batchie/retrospective.py", cls="MergeMinPlateSmoother", func="_smooth_plates",
    out="SrcRetro.v", imports="Model.Encode Model.Screen Model.Retro", name="src_merge_min_smooth_plates",
    pyparams=["self", "screen", "rng"], unused_params=["rng"],
    params=[("min_size", "Z"), ("screen", "screen_t"), ("ds", "list draw"), ("fuel", "nat")],
    returns="screen_t", return_state=["ds"], while_fuel="fuel",
    vars={"current_screen": "screen_t", "sample_id": "name", "plate_heap": "list bvec", "smallest_plate": "bvec",
          "second_smallest_plate": "bvec", "merged_plate": "bvec"},
    eqb={"name": "name_eqb"},
    prims=[
        ("self.min_size", "min_size", "Z"),
        ("__s.unique_sample_ids", "sample_names {s}", "list name", {"s": "screen_t"}),   # ids = ranks of the sorted names
        ("__s.plates", "plates_of {s}", "list bvec", {"s": "screen_t"}),
        ("self._get_plate_sample_id(__p)", "!src_merge_min_get_plate_sample_id current_screen' {p}", "name", {"p": "bvec"}),
        ("len(__l)", "zlen {l}", "Z"),
        ("__p.size", "plate_size {p}", "Z", {"p": "bvec"}),
    ],
    effects=[
        ("heapq.heapify(plate_heap)", "plate_heap'", "{state}"),                    # heap = the list of its items (see pop)
        ("heapq.heappush(plate_heap, __x)", "plate_heap'", "{state} ++ [{x}]"),
    ],
    # heapq.heappop: the recorded answer says which item came out; refused unless it is a smallest one (heapq's contract)
    state_calls=[("heapq.heappop(plate_heap)", ["plate_heap'", "ds"], "pop plate_heap' ds", "bvec")],
    # Plate.merge: relabels the union in the parent, returns the merged plate
    effect_calls=[("__b.merge(__a)", "current_screen'", "snd (merge {b} {a} {state})", "fst (merge {b} {a} {state})", "bvec")],
    ignore=["logger.info(__a)"],
)

# create_plate_balanced_holdout_set_among_masked_plates (retrospective.py).  The float `fraction` is the exact rational
# num/den (Model/RetroHoldout.v); it occurs in the source only inside the three primitives below.
_COLS = ("treatment_names=__s.treatment_names[{i}], treatment_doses=__s.treatment_doses[{i}], observations=__s.observations[{i}], "
         "sample_names=__s.sample_names[{i}], plate_names=__s.plate_names[{i}], control_treatment_name=__s.control_treatment_name, "
         "observation_mask={m}, treatment_mapping=__s.treatment_mapping, sample_mapping=__s.sample_mapping")
C11_BALANCED_HOLDOUT = dict(
    file="src/batchie/retrospective.py", func="create_plate_balanced_holdout_set_among_masked_plates",
    out="SrcRetro.v", imports="Model.Encode Model.Screen Model.Retro Model.RetroHoldout", name="src_balanced_holdout",
    pyparams=["screen", "fraction", "rng"],
    params=[("num", "Z"), ("den", "positive"), ("counts", "opt list Z"), ("screen", "screen_t"), ("ds", "list draw")],
    returns="(screen_t * screen_t)", return_state=["ds"],
    vars={"selection_vector": "bvec", "plate": "bvec", "plate_indices": "list nat", "n_sample": "Z",
          "downsampled_indices": "list nat", "keep_screen": "screen_t", "holdout_screen": "screen_t"},
    prims=[
        ("fraction < 0", "num <? 0", "bool"),
        ("fraction > 1", "Zpos den <? num", "bool"),
        ("np.zeros(__s.size, dtype=bool)", "repeat false (length {s})", "bvec", {"s": "screen_t"}),
        ("__s.plates", "plates_of {s}", "list bvec", {"s": "screen_t"}),
        ("np.arange(__s.size)[__p.selection_vector]", "vec_indices {p}", "list nat", {"s": "screen_t", "p": "bvec"}),
        ("__p.is_observed", "vec_observed {p} screen'", "bool", {"p": "bvec"}),       # the plates' parent is `screen`
        ("__p.size", "plate_size {p}", "Z", {"p": "bvec"}),
        ("Screen(" + _COLS.format(i="~__v", m="__s.observation_mask[~__v]") + ")", "!screen_without {s} {v}", "screen_t",
         {"s": "screen_t", "v": "bvec"}),
        ("Screen(" + _COLS.format(i="__v", m="np.ones(np.count_nonzero(__v), dtype=bool)") + ")", "!screen_observed_of {s} {v}",
         "screen_t", {"s": "screen_t", "v": "bvec"}),
    ],
    state_calls=[
        ("math.ceil(__n * fraction)", ["counts"], "ceil_count {n} num den counts", "Z", {"n": "Z"}),
        ("rng.choice(__a, __n, replace=False)", ["ds"], "choose {a} {n} ds", "list nat", {"a": "list nat", "n": "Z"}),
    ],
    assign_effects=[("selection_vector[__i] = True", "selection_vector'", "set_true (length screen') {state} {i}")],
    raises=[("fraction must be between 0 and 1", 5)],
)

# MergeTopBottomPlateSmoother (retrospective.py): same conventions as MergeMin; no random / heap answers are consumed.
C13_MERGETB_SAMPLE_ID = dict(C13_MERGEMIN_SAMPLE_ID, cls="MergeTopBottomPlateSmoother", name="src_merge_tb_get_plate_sample_id")
C13_MERGETB = dict(
    file="src/batchie/retrospective.py", cls="MergeTopBottomPlateSmoother", func="_smooth_plates",
    out="SrcRetro.v", imports="Model.Encode Model.Screen Model.Retro", name="src_merge_tb_smooth_plates",
    pyparams=["self", "screen", "rng"], unused_params=["rng"],
    params=[("n_iter", "Z"), ("screen", "screen_t")],
    returns="screen_t",
    vars={"current_screen": "screen_t", "sample_id": "name", "i": "Z", "plates": "list bvec", "halfway": "Z",
          "smaller_plate": "bvec", "bigger_plate": "bvec"},
    eqb={"name": "name_eqb"},
    prims=[
        ("self.n_iterations", "n_iter", "Z"),
        ("__s.unique_sample_ids", "sample_names {s}", "list name", {"s": "screen_t"}),
        ("__s.plates", "plates_of {s}", "list bvec", {"s": "screen_t"}),
        ("self._get_plate_sample_id(__p)", "!src_merge_tb_get_plate_sample_id current_screen' {p}", "name", {"p": "bvec"}),
        ("math.floor(len(__l) / 2)", "zlen {l} / 2", "Z"),               # floor of the true quotient = integer quotient
        ("len(__l)", "zlen {l}", "Z"),
        ("sorted(__l, key=lambda x: x.size)", "sort_sz {l}", "list bvec"),   # stable sort by size
        ("zip(__a, __b)", "combine {a} {b}", "list (bvec * bvec)", {"a": "list bvec", "b": "list bvec"}),
        ("list(reversed(__l))", "rev {l}", "list bvec", {"l": "list bvec"}),
        ("__l[:__n]", "firstn (Z.to_nat {n}) {l}", "list bvec", {"l": "list bvec", "n": "Z"}),
    ],
    effects=[("__b.merge(__a)", "current_screen'", "snd (merge {b} {a} {state})")],   # Plate.merge relabels in the parent
    ignore=["logger.info(__a)"],
)

ALL = [C16_FILTER, C17_SAMPLE, C07_LOWER_TRI,
       C10_INIT, C10_N_THETAS, C10_GET, C10_ADD, C10_IS_COMPLETE, C10_COMBINE, C10_CONCAT, C10_LOAD, C10_SAVE,
       C06_SELECT, C06_SCORE_CHUNK, C16_SELECT, C06_ADD_SCORE, C06_COMBINE, C06_MIN_SCORE, C06_CONCAT,
       C11_GENERATE_PLATES, C11_SMOOTH_PLATES, C13_MERGEMIN_SAMPLE_ID, C13_MERGEMIN, C11_BALANCED_HOLDOUT,
       C13_MERGETB_SAMPLE_ID, C13_MERGETB]

# ---- C14: data.py ScreenSubset / Plate and the view-producing methods of ScreenBase / Screen (vocabulary: Model/Views.v) ----
# A Screen object is `pyscreen` = (identity tag, contents); a ScreenSubset / Plate object is a `view` = its two instance
# attributes (fields below).  Array types: `list bool` = an array of dtype bool, `anyarray` = an array of unknown dtype
# (dtype is bool, truth values), `own_bools` = a bool array the function itself created (`.copy()`), the only type the
# in-place store `a[idx] = vals` is declared for (so dropping the copy is refused), `list T` / `(arr2 T)` = 1-d / 2-d per-row arrays.
_C14 = dict(file="src/batchie/data.py", out="SrcViews.v", imports="Model.Encode Model.Screen Model.Views", overload=True)
_VIEW_FIELDS = {"screen": ("view", "pyscreen", "view_screen {obj}", "set_view_screen {obj} {val}"),
                "selection_vector": ("view", "list bool", "v_sel {obj}", "set_view_sel {obj} {val}")}
_BOOL_COERCE = [("list bool", "anyarray", "(true, {x})"), ("own_bools", "list bool", "{x}"), ("own_bools", "anyarray", "(true, {x})")]
_IS_BOOL = ("np.issubdtype(__a.dtype, bool)", "fst {a}", "bool", {"a": "anyarray"})
_SAME_LEN_ARG = ("selection_vector.size", "Z.of_nat (length (snd selection_vector'))", "Z")      # 1-d: size = number of elements
_IS_NOT = ("__a is not __b", "negb (same_object {a} {b})", "bool", {"a": "pyscreen", "b": "pyscreen"})    # identity of Screen objects
_NOT = ("~__a", "map negb {a}", "list bool", {"a": "list bool"})
_OR = ("__a | __b", "bor_vec {a} {b}", "list bool", {"a": "list bool", "b": "list bool"})
# ScreenSubset(s, v) / Plate(s, v): a new instance initialised by the translated ScreenSubset.__init__ (Plate defines none: `inherits`)
_new_view = lambda cls: ("%s(__s, __v)" % cls, "!src_view_init blank_view {s} {v}", "view", {"s": "pyscreen", "v": "anyarray"})
_PLATE_IS_SUBSET = [("Plate", "ScreenSubset", ["__init__"])]
_T1 = ("list Z", "list bool", "list name", "list (list Z)")
_T2 = ("(arr2 name)", "(arr2 Z)")
_MASKED = [("__a[__m]", "select {m} {a}", t, {"a": t, "m": "list bool"}) for t in _T1] \
    + [("__a[__m]", "select2 {m} {a}", t, {"a": t, "m": "list bool"}) for t in _T2]                     # a[mask]: the rows where mask is True
_COPIES = [("__a.copy()", "{a}", t, {"a": t}) for t in _T1 + _T2]                                       # a copy has the same value
_PS = {"s": "pyscreen"}
_SCREEN_ATTRS = [      # the per-row arrays of a Screen object (its properties return the stored arrays)
    ("__s.plate_ids", "s_pids (snd {s})", "list Z", _PS), ("__s.sample_ids", "s_sids (snd {s})", "list Z", _PS),
    ("__s.treatment_ids", "s_tids (snd {s})", "list (list Z)", _PS),
    ("__s.sample_names", "map r_sample (s_rows (snd {s}))", "list name", _PS),
    ("__s.plate_names", "map r_plate (s_rows (snd {s}))", "list name", _PS),
    ("__s.treatment_names", "screen_treatment_names (snd {s})", "(arr2 name)", _PS),
    ("__s.treatment_doses", "screen_treatment_doses (snd {s})", "(arr2 Z)", _PS),
    ("__s.observations", "map r_obs (s_rows (snd {s}))", "list Z", _PS),
    ("__s.observation_mask", "screen_mask (snd {s})", "list bool", _PS),
    ("__s.control_treatment_name", "s_ctrl (snd {s})", "name", _PS),
    ("__s.treatment_mapping", "s_tmap (snd {s})", "tmapping", _PS), ("__s.sample_mapping", "s_smap (snd {s})", "nmapping", _PS),
    ("__s.plate_mapping", "s_pmap (snd {s})", "nmapping", _PS),
]
_SHAPE0 = ("__a.shape[0]", "Z.of_nat (length {a})", "Z", {"a": "list (list Z)"})      # rows of a 2-d id array

C14_SCREEN_SIZE = dict(          # ScreenBase.size on a Screen object
    _C14, cls="ScreenBase", func="size", name="src_screen_size", pyparams=["self"],
    params=[("self", "pyscreen")], returns="Z", vars={}, prims=_SCREEN_ATTRS + [_SHAPE0])
C14_VIEW_INIT = dict(
    _C14, cls="ScreenSubset", func="__init__", name="src_view_init", pyparams=["self", "screen", "selection_vector"],
    params=[("self", "view"), ("screen", "pyscreen"), ("selection_vector", "anyarray")], returns="view", vars={},
    # storing an array as the selection vector stores its values (it is of dtype bool where the store stands)
    fields={"screen": _VIEW_FIELDS["screen"],
            "selection_vector": ("view", "anyarray", "(true, v_sel {obj})", "set_view_sel {obj} (snd {val})")},
    prims=[_IS_BOOL, ("__a.shape[0]", "Z.of_nat (length (snd {a}))", "Z", {"a": "anyarray"}),
           ("screen.size", "!src_screen_size screen'", "Z")],
    raises=[("selection_vector must be bool", 21), ("selection_vector must have same number of rows", 22)],
    implicit_return="{self}")


def _view_attr(func, ret):
    return dict(_C14, cls="ScreenSubset", func=func, name="src_view_" + func, pyparams=["self"], params=[("self", "view")],
                returns=ret, vars={}, fields=_VIEW_FIELDS, prims=_SCREEN_ATTRS + _MASKED)


C14_VIEW_ATTRS = [_view_attr(f, t) for f, t in [
    ("plate_ids", "list Z"), ("sample_ids", "list Z"), ("treatment_ids", "list (list Z)"), ("sample_names", "list name"),
    ("treatment_names", "(arr2 name)"), ("treatment_doses", "(arr2 Z)"), ("observations", "list Z"), ("observation_mask", "list bool"),
    ("control_treatment_name", "name"), ("treatment_mapping", "tmapping"), ("sample_mapping", "nmapping"), ("plate_mapping", "nmapping")]]
C14_VIEW_STE = dict(
    _C14, cls="ScreenSubset", func="single_treatment_effects", name="src_view_single_treatment_effects", pyparams=["self"],
    # ste = the value of the parent's computed property (None when it cannot be built); E = its row type
    params=[("E", "Type"), ("self", "view"), ("ste", "opt list E")], returns="opt list E", vars={}, fields=_VIEW_FIELDS,
    prims=[("__s.single_treatment_effects", "ste", "opt list E", _PS),
           ("__a[__m]", "select {m} {a}", "list E", {"a": "list E", "m": "list bool"})])
C14_VIEW_SIZE = dict(            # ScreenBase.size on a ScreenSubset object
    _C14, cls="ScreenBase", func="size", name="src_view_size", pyparams=["self"],
    params=[("self", "view")], returns="Z", vars={},
    prims=[("self.treatment_ids", "!src_view_treatment_ids self'", "list (list Z)"), _SHAPE0])
C14_VIEW_SUBSET = dict(
    _C14, cls="ScreenSubset", func="subset", name="src_view_subset", pyparams=["self", "selection_vector"],
    params=[("self", "view"), ("selection_vector", "anyarray")], returns="view",
    vars={"original_selection_vector": "own_bools", "indexes": "list nat"}, fields=_VIEW_FIELDS, coerce=_BOOL_COERCE,
    prims=[_IS_BOOL, _SAME_LEN_ARG, ("self.size", "!src_view_size self'", "Z"),
           ("__a.copy()", "{a}", "own_bools", {"a": "list bool"}),
           ("np.where(__a)[0]", "np_where {a}", "list nat", {"a": "list bool"}),
           _new_view("ScreenSubset")],
    # a[idx] = vals on an array the function owns: one write per index, in order
    stmt_prims=[("original_selection_vector[__i] = __v", "original_selection_vector",
                 "scatter original_selection_vector' {i} (snd {v})", "own_bools", {"i": "list nat", "v": "anyarray"})],
    raises=[("selection_vector must be bool", 21), ("selection_vector must have same length as dataset", 22)])
C14_VIEW_INVERT = dict(
    _C14, cls="ScreenSubset", func="invert", name="src_view_invert", pyparams=["self"], params=[("self", "view")], returns="view",
    vars={}, fields=_VIEW_FIELDS, coerce=_BOOL_COERCE, inherits=_PLATE_IS_SUBSET, prims=[_NOT, _new_view("Plate")])
C14_VIEW_COMBINE = dict(
    _C14, cls="ScreenSubset", func="combine", name="src_view_combine", pyparams=["self", "other"],
    params=[("self", "view"), ("other", "view")], returns="view", vars={}, fields=_VIEW_FIELDS, coerce=_BOOL_COERCE,
    inherits=_PLATE_IS_SUBSET, prims=[_IS_NOT, _OR, _new_view("Plate")],
    raises=[("Cannot combine two subsets of different datasets", 23)])
C14_VIEW_CONCAT = dict(
    _C14, cls="ScreenSubset", func="concat", name="src_view_concat", pyparams=["cls", "screen_subsets"], unused_params=["cls"],
    params=[("screen_subsets", "list view")], returns="view",
    vars={"selection_vector": "opt list bool", "screen_subset": "view"}, fields=_VIEW_FIELDS, inherits=_PLATE_IS_SUBSET,
    prims=[("len(__l)", "Z.of_nat (length {l})", "Z", {"l": "list view"}),
           ("__l[0]", "!list_get {l} (0)", "view", {"l": "list view"}), _IS_NOT, _OR,
           # the accumulated vector is an `|` of bool arrays (or one of them): dtype bool
           ("Plate(__s, __v)", "!src_view_init blank_view {s} (true, {v})", "view", {"s": "pyscreen", "v": "list bool"})],
    raises=[("Cannot concat empty list", 24), ("Cannot concat subsets of different screens", 23)])
C14_TO_SCREEN = dict(
    _C14, cls="ScreenSubset", func="to_screen", name="src_to_screen", pyparams=["self"], params=[("self", "view")],
    returns="screen", vars={}, fields=_VIEW_FIELDS,
    prims=_SCREEN_ATTRS + _MASKED + _COPIES + [
        # the constructor call with exactly these keyword arguments (any other set of keywords does not match)
        ("Screen(treatment_names=__tn, treatment_doses=__td, observations=__o, observation_mask=__m, sample_names=__sn, "
         "plate_names=__pn, control_treatment_name=__c)", "!screen_of_arrays {tn} {td} {o} {m} {sn} {pn} {c}", "screen",
         {"tn": "(arr2 name)", "td": "(arr2 Z)", "o": "list Z", "m": "list bool", "sn": "list name", "pn": "list name", "c": "name"})])
_SELF_MASK = ("self.observation_mask", "screen_mask (snd self')", "list bool")       # Screen.observation_mask: a bool array
_ANY = ("np.any(__a)", "existsb (fun b => b) {a}", "bool", {"a": "list bool"})
C14_SCREEN_SUBSET = dict(
    _C14, cls="Screen", func="subset", name="src_screen_subset", pyparams=["self", "selection_vector"],
    params=[("self", "pyscreen"), ("selection_vector", "anyarray")], returns="view", vars={}, coerce=_BOOL_COERCE,
    prims=[_IS_BOOL, _SAME_LEN_ARG, ("self.size", "!src_screen_size self'", "Z"), _new_view("ScreenSubset")],
    raises=[("selection_vector must be bool", 21), ("selection_vector must have same length as dataset", 22)])
_SELF_SUBSET = ("self.subset(__m)", "!src_screen_subset self' {m}", "view", {"m": "anyarray"})
C14_SUBSET_UNOBSERVED = dict(
    _C14, cls="Screen", func="subset_unobserved", name="src_subset_unobserved", pyparams=["self"], params=[("self", "pyscreen")],
    returns="opt view", vars={}, coerce=_BOOL_COERCE, prims=[_SELF_MASK, _NOT, _ANY, _SELF_SUBSET],
    implicit_return="None")        # falling off the end of the function returns None
C14_SUBSET_OBSERVED = dict(C14_SUBSET_UNOBSERVED, func="subset_observed", name="src_subset_observed")
C14_UNIQUE_PLATE_IDS = dict(
    _C14, cls="ScreenBase", func="unique_plate_ids", name="src_unique_plate_ids", pyparams=["self"], params=[("self", "pyscreen")],
    returns="list Z", vars={},
    prims=_SCREEN_ATTRS + [("np.unique(__a)", "sort_uniq Z.compare {a}", "list Z", {"a": "list Z"})])     # sorted distinct values
C14_GET_PLATE = dict(
    _C14, cls="Screen", func="get_plate", name="src_get_plate", pyparams=["self", "plate_id"],
    params=[("self", "pyscreen"), ("plate_id", "Z")], returns="view", vars={}, coerce=_BOOL_COERCE, inherits=_PLATE_IS_SUBSET,
    prims=_SCREEN_ATTRS + [("__a == __v", "map (fun x => x =? {v}) {a}", "list bool", {"a": "list Z", "v": "Z"}), _new_view("Plate")])
C14_PLATES = dict(
    _C14, cls="Screen", func="plates", name="src_plates", pyparams=["self"], params=[("self", "pyscreen")],
    returns="list view", vars={},
    prims=[("self.unique_plate_ids", "!src_unique_plate_ids self'", "list Z"),
           ("self.get_plate(__x)", "!src_get_plate self' {x}", "view", {"x": "Z"})])

C14_ALL = [C14_SCREEN_SIZE, C14_VIEW_INIT] + C14_VIEW_ATTRS + [
    C14_VIEW_STE, C14_VIEW_SIZE, C14_VIEW_SUBSET, C14_VIEW_INVERT, C14_VIEW_COMBINE, C14_VIEW_CONCAT, C14_TO_SCREEN,
    C14_SCREEN_SUBSET, C14_SUBSET_UNOBSERVED, C14_SUBSET_OBSERVED, C14_UNIQUE_PLATE_IDS, C14_GET_PLATE, C14_PLATES]
ALL += C14_ALL

# ---- C12 / C03: the reveal lifecycle (vocabulary: end of Model/Reveal.v) ----
# A Screen object is Screen.screen; its array attributes are the columns of its rows (one entry per experiment).
# Trusted per entry: one attribute read / one numpy call each.
_SCREEN_ATTRS = [
    ("screen.treatment_names", "col_tnames screen'", "names2d"),
    ("screen.treatment_doses", "col_tdoses screen'", "doses2d"),
    ("screen.observations", "col_obs screen'", "list Z"),                # float64 bit patterns
    ("screen.sample_names", "col_samples screen'", "list name"),
    ("screen.plate_names", "col_plates screen'", "list name"),
    ("screen.control_treatment_name", "s_ctrl screen'", "name"),
    ("screen.observation_mask", "col_mask screen'", "list bool"),
    ("screen.treatment_mapping", "attr_tmap screen'", "tmap_t"),        # (mapping, its id array has an integer dtype = true)
    ("screen.sample_mapping", "attr_smap screen'", "smap_t"),
    ("screen.plate_ids", "s_pids screen'", "list Z"),
    ("screen.size", "screen_size screen'", "Z"),
]
_NUMPY = [
    ("np.isin(__a, __l)", "np_isin {a} {l}", "list bool", {"a": "list Z", "l": "list Z"}),
    ("__a[__m]", "select {m} {a}", "list Z", {"a": "list Z", "m": "list bool"}),          # boolean-mask indexing
    ("__x == 0", "np_eq_zero {x}", "list bool", {"x": "list Z"}),                           # elementwise, on floats
    ("np.isnan(__x)", "np_isnan {x}", "list bool", {"x": "list Z"}),
    ("np.all(__b)", "np_all {b}", "bool", {"b": "list bool"}),
    ("np.any(__b)", "np_any {b}", "bool", {"b": "list bool"}),
    ("__a | __b", "np_or {a} {b}", "list bool", {"a": "list bool", "b": "list bool"}),
    ("np.zeros(__n, dtype=bool)", "np_full false {n}", "list bool", {"n": "Z"}),
    ("np.ones(__n, dtype=bool)", "np_full true {n}", "list bool", {"n": "Z"}),
]
# Screen(...): the model's constructor applied to the keyword arguments THE CALL SITE passes (py2gal kwcalls); a parameter
# that is not passed takes the default of Screen.__init__'s signature (None; control_treatment_name: "")
_SCREEN_CALL = {"Screen": (
    "!py_screen {treatment_names} {treatment_doses} {sample_names} {plate_names} {observations} {observation_mask} "
    "{control_treatment_name} {treatment_mapping} {sample_mapping}", "screen",
    [("treatment_names", "names2d", None), ("treatment_doses", "doses2d", None),
     ("sample_names", "list name", None), ("plate_names", "list name", None),
     ("observations", "opt list Z", "None"), ("observation_mask", "opt list bool", "None"),
     ("control_treatment_name", "opt name", "None"),
     ("treatment_mapping", "opt tmap_t", "None"), ("sample_mapping", "opt smap_t", "None")])}
_C12 = dict(file="src/batchie/retrospective.py", out="SrcReveal.v", imports="Model.Encode Model.Screen Model.Reveal",
            prims=_SCREEN_ATTRS + _NUMPY, kwcalls=_SCREEN_CALL)

C12_REVEAL = dict(
    _C12, func="reveal_plates", name="src_reveal_plates", pyparams=["screen", "plate_ids"],
    params=[("screen", "screen"), ("plate_ids", "list Z")], returns="screen",
    vars={"reveal_mask": "list bool", "revealed_values": "list Z"},
    raises=[("All revealed observations were 0", 8), ("NaN found in revealed observations", 9)],
)
C12_MASK = dict(
    _C12, func="mask_screen", name="src_mask_screen", pyparams=["screen"],
    params=[("screen", "screen")], returns="screen", vars={},
)
C12_UNMASK = dict(
    _C12, func="unmask_screen", name="src_unmask_screen", pyparams=["screen"],
    params=[("screen", "screen")], returns="screen", vars={},
)

ALL += [C12_REVEAL, C12_MASK, C12_UNMASK]

# Screen.set_observed: `self` is the pair of the two arrays the method writes (no other attribute is assigned)
C12_SET_OBSERVED = dict(
    file="src/batchie/data.py", cls="Screen", func="set_observed", out="SrcReveal.v",
    imports="Model.Encode Model.Screen Model.Reveal", name="src_set_observed",
    pyparams=["self", "selection_mask", "observations"],
    attr_vars={"self._observations": "self_observations", "self._observation_mask": "self_observation_mask"},
    params=[("self_observations", "list Z"), ("self_observation_mask", "list bool"),
            ("selection_mask", "list bool"), ("observations", "list Z")],
    returns="(list Z * list bool)", vars={},
    # the dtype guards: a `list bool` IS a bool array, a list of float64 bit patterns IS a float array
    prims=[("np.issubdtype(selection_mask.dtype, bool)", "true", "bool"),
           ("np.issubdtype(observations.dtype, FloatingPointType)", "true", "bool")],
    raises=[("selection_mask must be bool", 12), ("observations must be float", 13)],
    mask_store={"array": "np_mask_assign {a} {m} {v}", "scalar": "np_mask_fill {a} {m} {v}"},
    implicit_return="({self_observations}, {self_observation_mask})",     # the two arrays when the method ends
)
ALL += [C12_SET_OBSERVED]

# Screen.__init__: the two runs of top-level statements that decide observations / observation_mask (py2gal body_slice).
# The rest of __init__ (shape and dtype checks of the other arrays, the id encoders = C01, the attribute stores) is not
# translated here.  pydefaults: the defaults _SCREEN_CALL gives to arguments a call site does not pass.
_INIT = dict(
    file="src/batchie/data.py", cls="Screen", func="__init__", out="SrcReveal.v", imports="Model.Encode Model.Screen Model.Reveal",
    pyparams=["self", "treatment_names", "treatment_doses", "sample_names", "plate_names", "observations", "observation_mask",
              "control_treatment_name", "treatment_mapping", "sample_mapping"],
    pydefaults=["None", "None", "''", "None", "None"],
)
C12_INIT_OBS = dict(
    _INIT, name="src_init_observations",
    body_slice=("if observations is None and observation_mask is not None:", "if observations is not None:"),
    live_vars=["n_experiment_dimension"],                      # = treatment_names.shape[0]
    params=[("observations", "opt list Z"), ("observation_mask", "opt list bool"), ("n_experiment_dimension", "Z")],
    returns="(list Z * list bool)",
    vars={"observations": "list Z", "observation_mask": "list bool"},     # what they are once defaulted
    narrow_none=True,
    prims=[("__a.shape != (__n,)", "negb (Z.of_nat (length {a}) =? {n})", "bool", {"a": "list Z", "n": "Z"}),
           ("np.issubdtype(observations.dtype, FloatingPointType)", "true", "bool"),      # bit patterns ARE floats
           ("np.ones((__n,), dtype=bool)", "np_full true {n}", "list bool", {"n": "Z"}),
           ("np.zeros((__n,), dtype=bool)", "np_full false {n}", "list bool", {"n": "Z"}),
           ("np.zeros((__n,), dtype=FloatingPointType)", "np_full 0 {n}", "list Z", {"n": "Z"})],     # +0.0 has bit pattern 0
    raises=[("observation_mask cannot be provided without observations", 7),
            ("Expected observations to have shape", 14), ("observations must be floats", 13)],
    implicit_return="({observations}, {observation_mask})",
)
C12_INIT_PLATES = dict(
    _INIT, name="src_init_plate_check",
    body_slice=("plate_names_unique = np.unique(plate_names)", "for plate_name in plate_names_unique:"),
    params=[("plate_names", "list name"), ("observation_mask", "list bool")],      # the mask as the first run left it
    returns="unit",
    vars={"plate_names_unique": "list name", "plate_name": "name", "plate_mask": "list bool"},
    prims=[("np.unique(__a)", "sort_uniq name_cmp {a}", "list name", {"a": "list name"}),       # sorted, duplicate-free
           ("plate_names == plate_name", "np_eq_name plate_names' plate_name'", "list bool"),
           ("__a[0]", "!list_get {a} 0", "bool", {"a": "list bool"}),                            # IndexError on an empty array
           ("__a[__m]", "select {m} {a}", "list bool", {"a": "list bool", "m": "list bool"}),
           ("__a == __b", "np_eq_bool {a} {b}", "list bool", {"a": "list bool", "b": "bool"}),
           ("np.all(__b)", "np_all {b}", "bool", {"b": "list bool"})],
    raises=[("has a mixture of observed and not observed outcomes", 2)],
    implicit_return="tt",
)
ALL += [C12_INIT_OBS, C12_INIT_PLATES]

# ---- C04: what the sparse-combo models are trained on (vocabulary: Model/Train.v, its last part) ----
# `data` (a ScreenBase) is the list of its rows at id level (Train.trow); each 1-d array attribute is that column of the
# rows.  Observations are Train.oval (exact rational | NaN | +-inf).  The wrapped legacy sampler object is Train.legacy
# (its four Python lists and three defaultdict(list) index dictionaries).  Trusted per entry: one attribute read / one
# numpy / scipy call each; float32 rounding and logit on (0,1) are the parameters r32 / orc of the model.
_C04 = dict(out="SrcTrain.v", imports="Lib.Num Generated.Consts Model.Train", typed_targets=True)
_C04_ROWS = [
    ("data.observations", "map t_obs data'", "list oval"),
    ("data.treatment_ids", "map t_treats data'", "list (list Z)"),
    ("data.sample_ids", "map t_sample data'", "list Z"),
    ("data.observation_mask", "map t_mask data'", "list bool"),
]
_C04_NUMPY = [
    ("__b.all()", "all_true {b}", "bool", {"b": "list bool"}),
    ("__b.any()", "any_true {b}", "bool", {"b": "list bool"}),
    ("__a >= 0.0", "map o_nonneg {a}", "list bool", {"a": "list oval"}),                   # elementwise; NaN >= 0 is False
    ("__a.astype(np.float32)", "map (cast32 r32) {a}", "list oval", {"a": "list oval"}),
    ("logit(__a)", "map (ologit orc) {a}", "list oval", {"a": "list oval"}),              # scipy.special.logit, elementwise
    ("np.isnan(__a)", "map o_isnan {a}", "list bool", {"a": "list oval"}),
]

# BayesianModel.add_observations, for ANY model class: `inner` is the abstract method self._add_observations
C04_ADD_OBSERVATIONS = dict(
    _C04, file="src/batchie/core.py", cls="BayesianModel", func="add_observations", name="src_add_observations",
    pyparams=["self", "data"],
    params=[("S", "Type"), ("inner", "S -> list trow -> result S"), ("self", "S"), ("data", "list trow")],
    returns="S", vars={},
    prims=_C04_ROWS + _C04_NUMPY,
    effects=[("self._add_observations(__d)", "self'", "!inner {state} {d}")],
    raises=[("Cannot add data with masked observations", 1)],
    implicit_return="{self}",       # the method mutates self: it denotes the new self
)

# LegacySparseDrugComboImpl / LegacySparseDrugComboInteractionImpl: n_obs and _update (the same text in both classes)
_LEGACY_FIELDS = {
    "y": ("legacy", "list oval", "lg_y {obj}", "set_lg_y {obj} {val}"),
    "cline": ("legacy", "list Z", "lg_cline {obj}", "set_lg_cline {obj} {val}"),
    "dd1": ("legacy", "list Z", "lg_dd1 {obj}", "set_lg_dd1 {obj} {val}"),
    "dd2": ("legacy", "list Z", "lg_dd2 {obj}", "set_lg_dd2 {obj} {val}"),
    "cline_idxs": ("legacy", "dict list Z", "lg_cline_idxs {obj}", "set_lg_cline_idxs {obj} {val}"),
    "dd1_idxs": ("legacy", "dict list Z", "lg_dd1_idxs {obj}", "set_lg_dd1_idxs {obj} {val}"),
    "dd2_idxs": ("legacy", "dict list Z", "lg_dd2_idxs {obj}", "set_lg_dd2_idxs {obj} {val}"),
}


def _legacy(file, cls, tag):
    n_obs = dict(_C04, file=file, cls=cls, func="n_obs", name="src_%s_n_obs" % tag, pyparams=["self"],
                 params=[("self", "legacy")], returns="Z", vars={}, fields=_LEGACY_FIELDS,
                 prims=[("len(__l)", "Z.of_nat (length {l})", "Z")])
    update = dict(_C04, file=file, cls=cls, func="_update", name="src_%s_update" % tag,
                  pyparams=["self", "y", "cl", "dd1", "dd2"],
                  params=[("self", "legacy"), ("y", "oval"), ("cl", "Z"), ("dd1", "Z"), ("dd2", "Z")],
                  returns="legacy", vars={"n": "Z"}, fields=_LEGACY_FIELDS,
                  defaultdict_list=["cline_idxs", "dd1_idxs", "dd2_idxs"],      # created as defaultdict(list) in __init__
                  prims=[("self.n_obs()", "!src_%s_n_obs self'" % tag, "Z")],   # runs the translated n_obs
                  implicit_return="{self}")
    return [n_obs, update]


C04_LEGACY = _legacy("src/batchie/models/sparse_combo.py", "LegacySparseDrugComboImpl", "legacy")
C04_LEGACY_INT = _legacy("src/batchie/models/sparse_combo_interaction.py", "LegacySparseDrugComboInteractionImpl", "legacy_int")

# SparseDrugCombo._add_observations; self.wrapped_model._update(...) runs the translated _update
C04_SDC_ADD = dict(
    _C04, file="src/batchie/models/sparse_combo.py", cls="SparseDrugCombo", func="_add_observations",
    name="src_sdc_add_observations", pyparams=["self", "data"],
    attr_vars={"self.wrapped_model": "wrapped_model"},
    params=[("orc", "oracle"), ("r32", "cast_fn"), ("wrapped_model", "legacy"), ("data", "list trow")],
    returns="legacy",
    vars={"observations_transformed": "list oval", "y": "oval", "dd": "list Z", "cl": "Z", "mask": "bool"},
    float_literals=("q_of_pair ({n}, {d})", "Qc"),      # the clip bounds, read from the call
    prims=_C04_ROWS + _C04_NUMPY + [
        ("np.clip(__a, a_min=__lo, a_max=__hi)", "map (oclip_at {lo} {hi}) {a}", "list oval", {"a": "list oval", "lo": "Qc", "hi": "Qc"}),
        ("zip(__a, __b, __c, __d)", "zip4 {a} {b} {c} {d}", "list (oval * list Z * Z * bool)",
         {"a": "list oval", "b": "list (list Z)", "c": "list Z", "d": "list bool"}),
        ("__l[__i]", "!id_at {l} {i}", "Z", {"l": "list Z", "i": "Z"}),          # dd[0], dd[1]: IndexError = tag 4
    ],
    effects=[("wrapped_model._update(y=__y, cl=__c, dd1=__a, dd2=__b)", "wrapped_model'", "!src_legacy_update {state} {y} {c} {a} {b}")],
    raises=[("Observations should be non-negative", 2), ("NaNs in observations", 3)],
    implicit_return="{wrapped_model}",
)

ALL += [C04_ADD_OBSERVATIONS] + C04_LEGACY + C04_LEGACY_INT + [C04_SDC_ADD]

# create_single_treatment_effect_map (data.py), generic in the observation type O (C04: Train.oval with one = 1.0 and
# mean = np.mean): treatment_ids is (arity = shape[1], list of rows); the result dict keyed by (sample id, treatment id)
# is an insertion-ordered association list
_LK = "list ((Z * Z) * O)"
_MASK_SELECT = [("__a[__m]", "select {m} {a}", t, {"a": t, "m": "list bool"}) for t in ("list O", "list Z", "list bool")]
C04_SINGLE_EFFECT_MAP = dict(
    _C04, imports="Lib.Num Generated.Consts Model.Encode Model.Train",
    file="src/batchie/data.py", func="create_single_treatment_effect_map", name="src_create_single_treatment_effect_map",
    pyparams=["sample_ids", "treatment_ids", "observation"],
    params=[("O", "Type"), ("one", "O"), ("mean", "list O -> O"), ("arity", "nat"),
            ("sample_ids", "list Z"), ("treatment_ids", "list (list Z)"), ("observation", "list O")],
    returns=_LK,
    vars={"single_treatment_mask": "list bool", "single_treatment_observations": "list O",
          "single_treatment_treatments": "list Z", "single_treatment_sample_ids": "list Z", "result": _LK,
          "current_sample_id": "Z", "current_treatment_id": "Z", "mask": "list bool", "single_effect": "O"},
    overload=True,
    prims=[
        ("treatment_ids.shape[1]", "Z.of_nat arity", "Z"),
        ("CONTROL_SENTINEL_VALUE", "CONTROL_SENTINEL_VALUE", "Z"),                   # Generated/Consts.v, re-read from the source
        ("np.sum(__a == CONTROL_SENTINEL_VALUE, axis=1)", "ctrl_counts {a}", "list Z", {"a": "list (list Z)"}),
        ("__a == __v", "eq_vec {a} {v}", "list bool", {"a": "list Z", "v": "Z"}),      # elementwise
        ("__a == __v", "{a} =? {v}", "bool", {"a": "Z", "v": "Z"}),
        ("__a[__m, :]", "select {m} {a}", "list (list Z)", {"a": "list (list Z)", "m": "list bool"}),
        ("np.sort(__x, axis=1)[:, -1]", "row_maxima {x}", "list Z", {"x": "list (list Z)"}),
    ] + _MASK_SELECT + [
        ("np.unique(__a)", "sort_uniq Z.compare {a}", "list Z", {"a": "list Z"}),      # sorted distinct values
        ("__a.flatten()", "concat {a}", "list Z", {"a": "list (list Z)"}),
        ("__a & __b", "and_vec {a} {b}", "list bool", {"a": "list bool", "b": "list bool"}),
        ("np.any(__m)", "any_true {m}", "bool", {"m": "list bool"}),
        ("np.mean(__a)", "mean {a}", "O", {"a": "list O"}),
    ],
    assign_effects=[("result[(__s, __t)] = 1.0", "result'", "dict2_set {state} ({s}, {t}) one"),
                    ("result[(__s, __t)] = __v", "result'", "dict2_set {state} ({s}, {t}) {v}")],
    raises=[("Experiment must have more than one treatment", 4)],
)

# SparseDrugComboInteraction._add_observations: self = (single_effect_lookup, wrapped_model); arity = data.treatment_arity
C04_INT_ADD = dict(
    _C04, imports="Lib.Num Generated.Consts Model.Encode Model.Train",
    file="src/batchie/models/sparse_combo_interaction.py", cls="SparseDrugComboInteraction", func="_add_observations",
    name="src_int_add_observations", pyparams=["self", "data"],
    attr_vars={"self.wrapped_model": "wrapped_model", "self.single_effect_lookup": "single_effect_lookup"},
    params=[("orc", "oracle"), ("r32", "cast_fn"), ("arity", "nat"), ("single_effect_lookup", "list (lkey * oval)"),
            ("wrapped_model", "legacy"), ("data", "list trow")],
    returns="(list (lkey * oval) * legacy)",
    vars={"combo_mask": "list bool", "obs": "list oval", "cls": "list Z", "dd1s": "list Z", "dd2s": "list Z", "masks": "list bool",
          "observations_transformed": "list oval", "y": "oval", "dd1": "Z", "dd2": "Z", "cl": "Z", "mask": "bool"},
    overload=True,
    prims=_C04_ROWS + _C04_NUMPY + [
        ("data.treatment_arity", "Z.of_nat arity", "Z"),                               # treatment_ids.shape[1]
        # runs the translated create_single_treatment_effect_map at O = oval
        ("create_single_treatment_effect_map(sample_ids=__s, treatment_ids=__t, observation=__o)",
         "!src_create_single_treatment_effect_map oval oone omean arity {s} {t} {o}", "list (lkey * oval)",
         {"s": "list Z", "t": "list (list Z)", "o": "list oval"}),
        ("np.sum(__a == CONTROL_SENTINEL_VALUE, axis=1)", "ctrl_counts {a}", "list Z", {"a": "list (list Z)"}),
        ("__c == 0", "eq_vec {c} 0", "list bool", {"c": "list Z"}),
        ("__a[__m, 0]", "column 0 (select {m} {a})", "list Z", {"a": "list (list Z)", "m": "list bool"}),
        ("__a[__m, 1]", "column 1 (select {m} {a})", "list Z", {"a": "list (list Z)", "m": "list bool"}),
    ] + [("__a[__m]", "select {m} {a}", t, {"a": t, "m": "list bool"}) for t in ("list oval", "list Z", "list bool")] + [
        ("zip(__a, __b, __c, __d, __e)", "zip5 {a} {b} {c} {d} {e}", "list (oval * Z * Z * Z * bool)",
         {"a": "list oval", "b": "list Z", "c": "list Z", "d": "list Z", "e": "list bool"}),
    ],
    effects=[("single_effect_lookup.update(__m)", "single_effect_lookup'", "lk_update {state} {m}"),      # dict.update
             ("wrapped_model._update(y=__y, cl=__c, dd1=__a, dd2=__b)", "wrapped_model'", "!src_legacy_int_update {state} {y} {c} {a} {b}")],
    raises=[("only works with two-treatments combination datasets", 4), ("Observations should be non-negative", 2),
            ("NaNs in observations", 3)],
    implicit_return="({single_effect_lookup}, {wrapped_model})",
)

ALL += [C04_SINGLE_EFFECT_MAP, C04_INT_ADD]
