"""Configurations of the whole-function translations (harness/py2gal.py) written into
coq/theories/Generated/ on every run by gen_consts.py.  One entry per translated function."""

C16_FILTER = dict(
    file="src/batchie/policies/k_per_sample.py", cls="KPerSamplePlatePolicy", func="filter_eligible_plates",
    out="SrcPolicy.v", imports="Model.Policy", name="src_filter_eligible_plates",
    pyparams=["self", "batch_plates", "unobserved_plates", "rng"], unused_params=["rng"],
    params=[("k", "Z"), ("batch_plates", "list plate"), ("unobserved_plates", "list plate")],
    returns="list plate",
    vars={
        "plate": "plate", "sample_id": "Z", "v": "Z",
        "n_plates_per_sample": "dict", "n_plates_already_selected_per_sample": "dict",
        "sample_ids_with_insufficient_plates": "set", "sample_chosen": "opt Z",
        "result": "list plate", "sample_id_has_not_yet_been_selected": "bool",
    },
    prims=[
        ("self.k", "k", "Z"),
        ("__p.n_unique_samples", "n_unique (rows {p})", "Z"),     # Plate.n_unique_samples = len(np.unique(sample_ids))
        ("__p.sample_ids[0]", "sample_of {p}", "Z"),              # first row's sample id
        ("defaultdict(int)", "[]", "dict"),
        ("set()", "[]", "set"),
    ],
    raises=[("KPerSampleBatcher only works if all plates", 1)],
)

C17_SAMPLE = dict(
    file="src/batchie/sampling.py", func="sample",
    out="SrcSampling.v", imports="Model.Sampling", name="src_sample",
    pyparams=["model", "results", "seed", "n_chains", "chain_index", "n_burnin", "thin", "progress_bar"],
    # kind: which class the model object is an instance of (0 MCMCModel, 1 VIModel, other neither);
    # n_thetas = results.n_thetas; w = (calls so far, len(results.thetas)); returned = len(model.sample(...))
    params=[("kind", "Z"), ("seed", "Z"), ("n_chains", "opt Z"), ("chain_index", "opt Z"), ("n_burnin", "opt Z"),
            ("thin", "opt Z"), ("n_thetas", "Z"), ("w", "world"), ("returned", "nat")],
    returns="world",
    vars={"seeds": "seeds", "rng": "rngkey", "total_steps": "Z", "step_index": "Z", "samples": "list theta", "theta": "theta"},
    match_class={"model": {"MCMCModel": "kind =? 0", "VIModel": "kind =? 1"}},
    range_like=("range", "trange"),     # tqdm.trange(n, disable=...) iterates range(n)
    prims=[
        ("results.n_thetas", "n_thetas", "Z"),
        ("results", "w", "world"),
        ("numpy.random.SeedSequence(__s).spawn(__n)", "!spawn_seeds {s} {n}", "seeds", {"s": "Z", "n": "Z"}),
        ("numpy.random.default_rng(__q[__i])", "!rng_of_spawned {q} {i}", "rngkey", {"q": "seeds", "i": "Z"}),
        ("numpy.random.default_rng(__s)", "!rng_of_seed {s}", "rngkey", {"s": "Z"}),
    ],
    effects=[
        ("model.reset_model()", "w", "emit {state} Reset"),
        ("model.set_rng(__r)", "w", "emit {state} (SetRng (fst {r}) (snd {r}))"),
        ("model.step()", "w", "emit {state} Step"),
        ("results.add_theta(model.get_model_state())", "w", "!add_theta n_thetas {state}"),
        ("results.add_theta(__t)", "w", "!add_theta n_thetas {state}"),
    ],
    effect_calls=[
        ("model.sample(num_samples=__n)", "w", "emit {state} (SampleVI {n})", "vi_samples returned", "list theta"),
    ],
    ignore=["logger.info(__a)"],
    raises=[("n_chains must be set", 5), ("chain_index must be set", 5), ("n_burnin must be set", 5),
            ("thin must be set", 5), ("model must be one of", 6)],
)

# ---- C10: batchie.core.ThetaHolder.  A holder object is a value (class id, attribute values) of type pyobj (Model/Thetas.v).
_OBJ, _THETA = "(pyobj P S)", "(theta P S)"
_C10 = dict(
    file="src/batchie/core.py", cls="ThetaHolder", out="SrcThetas.v", imports="Model.Thetas",
    # the two instance attributes (set in __init__) are the two fields of the model's holder
    fields={"thetas": (_OBJ, "list " + _THETA, "attr_thetas {obj}", "set_attr_thetas {obj} {val}"),
            "_n_thetas": (_OBJ, "Z", "attr_n_thetas {obj}", "set_attr_n_thetas {obj} {val}")},
)
_LEN = ("len(__l)", "Z.of_nat (length {l})", "Z")
# property access h.n_thetas runs the translated property ThetaHolder.n_thetas
_N_THETAS = ("__h.n_thetas", "!src_n_thetas P S {h}", "Z", {"h": _OBJ})
_TYPE_NE = ("type(__a) != type(__b)", "negb (py_class {a} =? py_class {b})", "bool", {"a": _OBJ, "b": _OBJ})

C10_INIT = dict(
    _C10, func="__init__", name="src_init", pyparams=["self", "n_thetas"],     # (*args, **kwargs are not read)
    params=[("P", "Type"), ("S", "Type"), ("self", _OBJ), ("n_thetas", "Z")], returns=_OBJ, vars={},
    implicit_return="{self}",
)
C10_N_THETAS = dict(
    _C10, func="n_thetas", name="src_n_thetas", pyparams=["self"],
    params=[("P", "Type"), ("S", "Type"), ("self", _OBJ)], returns="Z", vars={},
)
C10_GET = dict(
    _C10, func="get_theta", name="src_get_theta", pyparams=["self", "step_index"],
    params=[("P", "Type"), ("S", "Type"), ("self", _OBJ), ("step_index", "Z")], returns=_THETA, vars={},
    prims=[_LEN, ("__l[__i]", "!list_get {l} {i}", _THETA, {"l": "list " + _THETA, "i": "Z"})],
    raises=[("step_index out of bounds", 2)],
)
C10_ADD = dict(
    _C10, func="add_theta", name="src_add_theta", pyparams=["self", "theta"],
    params=[("P", "Type"), ("S", "Type"), ("self", _OBJ), ("theta", _THETA)], returns=_OBJ, vars={},
    prims=[_LEN, _N_THETAS],
    raises=[("Cannot add more samples to the results object", 1)],
    implicit_return="{self}",
)
C10_IS_COMPLETE = dict(
    _C10, func="is_complete", name="src_is_complete", pyparams=["self"],
    params=[("P", "Type"), ("S", "Type"), ("self", _OBJ)], returns="bool", vars={},
    prims=[_LEN, _N_THETAS],
)
C10_COMBINE = dict(
    _C10, func="combine", name="src_combine", pyparams=["self", "other"],
    params=[("P", "Type"), ("S", "Type"), ("self", _OBJ), ("other", _OBJ)], returns=_OBJ,
    vars={"n_thetas": "Z", "result": _OBJ},
    prims=[_TYPE_NE, _N_THETAS,
           # ThetaHolder(n): a new instance of class 0 (ThetaHolder itself) initialised by the translated __init__
           ("ThetaHolder(__n)", "!src_init P S (py_blank 0) {n}", _OBJ, {"n": "Z"})],
    raises=[("Cannot combine with different type", 6)],
)
C10_CONCAT = dict(
    _C10, func="concat", name="src_concat", pyparams=["cls", "instances"], unused_params=["cls"],
    params=[("P", "Type"), ("S", "Type"), ("instances", "list " + _OBJ)], returns=_OBJ,
    vars={"first": _OBJ, "instance": _OBJ},
    prims=[_LEN, _TYPE_NE,
           ("__l[1:]", "tl {l}", "list " + _OBJ, {"l": "list " + _OBJ}),
           ("__l[__i]", "!list_get {l} {i}", _OBJ, {"l": "list " + _OBJ, "i": "Z"}),
           # a.combine(b) runs the translated method ThetaHolder.combine
           ("__a.combine(__b)", "!src_combine P S {a} {b}", _OBJ, {"a": _OBJ, "b": _OBJ})],
    raises=[("Cannot concatenate an empty list of ThetaHolder", 3), ("Cannot concatenate different types of ThetaHolder", 7)],
)

ALL = [C16_FILTER, C17_SAMPLE,
       C10_INIT, C10_N_THETAS, C10_GET, C10_ADD, C10_IS_COMPLETE, C10_COMBINE, C10_CONCAT]
