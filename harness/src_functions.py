"""Configurations of the whole-function translations (harness/py2gal.py) written into
coq/theories/Generated/ on every run by gen_consts.py.  One entry per translated function."""

C16_FILTER = dict(
    file="src/batchie/policies/k_per_sample.py", cls="KPerSamplePlatePolicy", func="filter_eligible_plates",
    out="SrcPolicy.v", imports="Model.Policy", name="src_filter_eligible_plates",
    pyparams=["self", "batch_plates", "unobserved_plates", "rng"], unused_params=["rng"],
    params=[("k", "Z"), ("batch_plates", "list plate"), ("unobserved_plates", "list plate")],
    returns="list plate",
    vars={
        "plate": "plate", "sample_id": "Z", "v": "Z",
        "n_plates_per_sample": "dict", "n_plates_already_selected_per_sample": "dict",
        "sample_ids_with_insufficient_plates": "set", "sample_chosen": "opt Z",
        "result": "list plate", "sample_id_has_not_yet_been_selected": "bool",
    },
    prims=[
        ("self.k", "k", "Z"),
        ("__p.n_unique_samples", "n_unique (rows {p})", "Z"),     # Plate.n_unique_samples = len(np.unique(sample_ids))
        ("__p.sample_ids[0]", "sample_of {p}", "Z"),              # first row's sample id
        ("defaultdict(int)", "[]", "dict"),
        ("set()", "[]", "set"),
    ],
    raises=[("KPerSampleBatcher only works if all plates", 1)],
)

C17_SAMPLE = dict(
    file="src/batchie/sampling.py", func="sample",
    out="SrcSampling.v", imports="Model.Sampling", name="src_sample",
    pyparams=["model", "results", "seed", "n_chains", "chain_index", "n_burnin", "thin", "progress_bar"],
    # kind: which class the model object is an instance of (0 MCMCModel, 1 VIModel, other neither);
    # n_thetas = results.n_thetas; w = (calls so far, len(results.thetas)); returned = len(model.sample(...))
    params=[("kind", "Z"), ("seed", "Z"), ("n_chains", "opt Z"), ("chain_index", "opt Z"), ("n_burnin", "opt Z"),
            ("thin", "opt Z"), ("n_thetas", "Z"), ("w", "world"), ("returned", "nat")],
    returns="world",
    vars={"seeds": "seeds", "rng": "rngkey", "total_steps": "Z", "step_index": "Z", "samples": "list theta", "theta": "theta"},
    match_class={"model": {"MCMCModel": "kind =? 0", "VIModel": "kind =? 1"}},
    range_like=("range", "trange"),     # tqdm.trange(n, disable=...) iterates range(n)
    prims=[
        ("results.n_thetas", "n_thetas", "Z"),
        ("results", "w", "world"),
        ("numpy.random.SeedSequence(__s).spawn(__n)", "!spawn_seeds {s} {n}", "seeds", {"s": "Z", "n": "Z"}),
        ("numpy.random.default_rng(__q[__i])", "!rng_of_spawned {q} {i}", "rngkey", {"q": "seeds", "i": "Z"}),
        ("numpy.random.default_rng(__s)", "!rng_of_seed {s}", "rngkey", {"s": "Z"}),
    ],
    effects=[
        ("model.reset_model()", "w", "emit {state} Reset"),
        ("model.set_rng(__r)", "w", "emit {state} (SetRng (fst {r}) (snd {r}))"),
        ("model.step()", "w", "emit {state} Step"),
        ("results.add_theta(model.get_model_state())", "w", "!add_theta n_thetas {state}"),
        ("results.add_theta(__t)", "w", "!add_theta n_thetas {state}"),
    ],
    effect_calls=[
        ("model.sample(num_samples=__n)", "w", "emit {state} (SampleVI {n})", "vi_samples returned", "list theta"),
    ],
    ignore=["logger.info(__a)"],
    raises=[("n_chains must be set", 5), ("chain_index must be set", 5), ("n_burnin must be set", 5),
            ("thin must be set", 5), ("model must be one of", 6)],
)

# ---- C10: batchie.core.ThetaHolder.  A holder object is a value (class id, attribute values) of type pyobj (Model/Thetas.v).
_OBJ, _THETA = "(pyobj P S)", "(theta P S)"
_C10 = dict(
    file="src/batchie/core.py", cls="ThetaHolder", out="SrcThetas.v", imports="Model.Thetas",
    # the two instance attributes (set in __init__) are the two fields of the model's holder
    fields={"thetas": (_OBJ, "list " + _THETA, "attr_thetas {obj}", "set_attr_thetas {obj} {val}"),
            "_n_thetas": (_OBJ, "Z", "attr_n_thetas {obj}", "set_attr_n_thetas {obj} {val}")},
)
_LEN = ("len(__l)", "Z.of_nat (length {l})", "Z")
# property access h.n_thetas runs the translated property ThetaHolder.n_thetas
_N_THETAS = ("__h.n_thetas", "!src_n_thetas P S {h}", "Z", {"h": _OBJ})
# ThetaHolder(n): a new instance of class 0 (ThetaHolder itself) initialised by the translated __init__
_NEW_HOLDER = "!src_init P S (py_blank 0) {n}"
_TYPE_NE = ("type(__a) != type(__b)", "negb (py_class {a} =? py_class {b})", "bool", {"a": _OBJ, "b": _OBJ})

C10_INIT = dict(
    _C10, func="__init__", name="src_init", pyparams=["self", "n_thetas"],     # (*args, **kwargs are not read)
    params=[("P", "Type"), ("S", "Type"), ("self", _OBJ), ("n_thetas", "Z")], returns=_OBJ, vars={},
    implicit_return="{self}",
)
C10_N_THETAS = dict(
    _C10, func="n_thetas", name="src_n_thetas", pyparams=["self"],
    params=[("P", "Type"), ("S", "Type"), ("self", _OBJ)], returns="Z", vars={},
)
C10_GET = dict(
    _C10, func="get_theta", name="src_get_theta", pyparams=["self", "step_index"],
    params=[("P", "Type"), ("S", "Type"), ("self", _OBJ), ("step_index", "Z")], returns=_THETA, vars={},
    prims=[_LEN, ("__l[__i]", "!list_get {l} {i}", _THETA, {"l": "list " + _THETA, "i": "Z"})],
    raises=[("step_index out of bounds", 2)],
)
C10_ADD = dict(
    _C10, func="add_theta", name="src_add_theta", pyparams=["self", "theta"],
    params=[("P", "Type"), ("S", "Type"), ("self", _OBJ), ("theta", _THETA)], returns=_OBJ, vars={},
    prims=[_LEN, _N_THETAS],
    raises=[("Cannot add more samples to the results object", 1)],
    implicit_return="{self}",
)
C10_IS_COMPLETE = dict(
    _C10, func="is_complete", name="src_is_complete", pyparams=["self"],
    params=[("P", "Type"), ("S", "Type"), ("self", _OBJ)], returns="bool", vars={},
    prims=[_LEN, _N_THETAS],
)
C10_COMBINE = dict(
    _C10, func="combine", name="src_combine", pyparams=["self", "other"],
    params=[("P", "Type"), ("S", "Type"), ("self", _OBJ), ("other", _OBJ)], returns=_OBJ,
    vars={"n_thetas": "Z", "result": _OBJ},
    prims=[_TYPE_NE, _N_THETAS,
           ("ThetaHolder(__n)", _NEW_HOLDER, _OBJ, {"n": "Z"})],
    raises=[("Cannot combine with different type", 6)],
)
C10_CONCAT = dict(
    _C10, func="concat", name="src_concat", pyparams=["cls", "instances"], unused_params=["cls"],
    params=[("P", "Type"), ("S", "Type"), ("instances", "list " + _OBJ)], returns=_OBJ,
    vars={"first": _OBJ, "instance": _OBJ},
    prims=[_LEN, _TYPE_NE,
           ("__l[1:]", "tl {l}", "list " + _OBJ, {"l": "list " + _OBJ}),
           ("__l[__i]", "!list_get {l} {i}", _OBJ, {"l": "list " + _OBJ, "i": "Z"}),
           # a.combine(b) runs the translated method ThetaHolder.combine
           ("__a.combine(__b)", "!src_combine P S {a} {b}", _OBJ, {"a": _OBJ, "b": _OBJ})],
    raises=[("Cannot concatenate an empty list of ThetaHolder", 3), ("Cannot concatenate different types of ThetaHolder", 7)],
)

_FILE = "(file P S)"
# "read an HDF5 group into a dict" (attributes first, then every dataset): the group's content IS that dict in the model
_READ_SHARED = """
shared_params = {}
shared_grp = __f['shared_params']
shared_params.update(shared_grp.attrs.items())
for key in shared_grp.keys():
    shared_params[key] = shared_grp[key][:]
"""
_READ_PRIVATE = """
private_params = {}
private_params.update(__g.attrs.items())
for key in __g.keys():
    private_params[key] = __g[key][:]
"""
C10_LOAD = dict(
    _C10, func="load_h5", name="src_load_h5", pyparams=["path"],
    params=[("P", "Type"), ("S", "Type"), ("h5", _FILE)], returns=_OBJ,     # h5 = what the file at `path` holds
    vars={"f": _FILE, "n_thetas": "Z", "result": _OBJ, "theta_class": "sample_class", "theta_module": "sample_class",
          "ThetaClass": "sample_class", "shared_params": "S", "private_grp": "(h5groups P)", "theta_keys": "list h5name",
          "theta_key": "h5name", "i_grp": "P", "private_params": "P", "theta": _THETA},
    contexts=[("h5py.File(path, 'r')", "h5", _FILE)],
    prims=[("__f.attrs['n_thetas']", "f_n {f}", "Z", {"f": _FILE}),
           ("__f.attrs['theta_class']", "tt", "sample_class", {"f": _FILE}),
           ("__f.attrs['theta_module']", "tt", "sample_class", {"f": _FILE}),
           ("getattr(importlib.import_module(__m), __c)", "tt", "sample_class", {"m": "sample_class", "c": "sample_class"}),
           ("ThetaHolder(n_thetas=__n)", _NEW_HOLDER, _OBJ, {"n": "Z"}),
           ("__f['private_params']", "f_groups {f}", "(h5groups P)", {"f": _FILE}),
           ("sorted(list(__g.keys()), key=int)", "sorted_by_int (group_names {g})", "list h5name", {"g": "(h5groups P)"}),
           ("__g[__k]", "!group_member {g} {k}", "P", {"g": "(h5groups P)", "k": "h5name"}),
           # from_dicts rebuilds the sample from its two dicts: a sample IS the pair in the model
           ("__c.from_dicts(private_params=__p, shared_params=__s)", "({p}, {s})", _THETA, {"c": "sample_class", "p": "P", "s": "S"})],
    stmt_prims=[(_READ_SHARED, "shared_params", "f_shared {f}", "S", {"f": _FILE}),
                (_READ_PRIVATE, "private_params", "{g}", "P", {"g": "P"})],
    # result.add_theta(t) runs the translated method add_theta on the local object
    effects=[("result.add_theta(__t)", "result'", "!src_add_theta P S {state} {t}")],
)

_H5W = "(h5w P S)"
# "write a dict into an HDF5 group" (arrays as datasets, scalars as attributes)
_WRITE_SHARED = """
shared_grp = f.create_group('shared_params')
for key, val in __d.items():
    if isinstance(val, ArrayType):
        shared_grp.create_dataset(key, data=val, compression='gzip')
    else:
        shared_grp.attrs.create(key, val)
"""
_WRITE_PRIVATE = """
i_grp = private_grp.create_group(str(__i))
private_params = __t.private_parameters_dict()
for key, val in private_params.items():
    if isinstance(val, ArrayType):
        i_grp.create_dataset(key, data=val, compression='gzip')
    else:
        i_grp.attrs.create(key, val)
"""
C10_SAVE = dict(
    _C10, func="save_h5", name="src_save_h5", pyparams=["self", "fn"],
    params=[("P", "Type"), ("S", "Type"), ("self", _OBJ)], returns=_H5W,       # returns what has been written to `fn`
    vars={"shared_params": "S", "theta_class": "sample_class", "theta_module": "sample_class", "f": _H5W,
          "private_grp": "h5handle", "i": "Z", "theta": _THETA},
    contexts=[("h5py.File(fn, 'w')", "h5_new", _H5W)],
    prims=[_LEN, _N_THETAS,
           ("__t.shared_parameters_dict()", "snd {t}", "S", {"t": _THETA}),     # a sample IS the pair (private, shared)
           ("__t.__class__.__name__", "tt", "sample_class", {"t": _THETA}),
           ("__t.__class__.__module__", "tt", "sample_class", {"t": _THETA}),
           ("__l[__i]", "!list_get {l} {i}", _THETA, {"l": "list " + _THETA, "i": "Z"})],
    effects=[("f.attrs.create('n_thetas', __v)", "f'", "h5_set_n {state} {v}"),
             ("f.attrs.create('theta_class', __c)", "f'", "{state}"),            # the sample class is not modelled
             ("f.attrs.create('theta_module', __c)", "f'", "{state}")],
    effect_calls=[("f.create_group('private_params')", "f'", "h5_create_private {state}", "tt", "h5handle")],
    # str(i) of a non-negative int is its decimal string; private_parameters_dict() is the first component of the pair
    stmt_prims=[(_WRITE_SHARED, "f", "h5_write_shared f' {d}", _H5W, {"d": "S"}),
                (_WRITE_PRIVATE, "f", "h5_add_group f' (key_of_index (Z.to_nat {i})) (fst {t})", _H5W, {"i": "Z", "t": _THETA})],
    globals=["isinstance", "ArrayType", "str"],
    raises=[("Cannot save an empty ThetaHolder", 4)],
    implicit_return="{f}",
)

# ---- scoring/main.py (C06 vocabulary: Model/Scores.v) ----
# Trusted per entry: one attribute / library call each.  A Plate object is Scores.plate (its id and the (position, row)
# pairs it selects), the Screen is the list of its rows, the ScoresHolder is Scores.holder, the policy an optional
# function (batch plates, candidates) -> plates.
_SCORING_PRIMS = [
    ("np.random.default_rng()", "fresh_rng", "rng_t"),
    ("screen.plates", "plates screen'", "list plate"),                 # [get_plate(x) for x in np.unique(plate_ids)]
    ("__p.plate_id", "p_id {p}", "Z", {"p": "plate"}),
    ("__p.is_observed", "is_observed {p}", "bool", {"p": "plate"}),   # np.all(observation_mask)
    ("sorted(__l, key=lambda p: p.plate_id)", "sorted_by_id {l}", "list plate", {"l": "list plate"}),   # stable
]

C06_SELECT = dict(
    file="src/batchie/scoring/main.py", func="select_next_plate",
    out="SrcScoring.v", imports="Model.Scores", name="src_select_next_plate",
    pyparams=["scores", "screen", "policy", "batch_plate_ids", "rng"],
    params=[("scores", "holder"), ("screen", "screen"), ("policy", "opt policy_t"), ("batch_plate_ids", "opt list Z"),
            ("rng", "opt rng_t")],
    returns="opt plate",
    vars={
        "rng": "rng_t", "batch_plate_ids": "list Z",       # narrowed by the `if x is None: x = default` idiom
        "plate": "plate", "batch_plates": "list plate", "unobserved_plates_not_already_selected": "list plate",
        "eligible_plates": "list plate", "eligible_plate_ids": "list Z", "best_plate_id": "Z", "best_plate": "plate",
        "best_plate_name": "nat",
    },
    prims=_SCORING_PRIMS + [
        # the policy object is its filter function; rng is handed on unread
        ("__f.filter_eligible_plates(batch_plates=__b, unobserved_plates=__u, rng=__r)", "{f} {b} {u}", "list plate",
         {"f": "policy_t", "b": "list plate", "u": "list plate", "r": "rng_t"}),
        ("scores.plate_id_with_minimum_score(__e)", "!min_plate scores' (Some {e})", "Z", {"e": "list Z"}),
        ("screen.get_plate(__i)", "get_plate screen' {i}", "plate", {"i": "Z"}),     # Plate(screen, plate_ids == i)
        ("__p.plate_name", "!plate_name {p}", "nat", {"p": "plate"}),
    ],
    ignore=["logger.warning(__a)", "logger.info(__a)"],
)

C06_SCORE_CHUNK = dict(
    file="src/batchie/scoring/main.py", func="score_chunk",
    out="SrcScoring.v", imports="Model.Scores", name="src_score_chunk",
    pyparams=["scorer", "thetas", "screen", "distance_matrix", "rng", "progress_bar", "n_chunks", "chunk_index", "batch_plate_ids"],
    # thetas, distance_matrix, progress_bar are only handed on to scorer.score, whose answer is an arbitrary function of the plates dict
    params=[("scorer", "scorer_fn"), ("screen", "screen"), ("rng", "opt rng_t"), ("n_chunks", "Z"), ("chunk_index", "Z"),
            ("batch_plate_ids", "opt list Z")],
    returns="holder",
    vars={
        "rng": "rng_t", "plate": "plate", "p": "plate",
        "unobserved_plates": "list plate", "chunk_plates": "list plate", "previously_selected_plates": "list plate",
        "previously_selected_plates_combined": "subset", "conditioned_plate": "subset", "plates_to_score": "dict subset",
        "scores_holder": "holder", "scores": "dict", "k": "Z", "v": "Z",
    },
    coerce=[("plate", "subset", "p_rows {x}")],        # a Plate is a ScreenSubset: its selection
    prims=_SCORING_PRIMS + [
        ("np.array_split(__l, __n)[__i].tolist()", "!array_split_at {l} {n} {i}", "list plate", {"l": "list plate", "n": "Z", "i": "Z"}),
        ("ScreenSubset.concat(__l)", "!subset_concat screen' {l}", "subset", {"l": "list subset"}),
        ("__p.combine(__q)", "subset_union screen' {p} {q}", "subset", {"p": "subset", "q": "subset"}),
        ("filter_dataset_to_unique_treatments(__x)", "uniq_first [] {x}", "subset", {"x": "subset"}),
        ("len(__d)", "Z.of_nat (length {d})", "Z"),
        ("ChunkedScoresHolder(__n)", "holder_new (Z.to_nat {n})", "holder", {"n": "Z"}),
        ("scorer.score(plates=__p, distance_matrix=distance_matrix, samples=thetas, rng=__r, progress_bar=progress_bar)",
         "scorer' {p}", "dict", {"p": "dict subset", "r": "rng_t"}),
    ],
    effects=[("scores_holder.add_score(__k, __v)", "scores_holder'", "!add_score {state} {k} {v}")],
    ignore=["logger.info(__a)"],
)

# ---- scoring/main.py select_next_plate once more, in the C16 vocabulary (Model/Policy.v): a Plate object is (id, sample ids),
# `observed` its is_observed attribute, the ScoresHolder the list of its (plate id, score key) slots, the policy object
# KPerSamplePlatePolicy(k) is k and its method the C16 model function (itself linked to the source by C16_model_is_source)
C16_SELECT = dict(
    file="src/batchie/scoring/main.py", func="select_next_plate",
    out="SrcScoringPolicy.v", imports="Model.Policy", name="src_select_next_plate_k",
    pyparams=["scores", "screen", "policy", "batch_plate_ids", "rng"],
    params=[("observed", "plate -> bool"), ("scores", "list (Z * Z)"), ("screen", "list plate"), ("policy", "opt Z"),
            ("batch_plate_ids", "opt list Z"), ("rng", "opt rng_t")],
    returns="opt plate",
    vars={
        "rng": "rng_t", "batch_plate_ids": "list Z",       # narrowed by the `if x is None: x = default` idiom
        "plate": "plate", "batch_plates": "list plate", "unobserved_plates_not_already_selected": "list plate",
        "eligible_plates": "list plate", "eligible_plate_ids": "list Z", "best_plate_id": "Z", "best_plate": "plate",
        "best_plate_name": "Z",
    },
    prims=[
        ("np.random.default_rng()", "fresh_rng", "rng_t"),
        ("screen.plates", "screen'", "list plate"),
        ("__p.plate_id", "plate_id {p}", "Z", {"p": "plate"}),
        ("__p.is_observed", "observed {p}", "bool", {"p": "plate"}),
        ("sorted(__l, key=lambda p: p.plate_id)", "sort_by_id {l}", "list plate", {"l": "list plate"}),   # stable
        ("__f.filter_eligible_plates(batch_plates=__b, unobserved_plates=__u, rng=__r)", "!filter_eligible {f} {b} {u}", "list plate",
         {"f": "Z", "b": "list plate", "u": "list plate", "r": "rng_t"}),
        ("scores.plate_id_with_minimum_score(__e)", "!min_score_id scores' {e}", "Z", {"e": "list Z"}),
        ("screen.get_plate(__i)", "get_plate screen' {i}", "plate", {"i": "Z"}),
        ("__p.plate_name", "!plate_name {p}", "Z", {"p": "plate"}),
    ],
    ignore=["logger.warning(__a)", "logger.info(__a)"],
)

# ---- ChunkedScoresHolder: the two numpy arrays are lists, `self` is (scores, plate_ids, current_index) ----
_HOLDER_ATTRS = {"self.scores": "scores", "self.plate_ids": "plate_ids", "self.current_index": "current_index"}
_HOLDER_STATE = [("scores", "list Z"), ("plate_ids", "list Z"), ("current_index", "Z")]

C06_ADD_SCORE = dict(
    file="src/batchie/scoring/main.py", cls="ChunkedScoresHolder", func="add_score",
    out="SrcScoring.v", imports="Model.Scores", name="src_add_score",
    pyparams=["self", "plate_id", "score"], attr_vars=_HOLDER_ATTRS,
    params=_HOLDER_STATE + [("plate_id", "Z"), ("score", "Z")],
    returns="(list Z * list Z * Z)", vars={}, prims=[],
    index_error=4,                                             # a[i] = v past the end
    implicit_return="({scores}, {plate_ids}, {current_index})",   # the state of self when the method ends
)

C06_COMBINE = dict(
    file="src/batchie/scoring/main.py", cls="ChunkedScoresHolder", func="combine",
    out="SrcScoring.v", imports="Model.Scores", name="src_combine",
    pyparams=["self", "other"],
    attr_vars=dict(_HOLDER_ATTRS, **{"other.scores": "other_scores", "other.plate_ids": "other_plate_ids"}),
    params=_HOLDER_STATE + [("other_scores", "list Z"), ("other_plate_ids", "list Z")],
    returns="(list Z * list Z * Z)", vars={"scores": "list Z", "plate_ids": "list Z"},
    prims=[
        ("np.concatenate((__a, __b))", "{a} ++ {b}", "list Z", {"a": "list Z", "b": "list Z"}),
        ("len(__a)", "Z.of_nat (length {a})", "Z"),
        ("self", "(scores', plate_ids', current_index')", "(list Z * list Z * Z)"),     # `return self`: its state at that point
    ],
)

C06_MIN_SCORE = dict(
    file="src/batchie/scoring/main.py", cls="ChunkedScoresHolder", func="plate_id_with_minimum_score",
    out="SrcScoring.v", imports="Model.Scores", name="src_plate_id_with_minimum_score",
    pyparams=["self", "eligible_plate_ids"], attr_vars=_HOLDER_ATTRS,
    params=[("scores", "list Z"), ("plate_ids", "list Z"), ("eligible_plate_ids", "opt list Z")],
    returns="Z", vars={"mask": "list bool"},
    prims=[
        ("__a[__i].item()", "!array_item {a} {i}", "Z", {"a": "list Z", "i": "Z"}),
        ("__a.argmin()", "!argmin_index {a}", "Z", {"a": "list Z"}),       # numpy: first minimum, ValueError on empty
        ("np.isin(__a, __l)", "isin {a} {l}", "list bool", {"a": "list Z", "l": "list Z"}),
        ("__a[__m]", "!mask_select {a} {m}", "list Z", {"a": "list Z", "m": "list bool"}),
    ],
)

C06_CONCAT = dict(
    file="src/batchie/scoring/main.py", cls="ChunkedScoresHolder", func="concat",
    out="SrcScoring.v", imports="Model.Scores", name="src_concat",
    pyparams=["cls", "scores_list"], params=[("scores_list", "list holder")],
    returns="holder", vars={"current": "holder", "scores": "holder"},
    prims=[
        ("__l[0]", "!list_head {l}", "holder", {"l": "list holder"}),
        ("__l[1:]", "tl {l}", "list holder", {"l": "list holder"}),
        ("__a.combine(__b)", "h_combine {a} {b}", "holder", {"a": "holder", "b": "holder"}),   # linked by C06_COMBINE
    ],
    raises=[("Must provide at least one ChunkedScoresHolder", 5)],
)

ALL = [C16_FILTER, C17_SAMPLE,
       C10_INIT, C10_N_THETAS, C10_GET, C10_ADD, C10_IS_COMPLETE, C10_COMBINE, C10_CONCAT, C10_LOAD, C10_SAVE,
       C06_SELECT, C06_SCORE_CHUNK, C16_SELECT, C06_ADD_SCORE, C06_COMBINE, C06_MIN_SCORE, C06_CONCAT]

# ---- C12 / C03: the reveal lifecycle (vocabulary: end of Model/Reveal.v) ----
# A Screen object is Screen.screen; its array attributes are the columns of its rows (one entry per experiment).
# Trusted per entry: one attribute read / one numpy call each.
_SCREEN_ATTRS = [
    ("screen.treatment_names", "col_tnames screen'", "names2d"),
    ("screen.treatment_doses", "col_tdoses screen'", "doses2d"),
    ("screen.observations", "col_obs screen'", "list Z"),                # float64 bit patterns
    ("screen.sample_names", "col_samples screen'", "list name"),
    ("screen.plate_names", "col_plates screen'", "list name"),
    ("screen.control_treatment_name", "s_ctrl screen'", "name"),
    ("screen.observation_mask", "col_mask screen'", "list bool"),
    ("screen.treatment_mapping", "attr_tmap screen'", "tmap_t"),        # (mapping, its id array has an integer dtype = true)
    ("screen.sample_mapping", "attr_smap screen'", "smap_t"),
    ("screen.plate_ids", "s_pids screen'", "list Z"),
    ("screen.size", "screen_size screen'", "Z"),
]
_NUMPY = [
    ("np.isin(__a, __l)", "np_isin {a} {l}", "list bool", {"a": "list Z", "l": "list Z"}),
    ("__a[__m]", "select {m} {a}", "list Z", {"a": "list Z", "m": "list bool"}),          # boolean-mask indexing
    ("__x == 0", "np_eq_zero {x}", "list bool", {"x": "list Z"}),                           # elementwise, on floats
    ("np.isnan(__x)", "np_isnan {x}", "list bool", {"x": "list Z"}),
    ("np.all(__b)", "np_all {b}", "bool", {"b": "list bool"}),
    ("np.any(__b)", "np_any {b}", "bool", {"b": "list bool"}),
    ("__a | __b", "np_or {a} {b}", "list bool", {"a": "list bool", "b": "list bool"}),
    ("np.zeros(__n, dtype=bool)", "np_full false {n}", "list bool", {"n": "Z"}),
    ("np.ones(__n, dtype=bool)", "np_full true {n}", "list bool", {"n": "Z"}),
]
# Screen(...): the model's constructor applied to the keyword arguments THE CALL SITE passes (py2gal kwcalls); a parameter
# that is not passed takes the default of Screen.__init__'s signature (None; control_treatment_name: "")
_SCREEN_CALL = {"Screen": (
    "!py_screen {treatment_names} {treatment_doses} {sample_names} {plate_names} {observations} {observation_mask} "
    "{control_treatment_name} {treatment_mapping} {sample_mapping}", "screen",
    [("treatment_names", "names2d", None), ("treatment_doses", "doses2d", None),
     ("sample_names", "list name", None), ("plate_names", "list name", None),
     ("observations", "opt list Z", "None"), ("observation_mask", "opt list bool", "None"),
     ("control_treatment_name", "opt name", "None"),
     ("treatment_mapping", "opt tmap_t", "None"), ("sample_mapping", "opt smap_t", "None")])}
_C12 = dict(file="src/batchie/retrospective.py", out="SrcReveal.v", imports="Model.Encode Model.Screen Model.Reveal",
            prims=_SCREEN_ATTRS + _NUMPY, kwcalls=_SCREEN_CALL)

C12_REVEAL = dict(
    _C12, func="reveal_plates", name="src_reveal_plates", pyparams=["screen", "plate_ids"],
    params=[("screen", "screen"), ("plate_ids", "list Z")], returns="screen",
    vars={"reveal_mask": "list bool", "revealed_values": "list Z"},
    raises=[("All revealed observations were 0", 8), ("NaN found in revealed observations", 9)],
)
C12_MASK = dict(
    _C12, func="mask_screen", name="src_mask_screen", pyparams=["screen"],
    params=[("screen", "screen")], returns="screen", vars={},
)
C12_UNMASK = dict(
    _C12, func="unmask_screen", name="src_unmask_screen", pyparams=["screen"],
    params=[("screen", "screen")], returns="screen", vars={},
)

ALL += [C12_REVEAL, C12_MASK, C12_UNMASK]

# Screen.set_observed: `self` is the pair of the two arrays the method writes (no other attribute is assigned)
C12_SET_OBSERVED = dict(
    file="src/batchie/data.py", cls="Screen", func="set_observed", out="SrcReveal.v",
    imports="Model.Encode Model.Screen Model.Reveal", name="src_set_observed",
    pyparams=["self", "selection_mask", "observations"],
    attr_vars={"self._observations": "self_observations", "self._observation_mask": "self_observation_mask"},
    params=[("self_observations", "list Z"), ("self_observation_mask", "list bool"),
            ("selection_mask", "list bool"), ("observations", "list Z")],
    returns="(list Z * list bool)", vars={},
    # the dtype guards: a `list bool` IS a bool array, a list of float64 bit patterns IS a float array
    prims=[("np.issubdtype(selection_mask.dtype, bool)", "true", "bool"),
           ("np.issubdtype(observations.dtype, FloatingPointType)", "true", "bool")],
    raises=[("selection_mask must be bool", 12), ("observations must be float", 13)],
    mask_store={"array": "np_mask_assign {a} {m} {v}", "scalar": "np_mask_fill {a} {m} {v}"},
    implicit_return="({self_observations}, {self_observation_mask})",     # the two arrays when the method ends
)
ALL += [C12_SET_OBSERVED]

# Screen.__init__: the two runs of top-level statements that decide observations / observation_mask (py2gal body_slice).
# The rest of __init__ (shape and dtype checks of the other arrays, the id encoders = C01, the attribute stores) is not
# translated here.  pydefaults: the defaults _SCREEN_CALL gives to arguments a call site does not pass.
_INIT = dict(
    file="src/batchie/data.py", cls="Screen", func="__init__", out="SrcReveal.v", imports="Model.Encode Model.Screen Model.Reveal",
    pyparams=["self", "treatment_names", "treatment_doses", "sample_names", "plate_names", "observations", "observation_mask",
              "control_treatment_name", "treatment_mapping", "sample_mapping"],
    pydefaults=["None", "None", "''", "None", "None"],
)
C12_INIT_OBS = dict(
    _INIT, name="src_init_observations",
    body_slice=("if observations is None and observation_mask is not None:", "if observations is not None:"),
    live_vars=["n_experiment_dimension"],                      # = treatment_names.shape[0]
    params=[("observations", "opt list Z"), ("observation_mask", "opt list bool"), ("n_experiment_dimension", "Z")],
    returns="(list Z * list bool)",
    vars={"observations": "list Z", "observation_mask": "list bool"},     # what they are once defaulted
    narrow_none=True,
    prims=[("__a.shape != (__n,)", "negb (Z.of_nat (length {a}) =? {n})", "bool", {"a": "list Z", "n": "Z"}),
           ("np.issubdtype(observations.dtype, FloatingPointType)", "true", "bool"),      # bit patterns ARE floats
           ("np.ones((__n,), dtype=bool)", "np_full true {n}", "list bool", {"n": "Z"}),
           ("np.zeros((__n,), dtype=bool)", "np_full false {n}", "list bool", {"n": "Z"}),
           ("np.zeros((__n,), dtype=FloatingPointType)", "np_full 0 {n}", "list Z", {"n": "Z"})],     # +0.0 has bit pattern 0
    raises=[("observation_mask cannot be provided without observations", 7),
            ("Expected observations to have shape", 14), ("observations must be floats", 13)],
    implicit_return="({observations}, {observation_mask})",
)
C12_INIT_PLATES = dict(
    _INIT, name="src_init_plate_check",
    body_slice=("plate_names_unique = np.unique(plate_names)", "for plate_name in plate_names_unique:"),
    params=[("plate_names", "list name"), ("observation_mask", "list bool")],      # the mask as the first run left it
    returns="unit",
    vars={"plate_names_unique": "list name", "plate_name": "name", "plate_mask": "list bool"},
    prims=[("np.unique(__a)", "sort_uniq name_cmp {a}", "list name", {"a": "list name"}),       # sorted, duplicate-free
           ("plate_names == plate_name", "np_eq_name plate_names' plate_name'", "list bool"),
           ("__a[0]", "!list_get {a} 0", "bool", {"a": "list bool"}),                            # IndexError on an empty array
           ("__a[__m]", "select {m} {a}", "list bool", {"a": "list bool", "m": "list bool"}),
           ("__a == __b", "np_eq_bool {a} {b}", "list bool", {"a": "list bool", "b": "bool"}),
           ("np.all(__b)", "np_all {b}", "bool", {"b": "list bool"})],
    raises=[("has a mixture of observed and not observed outcomes", 2)],
    implicit_return="tt",
)
ALL += [C12_INIT_OBS, C12_INIT_PLATES]
